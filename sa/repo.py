"""Load the torchphysics sources of /repo's *working tree* and resolve them into a
class hierarchy with MRO, import tables and a function index.

Nothing is imported or executed: everything is `ast`.
"""
from __future__ import annotations

import ast
import hashlib
import os
from dataclasses import dataclass, field
from typing import Dict, Iterator, List, Optional, Tuple

REPO_ROOT = os.environ.get("VERIF_REPO", "/repo")
PKG = "torchphysics"


class AnalysisError(Exception):
    """Anchor vanished / construct outside the analyser's idiom table (exit 2)."""


@dataclass
class FuncInfo:
    name: str
    qual: str  # module-relative qualname, e.g. "Circle.sample_grid" / "_check_in_b"
    module: "Module"
    node: ast.FunctionDef
    cls: Optional["ClassInfo"] = None

    @property
    def fq(self) -> str:
        return f"{self.module.name}.{self.qual}"

    @property
    def relpath(self) -> str:
        return self.module.relpath

    def site(self, node: Optional[ast.AST] = None) -> str:
        line = getattr(node, "lineno", None) or self.node.lineno
        return f"{self.module.relpath}:{line}"

    @property
    def params(self) -> List[str]:
        a = self.node.args
        return [x.arg for x in a.posonlyargs + a.args + a.kwonlyargs]

    @property
    def decorators(self) -> List[str]:
        return [ast.unparse(d) for d in self.node.decorator_list]


@dataclass
class ClassInfo:
    name: str
    module: "Module"
    node: ast.ClassDef
    base_exprs: List[str] = field(default_factory=list)
    bases: List["ClassInfo"] = field(default_factory=list)  # in-repo bases
    ext_bases: List[str] = field(default_factory=list)  # dotted names of others
    methods: Dict[str, FuncInfo] = field(default_factory=dict)
    nested: Dict[str, "ClassInfo"] = field(default_factory=dict)
    outer: Optional["ClassInfo"] = None
    _mro: Optional[List["ClassInfo"]] = None

    @property
    def qual(self) -> str:
        return (self.outer.qual + "." if self.outer else "") + self.name

    @property
    def fq(self) -> str:
        return f"{self.module.name}.{self.qual}"

    def __hash__(self):
        return id(self)

    def __eq__(self, other):
        return self is other

    def __repr__(self):
        return f"<class {self.fq}>"


@dataclass
class Module:
    name: str  # dotted
    path: str  # absolute
    relpath: str  # relative to repo root
    src: str
    tree: ast.Module
    is_pkg: bool
    imports: Dict[str, Tuple[str, Optional[str]]] = field(default_factory=dict)
    star_imports: List[str] = field(default_factory=list)
    classes: Dict[str, ClassInfo] = field(default_factory=dict)
    functions: Dict[str, FuncInfo] = field(default_factory=dict)

    def __hash__(self):
        return id(self)

    def __eq__(self, other):
        return self is other


_TREE_CACHE: Dict[tuple, ast.AST] = {}


class Repo:
    def __init__(self, root: str = None, overlay: Optional[Dict[str, str]] = None):
        self.root = root or REPO_ROOT
        self.overlay = overlay or {}
        self.modules: Dict[str, Module] = {}
        self._load()
        self._argform()
        self._index()
        self._link()
        self._tag_tuple_elements()

    # ------------------------------------------------------------------ load
    def _load(self):
        base = os.path.join(self.root, "src")
        pkgdir = os.path.join(base, PKG)
        if not os.path.isdir(pkgdir):
            raise AnalysisError(f"package directory {pkgdir} not found")
        for dirpath, dirnames, filenames in os.walk(pkgdir):
            dirnames[:] = sorted(d for d in dirnames if d != "__pycache__")
            for fn in sorted(filenames):
                if not fn.endswith(".py"):
                    continue
                path = os.path.join(dirpath, fn)
                rel = os.path.relpath(path, self.root)
                if rel in self.overlay:
                    src = self.overlay[rel]
                else:
                    with open(path, encoding="utf-8") as fh:
                        src = fh.read()
                key = (rel, hash(src), bool(os.environ.get("VERIF_NO_CANON")))
                cached = _TREE_CACHE.get(key)
                if cached is not None:
                    tree = cached  # parsed + canonical trees are read-only for the rules (substitution copies), so variants share them
                else:
                    try:
                        tree = ast.parse(src, filename=rel)
                    except SyntaxError as e:
                        raise AnalysisError(f"{rel}: does not parse: {e}")
                    if not os.environ.get("VERIF_NO_CANON"):
                        from .canon import canonicalise
                        self.canon_rewrites = getattr(self, "canon_rewrites", 0) + canonicalise(tree)
                    _TREE_CACHE[key] = tree
                modrel = os.path.relpath(path, base)[:-3].replace(os.sep, ".")
                is_pkg = fn == "__init__.py"
                if is_pkg:
                    modrel = modrel[: -len(".__init__")]
                self.modules[modrel] = Module(modrel, path, rel, src, tree, is_pkg)

    def _argform(self):
        if not os.environ.get("VERIF_NO_CANON"):
            from .canon import argument_form
            self.canon_rewrites = getattr(self, "canon_rewrites", 0) + argument_form([m.tree for m in self.modules.values()])

    def digest(self) -> str:
        h = hashlib.sha256()
        for name in sorted(self.modules):
            h.update(name.encode())
            h.update(self.modules[name].src.encode())
        return h.hexdigest()[:16]

    # ----------------------------------------------------------------- index
    def _abs_import(self, mod: Module, level: int, target: Optional[str]) -> str:
        if level == 0:
            return target or ""
        parts = mod.name.split(".")
        if not mod.is_pkg:
            parts = parts[:-1]
        if level > 1:
            parts = parts[: len(parts) - (level - 1)]
        if target:
            parts = parts + target.split(".")
        return ".".join(parts)

    def _index(self):
        for mod in self.modules.values():
            for node in ast.walk(mod.tree):
                # imports anywhere (function-local imports are used for cycles)
                if isinstance(node, ast.ImportFrom):
                    src = self._abs_import(mod, node.level, node.module)
                    for al in node.names:
                        if al.name == "*":
                            mod.star_imports.append(src)
                        else:
                            mod.imports.setdefault(al.asname or al.name, (src, al.name))
                elif isinstance(node, ast.Import):
                    for al in node.names:
                        if al.asname:
                            mod.imports.setdefault(al.asname, (al.name, None))
                        else:
                            top = al.name.split(".")[0]
                            mod.imports.setdefault(top, (top, None))
            for node in mod.tree.body:
                self._index_stmt(mod, node, None)

    def _index_stmt(self, mod: Module, node: ast.AST, outer: Optional[ClassInfo]):
        if isinstance(node, ast.ClassDef):
            ci = ClassInfo(node.name, mod, node, outer=outer)
            ci.base_exprs = [ast.unparse(b) for b in node.bases]
            if outer is None:
                mod.classes[node.name] = ci
            else:
                outer.nested[node.name] = ci
            for sub in node.body:
                if isinstance(sub, (ast.FunctionDef, ast.AsyncFunctionDef)):
                    fi = FuncInfo(sub.name, f"{ci.qual}.{sub.name}", mod, sub, ci)
                    # property setter/getter pairs: keep the first (getter)
                    ci.methods.setdefault(sub.name, fi)
                elif isinstance(sub, ast.ClassDef):
                    self._index_stmt(mod, sub, ci)
        elif isinstance(node, (ast.FunctionDef, ast.AsyncFunctionDef)) and outer is None:
            mod.functions[node.name] = FuncInfo(node.name, node.name, mod, node, None)
        elif isinstance(node, (ast.If, ast.Try)) and outer is None:
            for sub in ast.iter_child_nodes(node):
                if isinstance(sub, (ast.ClassDef, ast.FunctionDef)):
                    self._index_stmt(mod, sub, None)

    # ------------------------------------------------------------------ link
    def lookup(self, mod: Module, name: str, _seen=None):
        """Resolve a (possibly dotted) name used in `mod` to a ClassInfo, FuncInfo,
        Module, or a string 'ext:<dotted>' for things outside the package."""
        _seen = _seen or set()
        key = (mod.name, name)
        if key in _seen:
            return None
        _seen.add(key)
        head, _, rest = name.partition(".")
        obj = None
        if head in mod.classes:
            obj = mod.classes[head]
        elif head in mod.functions:
            obj = mod.functions[head]
        elif head in mod.imports:
            src, sym = mod.imports[head]
            obj = self._lookup_import(src, sym, _seen)
        else:
            for star in mod.star_imports:
                m = self.modules.get(star)
                if m is not None:
                    got = self.lookup(m, head, _seen)
                    if got is not None and not (isinstance(got, str)):
                        obj = got
                        break
        if obj is None:
            return None
        while rest:
            head, _, rest = rest.partition(".")
            if isinstance(obj, Module):
                obj = self.lookup(obj, head, _seen)
            elif isinstance(obj, ClassInfo):
                if head in obj.nested:
                    obj = obj.nested[head]
                else:
                    r = self.resolve_method(obj, head)
                    obj = r
            elif isinstance(obj, str):
                obj = obj + "." + head
            else:
                return None
            if obj is None:
                return None
        return obj

    def _lookup_import(self, src: str, sym: Optional[str], _seen):
        if sym is None:
            if src in self.modules:
                return self.modules[src]
            return "ext:" + src
        if src in self.modules:
            m = self.modules[src]
            sub = f"{src}.{sym}"
            got = self.lookup(m, sym, _seen)
            if got is not None:
                return got
            if sub in self.modules:
                return self.modules[sub]
            return None
        sub = f"{src}.{sym}"
        if sub in self.modules:
            return self.modules[sub]
        if src.split(".")[0] == PKG:
            return None
        return "ext:" + sub

    def _link(self):
        for ci in self.all_classes():
            for b in ci.node.bases:
                txt = ast.unparse(b)
                got = self.lookup(ci.module, txt)
                if ci.outer is not None and got is None and txt in ci.outer.nested:
                    got = ci.outer.nested[txt]
                if isinstance(got, ClassInfo):
                    ci.bases.append(got)
                elif isinstance(got, str):
                    ci.ext_bases.append(got[4:])
                else:
                    ci.ext_bases.append(txt)

    def _tag_tuple_elements(self):
        """D23 with the class table: `self.m(...)[k]` (constant k) where the method the class resolves `m` to returns a tuple display on
        every return is the k-th element of its result - the `_tuple_elt` form the walker produces for an unpacking of the same call"""
        if os.environ.get("VERIF_NO_CANON"):
            return

        def tuple_fn(fi) -> bool:
            rets = []

            def collect(n):
                for c in ast.iter_child_nodes(n):
                    if isinstance(c, (ast.FunctionDef, ast.AsyncFunctionDef, ast.Lambda, ast.ClassDef)):
                        continue
                    if isinstance(c, ast.Return):
                        rets.append(c)
                    collect(c)
            collect(fi.node)
            ok = bool(rets) and all(isinstance(r.value, ast.Tuple) and len(r.value.elts) >= 2 for r in rets)
            if ok and len({len(r.value.elts) for r in rets}) == 1 and not any(isinstance(x, ast.Starred) for r in rets for x in r.value.elts):
                tuple_fn.length = len(rets[0].value.elts)
            else:
                tuple_fn.length = None
            return ok
        for ci in self.all_classes():
            for fi in ci.methods.values():
                for n in ast.walk(fi.node):
                    if isinstance(n, ast.Subscript) and isinstance(n.ctx, ast.Load) and isinstance(n.slice, ast.Constant) and isinstance(n.slice.value, int) \
                            and not isinstance(n.slice.value, bool) and n.slice.value >= 0 and isinstance(n.value, ast.Call) \
                            and isinstance(n.value.func, ast.Attribute) and isinstance(n.value.func.value, ast.Name) and n.value.func.value.id == "self":
                        tgt = self.resolve_method(ci, n.value.func.attr)
                        if tgt is not None and tuple_fn(tgt):
                            n._tuple_elt = True  # type: ignore[attr-defined]
                    # a call of such a method is a tuple of known length (loops / comprehensions over it can be unrolled exactly)
                    if isinstance(n, ast.Call) and isinstance(n.func, ast.Attribute) and isinstance(n.func.value, ast.Name) and n.func.value.id == "self":
                        tgt = self.resolve_method(ci, n.func.attr)
                        if tgt is not None and tuple_fn(tgt) and tuple_fn.length is not None:
                            n._tuple_len = tuple_fn.length  # type: ignore[attr-defined]

    # ------------------------------------------------------------- hierarchy
    def all_classes(self) -> Iterator[ClassInfo]:
        def rec(ci):
            yield ci
            for n in ci.nested.values():
                yield from rec(n)

        for name in sorted(self.modules):
            for ci in self.modules[name].classes.values():
                yield from rec(ci)

    def all_functions(self) -> Iterator[FuncInfo]:
        for name in sorted(self.modules):
            m = self.modules[name]
            yield from m.functions.values()
            for ci in m.classes.values():
                yield from self._class_funcs(ci)

    def _class_funcs(self, ci):
        yield from ci.methods.values()
        for n in ci.nested.values():
            yield from self._class_funcs(n)

    def mro(self, ci: ClassInfo) -> List[ClassInfo]:
        if ci._mro is not None:
            return ci._mro
        seqs = [self.mro(b)[:] for b in ci.bases] + [ci.bases[:]]
        res = [ci]
        while True:
            seqs = [s for s in seqs if s]
            if not seqs:
                break
            for s in seqs:
                cand = s[0]
                if not any(cand in t[1:] for t in seqs):
                    break
            else:
                raise AnalysisError(f"inconsistent MRO for {ci.fq}")
            res.append(cand)
            for s in seqs:
                if s[0] is cand:
                    del s[0]
        ci._mro = res
        return res

    def ext_ancestors(self, ci: ClassInfo) -> List[str]:
        out = []
        for c in self.mro(ci):
            out.extend(c.ext_bases)
        return out

    def resolve_method(self, ci: ClassInfo, name: str, after: ClassInfo = None) -> Optional[FuncInfo]:
        """MRO lookup; with `after`, the lookup `super()` performs in class `after`."""
        mro = self.mro(ci)
        if after is not None:
            if after not in mro:
                return None
            mro = mro[mro.index(after) + 1:]
        for c in mro:
            if name in c.methods:
                return c.methods[name]
        return None

    def is_subclass(self, ci: ClassInfo, root: ClassInfo) -> bool:
        return root in self.mro(ci)

    def subclasses(self, root: ClassInfo, strict=False) -> List[ClassInfo]:
        return [c for c in self.all_classes() if root in self.mro(c) and not (strict and c is root)]

    def overriders(self, root: ClassInfo, name: str) -> List[FuncInfo]:
        return [c.methods[name] for c in self.subclasses(root) if name in c.methods]

    # ------------------------------------------------------------- shortcuts
    def module(self, dotted: str) -> Module:
        full = dotted if dotted.startswith(PKG) else f"{PKG}.{dotted}"
        m = self.modules.get(full)
        if m is None:
            raise AnalysisError(f"module {full} vanished")
        return m

    def cls(self, spec: str) -> ClassInfo:
        """'problem.domains.domain.Domain' (module path relative to the package + class)."""
        modname, _, cname = spec.rpartition(".")
        m = self.module(modname)
        if cname not in m.classes:
            raise AnalysisError(f"class {spec} vanished")
        return m.classes[cname]

    def find_class(self, name: str) -> ClassInfo:
        hits = [c for c in self.all_classes() if c.name == name and c.outer is None]
        if len(hits) != 1:
            raise AnalysisError(f"class {name}: {len(hits)} definitions found")
        return hits[0]

    def func(self, spec: str) -> FuncInfo:
        """'problem.domains.domainoperations.sampler_helper._check_in_b' or
        'solver.Solver.training_step'."""
        parts = spec.split(".")
        for cut in range(len(parts) - 1, 0, -1):
            modname = f"{PKG}." + ".".join(parts[:cut])
            if modname in self.modules:
                m = self.modules[modname]
                rest = parts[cut:]
                if len(rest) == 1:
                    if rest[0] in m.functions:
                        return m.functions[rest[0]]
                elif rest[0] in m.classes:
                    ci = m.classes[rest[0]]
                    for r in rest[1:-1]:
                        ci = ci.nested.get(r)
                        if ci is None:
                            break
                    if ci is not None:
                        if rest[-1] in ci.methods:
                            return ci.methods[rest[-1]]
                        raise AnalysisError(f"function {spec} vanished")
        raise AnalysisError(f"function {spec} vanished")

    def method(self, cls_name: str, meth: str, inherited=True) -> FuncInfo:
        ci = self.find_class(cls_name)
        fi = self.resolve_method(ci, meth) if inherited else ci.methods.get(meth)
        if fi is None:
            raise AnalysisError(f"method {cls_name}.{meth} vanished")
        return fi


def norm_text(node: ast.AST) -> str:
    """Normalised source of a construct (independent of layout/comments)."""
    return ast.unparse(node)


def digest_of(text: str) -> str:
    return hashlib.sha256(text.encode()).hexdigest()[:12]

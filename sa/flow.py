"""Syntax-directed path walker with def-use expansion.

`paths(func)` enumerates the acyclic paths of a function (loops: body taken once,
the documented "loops run at least once" policy) and returns for each path
  * env    : local name / `self.attr` -> defining expression with every local
             already substituted (an expression DAG over parameters, attributes
             not assigned in this function, globals, loop variables and calls),
  * guards : branch conditions taken (expanded), with polarity and kind,
  * events : calls made as statements, stores into subscripts/attributes,
             augmented assignments, deletes, in program order (expanded),
  * ret    : the expanded return expression (None for fall-through, RAISE).
Rules work on these expanded expressions, so temporaries, renamings and statement
order (where data flow is unchanged) are invisible to them.
"""
from __future__ import annotations

import ast
import copy
from dataclasses import dataclass, field
from typing import Dict, List, Optional, Tuple

from .repo import AnalysisError

MAX_PATHS = 512


class _Raise:
    def __repr__(self):
        return "RAISE"


RAISE = _Raise()


@dataclass
class Event:
    kind: str  # call | store | aug | attr | del | raise | assert | yield
    node: ast.AST  # original statement (for line numbers)
    target: Optional[ast.AST] = None  # expanded
    value: Optional[ast.AST] = None  # expanded
    op: Optional[str] = None
    loop: int = 0  # loop nesting depth at the event
    guards: Tuple = ()
    raw: Optional[ast.AST] = None  # un-expanded target (stores)


@dataclass
class Path:
    env: Dict[str, ast.AST] = field(default_factory=dict)
    guards: List[Tuple[ast.AST, bool, str]] = field(default_factory=list)
    events: List[Event] = field(default_factory=list)
    loopvars: Dict[str, ast.AST] = field(default_factory=dict)
    ret: object = None
    ret_node: Optional[ast.AST] = None
    loop: int = 0
    assigned: Dict[str, int] = field(default_factory=dict)  # name -> number of assignments
    attrs: Dict[str, ast.AST] = field(default_factory=dict)  # self.attr values when expand_self=False
    phi: Dict[str, ast.AST] = field(default_factory=dict)  # loop-carried name -> value on loop entry (phi=True)
    phi_next: Dict[str, ast.AST] = field(default_factory=dict)  # loop-carried name -> value after one iteration, over the symbol itself
    loopstack: List[Tuple[str, ...]] = field(default_factory=list)  # target names of the enclosing loops, innermost last
    loopsrc: List[ast.AST] = field(default_factory=list)  # their iterables
    alias: Dict[str, Tuple[str, ...]] = field(default_factory=dict)  # local name -> names bound to the same mutable container
    epoch: Dict[str, int] = field(default_factory=dict)  # local name -> number of (re)bindings so far (assignments, loop targets)
    gepoch: Dict[int, Dict[str, int]] = field(default_factory=dict)  # id(guard expression) -> binding epochs of its names when it was decided

    def fork(self) -> "Path":
        p = Path(dict(self.env), list(self.guards), list(self.events), dict(self.loopvars),
                 self.ret, self.ret_node, self.loop, dict(self.assigned), dict(self.attrs), dict(self.phi), dict(self.phi_next), list(self.loopstack), list(self.loopsrc), dict(self.alias), dict(self.epoch), dict(self.gepoch))
        return p


def attr_chain(node: ast.AST) -> Optional[str]:
    parts = []
    while isinstance(node, ast.Attribute):
        parts.append(node.attr)
        node = node.value
    if isinstance(node, ast.Name):
        parts.append(node.id)
        return ".".join(reversed(parts))
    return None


def call_name(node: ast.AST) -> Optional[str]:
    if isinstance(node, ast.Call):
        return attr_chain(node.func)
    return None


def kwarg(call: ast.Call, name: str, pos: Optional[int] = None) -> Optional[ast.AST]:
    for k in call.keywords:
        if k.arg == name:
            return k.value
    if pos is not None and pos < len(call.args) and not any(isinstance(a, ast.Starred) for a in call.args[: pos + 1]):
        return call.args[pos]
    return None


def walk_calls(node: ast.AST):
    for n in ast.walk(node):
        if isinstance(n, ast.Call):
            yield n


def names_in(node: ast.AST) -> set:
    return {n.id for n in ast.walk(node) if isinstance(n, ast.Name)}


def contains_node(hay: ast.AST, pred) -> bool:
    return any(pred(n) for n in ast.walk(hay))


def dump(node) -> str:
    if node is None:
        return "None"
    if node is RAISE:
        return "RAISE"
    try:
        return ast.unparse(node)
    except Exception:
        return ast.dump(node)


def same(a: ast.AST, b: ast.AST) -> bool:
    return ast.dump(a) == ast.dump(b)


class _Subst(ast.NodeTransformer):
    def __init__(self, env):
        self.env = env
        self.shadow: List[set] = []

    def _shadowed(self, name):
        return any(name in s for s in self.shadow)

    def visit_Name(self, node):
        if isinstance(node.ctx, ast.Load) and node.id in self.env and not self._shadowed(node.id):
            new = copy.deepcopy(self.env[node.id])
            return new
        return node

    def visit_Attribute(self, node):
        ch = attr_chain(node)
        if ch is not None and isinstance(node.ctx, ast.Load) and ch in self.env and ch.count(".") >= 1:
            base = ch.split(".")[0]
            if not self._shadowed(base):
                return copy.deepcopy(self.env[ch])
        return self.generic_visit(node)

    def _comp(self, node):
        bound = set()
        for g in node.generators:
            bound |= names_in(g.target)
        # iterables of the first generator see the outer scope
        self.shadow.append(bound)
        try:
            new = copy.copy(node)
            gens = []
            for i, g in enumerate(node.generators):
                g2 = copy.copy(g)
                if i == 0:
                    self.shadow.pop()
                    g2.iter = self.visit(copy.deepcopy(g.iter))
                    self.shadow.append(bound)
                else:
                    g2.iter = self.visit(copy.deepcopy(g.iter))
                g2.ifs = [self.visit(copy.deepcopy(x)) for x in g.ifs]
                gens.append(g2)
            new.generators = gens
            if isinstance(node, ast.DictComp):
                new.key = self.visit(copy.deepcopy(node.key))
                new.value = self.visit(copy.deepcopy(node.value))
            else:
                new.elt = self.visit(copy.deepcopy(node.elt))
            return new
        finally:
            self.shadow.pop()

    visit_ListComp = _comp
    visit_SetComp = _comp
    visit_GeneratorExp = _comp
    visit_DictComp = _comp

    def visit_Lambda(self, node):
        a = node.args
        bound = {x.arg for x in a.posonlyargs + a.args + a.kwonlyargs}
        if a.vararg:
            bound.add(a.vararg.arg)
        if a.kwarg:
            bound.add(a.kwarg.arg)
        self.shadow.append(bound)
        try:
            new = copy.copy(node)
            new.body = self.visit(copy.deepcopy(node.body))
            return new
        finally:
            self.shadow.pop()


def subst(expr: ast.AST, env: Dict[str, ast.AST]) -> ast.AST:
    if expr is None:
        return None
    return _Subst(env).visit(copy.deepcopy(expr))


def tuple_elt(value: ast.AST, i: int) -> ast.AST:
    if isinstance(value, (ast.Tuple, ast.List)) and i < len(value.elts) and not any(
        isinstance(e, ast.Starred) for e in value.elts
    ):
        return value.elts[i]
    node = ast.Subscript(value=value, slice=ast.Constant(value=i), ctx=ast.Load())
    node._tuple_elt = True  # type: ignore[attr-defined]
    return ast.copy_location(node, value) if hasattr(value, "lineno") else node


def known_tuple(it: ast.AST) -> ast.AST:
    """a call the repository tags with the length of the tuple it returns (Repo._tag_tuple_elements) stands for the literal tuple of its elements"""
    n = getattr(it, "_tuple_len", None)
    if isinstance(it, ast.Call) and isinstance(n, int) and 1 <= n <= 8:
        return ast.copy_location(ast.Tuple(elts=[tuple_elt(it, i) for i in range(n)], ctx=ast.Load()), it)
    return it


FALL, RET, BRK, CONT = "fall", "ret", "break", "continue"


class Walker:
    def __init__(self, func_node: ast.FunctionDef, max_paths: int = MAX_PATHS, loops_zero: bool = False, expand_self: bool = True, track_stores: bool = False, phi: bool = False):
        self.expand_self = expand_self
        self.track_stores = track_stores
        self.phi = phi
        self.fn = func_node
        self.max_paths = max_paths
        self.loops_zero = loops_zero
        self.count = 0

    def run(self) -> List[Path]:
        start = Path()
        out = []
        for p, st in self.block(self.fn.body, start):
            out.append(p)
        return out

    # -- statement lists -------------------------------------------------
    def block(self, stmts, path: Path):
        states = [(path, FALL)]
        for s in stmts:
            nxt = []
            for p, st in states:
                if st != FALL:
                    nxt.append((p, st))
                    continue
                nxt.extend(self.stmt(s, p))
            states = nxt
            if len(states) > self.max_paths:
                raise AnalysisError(f"more than {self.max_paths} paths in {self.fn.name}")
        return states

    def ev(self, p: Path, kind, node, target=None, value=None, op=None):
        if value is not None:
            self._tag(value)
        p.events.append(Event(kind, node, target, value, op, p.loop, tuple(p.guards)))

    _ids = 0

    def _tag(self, value: ast.AST):
        """identity of one evaluation: copies made by substitution keep `_def_id`, so two
        uses of one variable are recognisably the same value, two textually equal calls are not"""
        if value is not None and isinstance(value, ast.AST):
            if not hasattr(value, "_def_id"):
                Walker._ids += 1
                value._def_id = Walker._ids
            # every call evaluated by this statement is one evaluation (two textually equal torch.rand(..) are two draws)
            for n in ast.walk(value):
                if isinstance(n, ast.Call) and not hasattr(n, "_def_id"):
                    Walker._ids += 1
                    n._def_id = Walker._ids

    def assign(self, p: Path, target: ast.AST, value: ast.AST, node):
        self._tag(value)
        if isinstance(target, ast.Name):
            p.env[target.id] = value
            p.assigned[target.id] = p.assigned.get(target.id, 0) + 1
            p.epoch[target.id] = p.epoch.get(target.id, 0) + 1
        elif isinstance(target, (ast.Tuple, ast.List)):
            for i, t in enumerate(target.elts):
                if isinstance(t, ast.Starred):
                    self.assign(p, t.value, ast.Starred(value=value, ctx=ast.Load()), node)
                else:
                    self.assign(p, t, tuple_elt(value, i), node)
        elif isinstance(target, ast.Attribute):
            ch = attr_chain(target)
            tgt = subst(target, p.env) if not (ch and ch.startswith("self.")) else target
            self.ev(p, "attr", node, tgt, value)
            if ch is not None and not self.expand_self:
                p.attrs[ch] = value
            elif ch is not None:
                p.env[ch] = value
                # invalidate longer chains
                for k in [k for k in p.env if k.startswith(ch + ".")]:
                    del p.env[k]
        elif isinstance(target, ast.Subscript):
            self.ev(p, "store", node, subst(target, p.env), value)
            p.events[-1].raw = target
            cur = p.env.get(target.value.id) if isinstance(target.value, ast.Name) else None
            if isinstance(cur, ast.DictComp):
                cur = ast.Dict(keys=[None], values=[cur])
            if isinstance(cur, ast.Dict) and not isinstance(target.slice, (ast.Slice, ast.Tuple)):
                # d[k] = v on a local dict literal: the literal grows (last writer wins, as in {**d, k: v})
                val = value
                if p.loopstack:
                    val._iter_of = p.loopstack[-1]
                    val._iter_src = p.loopsrc[-1]
                    val._iter_epoch = {k: p.epoch.get(k, 0) for k in p.loopstack[-1]}  # which binding of the loop names this entry belongs to
                p.env[target.value.id] = ast.Dict(keys=list(cur.keys) + [subst(target.slice, p.env)], values=list(cur.values) + [val])
                for other in p.alias.get(target.value.id, ()):
                    p.env[other] = p.env[target.value.id]
            elif self.track_stores and isinstance(target.value, ast.Attribute) and isinstance(target.value.value, ast.Name) and target.value.value.id in p.env \
                    and target.value.attr in ("imag", "real", "data", "T", "mT"):
                # x.imag[idx] = v : a store into (a view of) x
                name = target.value.value.id
                old_v = p.env[name]
                p.env[name] = ast.Call(func=ast.Name(id="__store__", ctx=ast.Load()), args=[old_v, ast.Tuple(elts=[ast.Constant(value=target.value.attr), subst(target.slice, p.env)], ctx=ast.Load()), value], keywords=[])
            elif self.track_stores and isinstance(target.value, ast.Name) and target.value.id in p.env:
                # x[idx] = v  ==>  x := __store__(x, idx, v): later uses of x depend on v
                old_v = p.env[target.value.id]
                new_v = ast.Call(func=ast.Name(id="__store__", ctx=ast.Load()), args=[old_v, subst(target.slice, p.env), value], keywords=[])
                if hasattr(old_v, "_def_id"):
                    pass
                p.env[target.value.id] = new_v
        else:
            raise AnalysisError(f"assignment target {dump(target)}")

    def cond(self, t: ast.AST, p: Path, kind: str):
        """Short-circuit evaluation of a branch condition: -> (paths on which it holds, paths on which it fails).
        Guards are atomic and positive: `not`, `and`, `or` are resolved into polarities and path splits, `is not` / `!=` /
        `not in` are recorded as the negation of `is` / `==` / `in`; so De Morgan rewrites, swapped branches and early
        returns give the same guard sets."""
        if isinstance(t, ast.UnaryOp) and isinstance(t.op, ast.Not):
            a, b = self.cond(t.operand, p, kind)
            return b, a
        if isinstance(t, ast.Call) and isinstance(t.func, ast.Name) and t.func.id == "bool" and len(t.args) == 1 and not t.keywords:
            return self.cond(t.args[0], p, kind)  # bool(x) in a condition is the truth of x
        if isinstance(t, ast.BoolOp):
            is_and = isinstance(t.op, ast.And)
            live, done = [p], []
            for v in t.values:
                nxt = []
                for q in live:
                    a, b = self.cond(v, q, kind)
                    if is_and:
                        nxt += a
                        done += b
                    else:
                        nxt += b
                        done += a
                live = nxt
            return (live, done) if is_and else (done, live)
        pol = True
        if isinstance(t, ast.Compare) and len(t.ops) == 1 and isinstance(t.ops[0], (ast.IsNot, ast.NotEq, ast.NotIn)):
            op = {ast.IsNot: ast.Is, ast.NotEq: ast.Eq, ast.NotIn: ast.In}[type(t.ops[0])]()
            t2 = ast.Compare(left=t.left, ops=[op], comparators=t.comparators)
            ast.copy_location(t2, t)
            if hasattr(t, "_def_id"):
                t2._def_id = t._def_id
            t, pol = t2, False
        # a condition already decided on this path (same pure expression, nothing it reads was written since) is not decided again:
        # `if d: ...` followed by `if not d: ...` has two feasible paths, not four
        names_now = {n.id: p.epoch.get(n.id, 0) for n in ast.walk(t) if isinstance(n, ast.Name)}
        if kind == "if" and not any(isinstance(n, ast.Call) for n in ast.walk(t)):
            key = dump(t)
            for idx, (g0, pol0, k0) in enumerate(p.guards):
                if k0 in ("if", "assert") and dump(g0) == key and p.gepoch.get(id(g0)) == names_now:
                    reads_attr = any(isinstance(n, ast.Attribute) for n in ast.walk(t))
                    written_since = reads_attr and any(e.kind in ("attr", "aug", "store", "call") and len(e.guards) > idx for e in p.events)
                    if not written_since:
                        holds = (pol0 == pol)
                        return ([p], []) if holds else ([], [p])
        a = p.fork()
        a.guards.append((t, pol, kind))
        p.guards.append((t, not pol, kind))
        a.gepoch[id(t)] = names_now
        p.gepoch[id(t)] = names_now
        return [a], [p]

    # ---- comprehensions --------------------------------------------------
    def comps(self, p: Path, v: ast.AST) -> ast.AST:
        """Comprehensions with one generator and no filter are brought to the form the equivalent loop has:
        over a literal sequence they are unrolled exactly ([f(a), f(b)]); over anything else `[f(v) for v in xs]`
        becomes the one-iteration list [f(v)] with v registered as a loop variable over xs — the value an
        append-loop over xs gives under the walker's loop policy.  Generators over literal sequences become tuples."""
        if v is None:
            return v
        from .canon import recanon
        v = recanon(v)
        if not any(isinstance(n, (ast.ListComp, ast.GeneratorExp, ast.DictComp)) for n in ast.walk(v)):
            return v
        walker = self

        class T(ast.NodeTransformer):
            def visit_Lambda(self, node):
                return node

            def visit_DictComp(self, node):
                if len(node.generators) != 1 or node.generators[0].ifs or node.generators[0].is_async:
                    return node
                g = node.generators[0]
                it = self.visit(g.iter)
                if isinstance(it, (ast.List, ast.Tuple)) and 1 <= len(it.elts) <= 8 and not any(isinstance(x, ast.Starred) for x in it.elts):
                    keys, vals = [], []
                    for e in it.elts:
                        env = {}
                        _bind(g.target, e, env)
                        keys.append(self.visit(subst(node.key, env)))
                        vals.append(self.visit(subst(node.value, env)))
                    return ast.copy_location(ast.Dict(keys=keys, values=vals), node)
                env = walker.bind_loop_target(p, g.target, it)
                key = self.visit(subst(node.key, env) if env else node.key)
                val = self.visit(subst(node.value, env) if env else node.value)
                val._iter_of = tuple(n.id for n in ast.walk(g.target) if isinstance(n, ast.Name))
                val._iter_src = it
                p.guards.append((it, True, "for"))
                return ast.copy_location(ast.Dict(keys=[key], values=[val]), node)

            def visit_SetComp(self, node):
                return node

            def _one(self, node):
                if len(node.generators) != 1 or node.generators[0].ifs or node.generators[0].is_async:
                    return self.generic_visit(node)
                g = node.generators[0]
                it = known_tuple(self.visit(g.iter))
                if isinstance(it, ast.Call) and attr_chain(it.func) == "zip" and it.args and not it.keywords and all(isinstance(a, (ast.List, ast.Tuple)) for a in it.args) \
                        and len({len(a.elts) for a in it.args}) == 1:
                    it = ast.Tuple(elts=[ast.Tuple(elts=[a.elts[i] for a in it.args], ctx=ast.Load()) for i in range(len(it.args[0].elts))], ctx=ast.Load())
                if isinstance(it, (ast.List, ast.Tuple)) and 1 <= len(it.elts) <= 8 and not any(isinstance(x, ast.Starred) for x in it.elts):
                    elts = []
                    for e in it.elts:
                        env = {}
                        _bind(g.target, e, env)
                        elts.append(self.visit(subst(node.elt, env)))
                    new = ast.List(elts=elts, ctx=ast.Load()) if isinstance(node, ast.ListComp) else ast.Tuple(elts=elts, ctx=ast.Load())
                    return ast.copy_location(new, node)
                if isinstance(node, ast.ListComp):
                    env = walker.bind_loop_target(p, g.target, it)
                    elt = self.visit(subst(node.elt, env) if env else node.elt)
                    elt._iter_of = tuple(n.id for n in ast.walk(g.target) if isinstance(n, ast.Name))
                    elt._iter_src = it
                    p.guards.append((it, True, "for"))
                    return ast.copy_location(ast.List(elts=[elt], ctx=ast.Load()), node)
                return self.generic_visit(node)

            visit_ListComp = _one
            visit_GeneratorExp = _one
        out = T().visit(v)
        ast.fix_missing_locations(out)
        return out

    def bind_loop_target(self, p: Path, target: ast.AST, it: ast.AST) -> Dict[str, ast.AST]:
        """registers the loop variables of `for target in it`; returns definitions for targets that are functions of
        another loop variable:  `for k, v in d.items()` -> v := d[k], k over d;  `for i, x in enumerate(xs)` -> x := xs[i], i over range(len(xs))"""
        env: Dict[str, ast.AST] = {}
        for n in ast.walk(target):
            if isinstance(n, ast.Name):
                p.epoch[n.id] = p.epoch.get(n.id, 0) + 1  # a new binding: conditions decided about the old value say nothing about this one
        two = isinstance(target, (ast.Tuple, ast.List)) and len(target.elts) == 2 and all(isinstance(t, ast.Name) for t in target.elts)
        if two and isinstance(it, ast.Call) and isinstance(it.func, ast.Attribute) and it.func.attr == "items" and not it.args and not it.keywords:
            k, v = target.elts[0].id, target.elts[1].id
            d = it.func.value
            p.env.pop(k, None)
            p.loopvars[k] = d
            env[v] = ast.Subscript(value=copy.deepcopy(d), slice=ast.Name(id=k, ctx=ast.Load()), ctx=ast.Load())
        elif isinstance(target, ast.Name) and isinstance(it, ast.Call) and isinstance(it.func, ast.Attribute) and it.func.attr == "values" and not it.args and not it.keywords:
            # for v in d.values()  ->  v := d[k] for a key k of d
            v = target.id
            d = it.func.value
            k = f"_key_of_{v}"
            p.loopvars[k] = d
            env[v] = ast.Subscript(value=copy.deepcopy(d), slice=ast.Name(id=k, ctx=ast.Load()), ctx=ast.Load())
        elif isinstance(target, ast.Name) and isinstance(it, ast.Call) and isinstance(it.func, ast.Attribute) and it.func.attr == "keys" and not it.args and not it.keywords:
            p.env.pop(target.id, None)
            p.loopvars[target.id] = it.func.value
        elif two and isinstance(it, ast.Call) and attr_chain(it.func) == "enumerate" and len(it.args) == 1 and not it.keywords:
            i, x = target.elts[0].id, target.elts[1].id
            xs = it.args[0]
            p.env.pop(i, None)
            p.loopvars[i] = ast.Call(func=ast.Name(id="range", ctx=ast.Load()), args=[ast.Call(func=ast.Name(id="len", ctx=ast.Load()), args=[copy.deepcopy(xs)], keywords=[])], keywords=[])
            env[x] = ast.Subscript(value=copy.deepcopy(xs), slice=ast.Name(id=i, ctx=ast.Load()), ctx=ast.Load())
        else:
            for n in ast.walk(target):
                if isinstance(n, ast.Name):
                    p.env.pop(n.id, None)
                    p.loopvars[n.id] = it
        for name, val in env.items():
            ast.fix_missing_locations(val)
            p.env[name] = val
            p.loopvars.pop(name, None)
        return env

    def _list_method(self, p: Path, call: ast.AST):
        """`x.append(v)` / `x.extend([..])` on a local list literal keeps the list
        value up to date (so `bounds.append(...)` sequences expand to a list)."""
        if not (isinstance(call, ast.Call) and isinstance(call.func, ast.Attribute)
                and isinstance(call.func.value, ast.Name)):
            return
        name, meth = call.func.value.id, call.func.attr
        cur = p.env.get(name)
        if meth == "update" and isinstance(cur, (ast.Dict, ast.DictComp)) and len(call.args) == 1 and not call.keywords:
            # d.update(m)  ==>  {**d, **m}
            new = subst(call.args[0], p.env)
            if isinstance(cur, ast.Dict):
                p.env[name] = ast.Dict(keys=list(cur.keys) + [None], values=list(cur.values) + [new])
            else:
                p.env[name] = ast.Dict(keys=[None, None], values=[cur, new])
            return
        if not isinstance(cur, ast.List) or call.keywords:
            return
        if meth == "append" and len(call.args) == 1:
            elt = self.comps(p, subst(call.args[0], p.env))
            elt._iter_of = p.loopstack[-1] if p.loopstack else ()  # the loop whose iterations produce this element
            elt._iter_src = p.loopsrc[-1] if p.loopsrc else None
            elt._iter_epoch = {k: p.epoch.get(k, 0) for k in elt._iter_of}
            p.env[name] = ast.List(elts=list(cur.elts) + [elt], ctx=ast.Load())
        elif meth == "extend" and len(call.args) == 1:
            arg = subst(call.args[0], p.env)
            if isinstance(arg, (ast.List, ast.Tuple)):
                p.env[name] = ast.List(elts=list(cur.elts) + list(arg.elts), ctx=ast.Load())
            else:
                p.env[name] = ast.List(elts=list(cur.elts) + [ast.Starred(value=arg, ctx=ast.Load())], ctx=ast.Load())
        elif meth == "insert" and len(call.args) == 2 and isinstance(call.args[0], ast.Constant) and call.args[0].value == 0:
            p.env[name] = ast.List(elts=[subst(call.args[1], p.env)] + list(cur.elts), ctx=ast.Load())
        for other in p.alias.get(name, ()):
            p.env[other] = p.env[name]

    def record_calls(self, p: Path, expr: ast.AST, node):
        """Every call evaluated by a statement is an event (expanded)."""
        # the expanded expression contains calls of earlier definitions as well;
        # record only calls syntactically present in this statement.
        pass

    def stmt(self, s: ast.stmt, p: Path):
        if isinstance(s, ast.Assign):
            v = self.comps(p, subst(s.value, p.env))
            self.ev(p, "eval", s, None, v)
            for t in s.targets:
                self.assign(p, t, v, s)
            names = [t.id for t in s.targets if isinstance(t, ast.Name)]
            if isinstance(s.value, ast.Name) and isinstance(p.env.get(s.value.id), (ast.List, ast.Dict)) and s.value.id not in names:
                names.append(s.value.id)  # b = a: one container, two names
            if len(names) > 1 and isinstance(v, (ast.List, ast.Dict)):
                group = tuple(sorted(set(names) | {m for n in names for m in p.alias.get(n, ())}))
                for n in group:
                    p.alias[n] = group
            else:
                for n in names:
                    if n in p.alias:  # re-bound: leaves its group
                        g = tuple(x for x in p.alias.pop(n) if x != n)
                        for x in g:
                            p.alias[x] = g
            return [(p, FALL)]
        if isinstance(s, ast.AnnAssign):
            if s.value is not None:
                v = self.comps(p, subst(s.value, p.env))
                self.ev(p, "eval", s, None, v)
                self.assign(p, s.target, v, s)
            return [(p, FALL)]
        if isinstance(s, ast.AugAssign):
            v = self.comps(p, subst(s.value, p.env))
            cur = subst(_load(s.target), p.env)
            new = ast.BinOp(left=cur, op=s.op, right=v)
            ast.copy_location(new, s)
            self.ev(p, "aug", s, cur, v, type(s.op).__name__)
            if isinstance(s.target, ast.Name):
                p.env[s.target.id] = new
                p.assigned[s.target.id] = p.assigned.get(s.target.id, 0) + 1
                p.epoch[s.target.id] = p.epoch.get(s.target.id, 0) + 1
            elif isinstance(s.target, ast.Attribute):
                ch = attr_chain(s.target)
                if ch:
                    p.env[ch] = new
            elif isinstance(s.target, ast.Subscript) and self.track_stores and isinstance(s.target.value, ast.Name) and s.target.value.id in p.env:
                # x[idx] op= v  ==>  x := __store__(x, idx, x[idx] op v)
                old_v = p.env[s.target.value.id]
                p.env[s.target.value.id] = ast.Call(func=ast.Name(id="__store__", ctx=ast.Load()), args=[old_v, subst(s.target.slice, p.env), new], keywords=[])
            return [(p, FALL)]
        if isinstance(s, ast.Expr):
            v = self.comps(p, subst(s.value, p.env))
            if isinstance(s.value, (ast.Yield, ast.YieldFrom)):
                self.ev(p, "yield", s, None, v)
            elif isinstance(s.value, ast.Constant):
                pass
            else:
                self.ev(p, "call", s, None, v)
                self._list_method(p, s.value)
            return [(p, FALL)]
        if isinstance(s, ast.Return):
            p.ret = self.comps(p, subst(s.value, p.env)) if s.value is not None else None
            p.ret_node = s
            if p.ret is not None:
                self.ev(p, "eval", s, None, p.ret)
            return [(p, RET)]
        if isinstance(s, ast.Raise):
            p.ret = RAISE
            p.ret_node = s
            self.ev(p, "raise", s, None, subst(s.exc, p.env) if s.exc else None)
            return [(p, RET)]
        if isinstance(s, ast.Assert):
            t = subst(s.test, p.env)
            self.ev(p, "assert", s, None, t)
            trues, _ = self.cond(t, p, "assert")
            return [(a, FALL) for a in trues]
        if isinstance(s, ast.If):
            t = self.comps(p, subst(s.test, p.env))
            self.ev(p, "eval", s, None, t)
            trues, falses = self.cond(t, p, "if")
            out = []
            for a in trues:
                out += self.block(s.body, a)
            for b in falses:
                out += self.block(s.orelse, b)
            return out
        if isinstance(s, (ast.For, ast.While)):
            return self.loop(s, p)
        if isinstance(s, ast.Try):
            out = []
            pre = p.fork()
            body = self.block(s.body, p)
            res = []
            for bp, st in body:
                if st == FALL and s.orelse:
                    res.extend(self.block(s.orelse, bp))
                else:
                    res.append((bp, st))
            for h in s.handlers:
                hp = pre.fork()
                hp.guards.append((ast.Name(id="__except_" + (dump(h.type) if h.type else "all"), ctx=ast.Load()), True, "except"))
                if h.name:
                    hp.env.pop(h.name, None)
                res.extend(self.block(h.body, hp))
            if s.finalbody:
                fin = []
                for bp, st in res:
                    for fp, fst in self.block(s.finalbody, bp):
                        fin.append((fp, st if fst == FALL else fst))
                res = fin
            return res
        if isinstance(s, ast.With):
            for item in s.items:
                v = subst(item.context_expr, p.env)
                self.ev(p, "with", s, None, v)
                if item.optional_vars is not None:
                    self.assign(p, item.optional_vars, v, s)
            return self.block(s.body, p)
        if isinstance(s, (ast.Pass, ast.Import, ast.ImportFrom, ast.Global, ast.Nonlocal)):
            return [(p, FALL)]
        if isinstance(s, ast.Break):
            return [(p, BRK)]
        if isinstance(s, ast.Continue):
            return [(p, CONT)]
        if isinstance(s, ast.Delete):
            for t in s.targets:
                self.ev(p, "del", s, subst(_load(t), p.env) if not isinstance(t, ast.Name) else t)
                if isinstance(t, ast.Name):
                    p.env.pop(t.id, None)
            return [(p, FALL)]
        if isinstance(s, (ast.FunctionDef, ast.ClassDef, ast.AsyncFunctionDef)):
            # nested definition: opaque value bound to its name
            p.env.pop(s.name, None)
            self.ev(p, "def", s)
            return [(p, FALL)]
        raise AnalysisError(f"statement kind {type(s).__name__} in {self.fn.name}")

    def loop(self, s, p: Path):
        out = []
        if self.loops_zero:
            z = p.fork()
            out.extend(self.block(s.orelse, z) if s.orelse else [(z, FALL)])
        if isinstance(s, ast.For):
            it = self.comps(p, subst(s.iter, p.env))
            self.ev(p, "eval", s, None, it)
            if isinstance(it, ast.Call) and attr_chain(it.func) == "zip" and it.args and not it.keywords and all(isinstance(a, (ast.List, ast.Tuple)) for a in it.args) \
                    and len({len(a.elts) for a in it.args}) == 1:
                # zip of literal sequences: a literal sequence of tuples
                it = ast.Tuple(elts=[ast.Tuple(elts=[a.elts[i] for a in it.args], ctx=ast.Load()) for i in range(len(it.args[0].elts))], ctx=ast.Load())
            if isinstance(it, ast.Call) and attr_chain(it.func) == "enumerate" and len(it.args) == 1 and not it.keywords and isinstance(it.args[0], (ast.List, ast.Tuple)) \
                    and not any(isinstance(x, ast.Starred) for x in it.args[0].elts):
                # enumerate of a literal sequence: a literal sequence of (index, element)
                it = ast.Tuple(elts=[ast.Tuple(elts=[ast.Constant(value=i), x], ctx=ast.Load()) for i, x in enumerate(it.args[0].elts)], ctx=ast.Load())
            if isinstance(it, (ast.List, ast.Tuple)) and 1 <= len(it.elts) <= 8 and not s.orelse and not any(isinstance(x, ast.Starred) for x in it.elts) \
                    and not any(isinstance(n, (ast.Break, ast.Continue, ast.Return)) for b in s.body for n in ast.walk(b)):
                # a loop over a literal list is unrolled exactly
                states = [(p, FALL)]
                for elt in it.elts:
                    nxt = []
                    for q, st in states:
                        if st != FALL:
                            nxt.append((q, st))
                            continue
                        self.assign(q, s.target, elt, s)
                        nxt.extend(self.block(s.body, q))
                    states = nxt
                return out + states
            self.bind_loop_target(p, s.target, it)
            p.guards.append((it, True, "for"))
        else:
            t = subst(s.test, p.env)
            self.ev(p, "eval", s, None, t)
            p.guards.append((t, True, "while"))
        # names reassigned in the loop body that are read before assignment in
        # the body keep their pre-loop definition for the single iteration;
        # with phi=True they become symbols (value at the start of an arbitrary iteration) instead.
        carried = []
        if self.phi:
            stored = []
            for b in s.body:
                for n in ast.walk(b):
                    if isinstance(n, ast.Name) and isinstance(n.ctx, ast.Store) and n.id not in stored:
                        stored.append(n.id)
            tnames = {n.id for n in ast.walk(s.target) if isinstance(n, ast.Name)} if isinstance(s, ast.For) else set()
            for name in stored:
                cur = p.env.get(name)
                if cur is None or name in tnames or isinstance(cur, (ast.List, ast.Dict, ast.ListComp, ast.DictComp)):
                    continue
                if not getattr(cur, "_phi", False):
                    p.phi[name] = cur
                sym = ast.Name(id=name, ctx=ast.Load())
                sym._phi = True
                p.env[name] = sym
                carried.append(name)
        p.loop += 1
        p.loopstack.append(tuple(n.id for n in ast.walk(s.target) if isinstance(n, ast.Name)) if isinstance(s, ast.For) else ())
        p.loopsrc.append(it if isinstance(s, ast.For) else None)
        body = self.block(s.body, p)
        for bp, st in body:
            if bp.loopstack:
                bp.loopstack.pop()
                bp.loopsrc.pop()
            for name in carried:
                if name in bp.env:
                    bp.phi_next[name] = bp.env[name]
            bp.loop -= 1
            if st in (FALL, CONT):
                if s.orelse:
                    out.extend(self.block(s.orelse, bp))
                else:
                    out.append((bp, FALL))
            elif st == BRK:
                out.append((bp, FALL))
            else:
                out.append((bp, st))
        return out


def _bind(target: ast.AST, value: ast.AST, env: Dict[str, ast.AST]):
    if isinstance(target, ast.Name):
        env[target.id] = value
    elif isinstance(target, (ast.Tuple, ast.List)):
        for i, t in enumerate(target.elts):
            _bind(t, tuple_elt(value, i), env)


def _load(t: ast.AST) -> ast.AST:
    t2 = copy.deepcopy(t)
    for n in ast.walk(t2):
        if hasattr(n, "ctx"):
            n.ctx = ast.Load()
    return t2


def paths(func_node: ast.FunctionDef, loops_zero: bool = False, expand_self: bool = True, track_stores: bool = False, phi: bool = False) -> List[Path]:
    """expand_self=False: `self.attr` reads are left as written (assignments recorded as events only);
    track_stores=True: `x[i] = v` on a local makes later uses of x depend on v;
    phi=True: a local that is re-assigned in a loop body and defined before the loop is a symbol inside the body (its value at the
    start of an arbitrary iteration); Path.phi[name] is its value on loop entry, Path.phi_next[name] its value after one iteration"""
    return Walker(func_node, loops_zero=loops_zero, expand_self=expand_self, track_stores=track_stores, phi=phi).run()


def returns(func_node: ast.FunctionDef) -> List[Path]:
    return [p for p in paths(func_node) if p.ret is not RAISE]


# ---------------------------------------------------------------- helpers
def strip_self_alias(expr):
    return expr


def is_const(node, value=None) -> bool:
    if not isinstance(node, ast.Constant):
        return False
    return value is None or node.value == value


def unparse_all(nodes) -> List[str]:
    return [dump(n) for n in nodes]


def def_id(node) -> object:
    """identity of the evaluation a (sub)expression came from (None for literals in place)"""
    return getattr(node, "_def_id", None)


def same_value(a: ast.AST, b: ast.AST) -> bool:
    """same expanded text and, for calls (possibly effectful / random), the same evaluation"""
    if dump(a) != dump(b):
        return False
    ca = [getattr(n, "_def_id", None) for n in ast.walk(a) if isinstance(n, ast.Call)]
    cb = [getattr(n, "_def_id", None) for n in ast.walk(b) if isinstance(n, ast.Call)]
    ia, ib = getattr(a, "_def_id", None), getattr(b, "_def_id", None)
    if isinstance(a, ast.Call):
        return ia is not None and ia == ib
    return True

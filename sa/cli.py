"""./check Cxx [--tier quick|thorough] [--replay FILE]"""
from __future__ import annotations

import argparse
import importlib
import json
import os
import sys
import time
import traceback

from .repo import AnalysisError, Repo
from .report import Report, finish, VERIF


def run_property(prop: str, tier: str, repo: Repo = None, quiet=False) -> Report:
    mod = importlib.import_module(f"sa.props.{prop.lower()}")
    repo = repo or Repo()
    rep = Report(prop, tier, quiet=quiet)
    rep.extra["tree_digest"] = repo.digest()
    mod.run(repo, rep)
    return rep


def main(argv=None) -> int:
    ap = argparse.ArgumentParser()
    ap.add_argument("prop")
    ap.add_argument("--tier", default="quick", choices=["quick", "thorough"])
    ap.add_argument("--replay")
    ap.add_argument("--no-write", action="store_true")
    a = ap.parse_args(argv)
    tier = os.environ.get("VERIF_TIER") or a.tier
    if tier not in ("quick", "thorough"):
        tier = a.tier
    try:
        seed = int(os.environ.get("VERIF_SEED", "0"))
    except ValueError:
        seed = 0
    prop = a.prop.upper()
    t0 = time.time()
    try:
        mod = importlib.import_module(f"sa.props.{prop.lower()}")
        rep = run_property(prop, tier)
        if a.replay:
            with open(a.replay) as fh:
                want = json.load(fh)
            hits = [o for o in rep.obs if o.rule == want["rule"] and o.construct == want["construct"]]
            for o in hits:
                print(f"{o.verdict} {o.rule} {o.site} {o.construct}: required: {o.what}; found: {o.detail}")
            bad = [o for o in hits if o.verdict == "VIOLATION"]
            if bad:
                print(f"VIOLATION property={prop} replay={a.replay}")
                return 1
            return 0 if hits else 2
        if tier == "thorough":
            from . import selfval
            selfval.run(prop, mod, rep)
        return finish(
            rep, seed=seed, explanation=getattr(mod, "EXPLANATION", ""),
            assumptions=getattr(mod, "ASSUMPTIONS", []), trusted=getattr(mod, "TRUSTED", None),
            write=not a.no_write,
        )
    except AnalysisError as e:
        print(f"ANALYSIS-ERROR property={prop} {e}")
        _fallback_evidence(prop, tier, seed, str(e), time.time() - t0, a.no_write)
        return 2
    except Exception as e:  # never let a traceback look like a violation
        traceback.print_exc()
        print(f"ANALYSIS-ERROR property={prop} internal error: {type(e).__name__}: {e}")
        _fallback_evidence(prop, tier, seed, f"internal error {type(e).__name__}: {e}", time.time() - t0, a.no_write)
        return 2


def _fallback_evidence(prop, tier, seed, msg, wall, no_write):
    if no_write:
        return
    ev = {
        "property_id": prop, "tier": tier, "seed": seed, "level": "other",
        "coverage": {"explanation": "analysis did not complete: " + msg, "obligations": 0, "discharged": 0},
        "assumptions": [], "wall_s": round(wall, 3), "violations": 0,
    }
    os.makedirs(os.path.join(VERIF, "evidence"), exist_ok=True)
    with open(os.path.join(VERIF, "evidence", f"{prop}.json"), "w") as fh:
        json.dump(ev, fh, indent=1)


if __name__ == "__main__":
    sys.exit(main())

"""Whole-package behaviour-preserving twins, built in memory (Repo overlay) for the thorough tier:
  A  every source file round-tripped through ast.unparse (layout, comments, quoting, redundant parentheses gone)
  B  A + every function-local variable renamed x -> x_v (parameters, attributes, globals, names captured by nested scopes untouched)
Neither changes what the program computes; a rule whose verdict moves under them depends on spelling, not on behaviour."""
from __future__ import annotations

import ast
import builtins
import os
from typing import Dict


class Rename(ast.NodeTransformer):
    def visit_FunctionDef(self, node):
        # collect simple locals of this function (not params, not names used in nested defs/lambdas/comprehensions that capture them)
        a = node.args
        params = {x.arg for x in a.posonlyargs + a.args + a.kwonlyargs}
        if a.vararg:
            params.add(a.vararg.arg)
        if a.kwarg:
            params.add(a.kwarg.arg)
        assigned, blocked = set(), set()

        class Scan(ast.NodeVisitor):
            def __init__(s):
                s.depth = 0

            def visit_FunctionDef(s, n):
                if n is node:
                    s.generic_visit(n)
                else:
                    blocked.update(x.id for x in ast.walk(n) if isinstance(x, ast.Name))
                    blocked.add(n.name)

            visit_AsyncFunctionDef = visit_FunctionDef

            def visit_Lambda(s, n):
                blocked.update(x.id for x in ast.walk(n) if isinstance(x, ast.Name))

            def visit_ClassDef(s, n):
                blocked.update(x.id for x in ast.walk(n) if isinstance(x, ast.Name))
                blocked.add(n.name)

            def visit_Name(s, n):
                if isinstance(n.ctx, (ast.Store, ast.Del)):
                    assigned.add(n.id)

            def visit_Global(s, n):
                blocked.update(n.names)

            visit_Nonlocal = visit_Global

            def visit_Import(s, n):
                blocked.update((x.asname or x.name).split(".")[0] for x in n.names)

            def visit_ImportFrom(s, n):
                blocked.update(x.asname or x.name for x in n.names)

            def visit_ExceptHandler(s, n):
                if n.name:
                    blocked.add(n.name)
                s.generic_visit(n)

            def visit_keyword(s, n):
                s.generic_visit(n)
        Scan().visit(node)
        locs = {n for n in assigned - params - blocked if not n.startswith("__") and n not in dir(builtins)}
        mapping = {n: n + "_v" for n in locs}

        class Apply(ast.NodeTransformer):
            def visit_Name(s, n):
                if n.id in mapping:
                    return ast.copy_location(ast.Name(id=mapping[n.id], ctx=n.ctx), n)
                return n

            def visit_FunctionDef(s, n):
                return n if n is not node else s.generic_visit(n)

            def visit_Lambda(s, n):
                return n

            def visit_ClassDef(s, n):
                return n
        node = Apply().visit(node)
        # nested functions handled recursively
        node.body = [self.visit(b) if isinstance(b, (ast.FunctionDef, ast.ClassDef)) else b for b in node.body]
        return node

    def visit_ClassDef(self, node):
        node.body = [self.visit(b) if isinstance(b, (ast.FunctionDef, ast.ClassDef)) else b for b in node.body]
        return node



def overlay(root: str, variant: str) -> Dict[str, str]:
    out = {}
    pkg = os.path.join(root, "src", "torchphysics")
    for dp, dn, fn in os.walk(pkg):
        for f in sorted(fn):
            if not f.endswith(".py"):
                continue
            path = os.path.join(dp, f)
            with open(path, encoding="utf-8") as fh:
                tree = ast.parse(fh.read())
            if variant == "B":
                tree.body = [Rename().visit(b) if isinstance(b, (ast.FunctionDef, ast.ClassDef)) else b for b in tree.body]
                ast.fix_missing_locations(tree)
            out[os.path.relpath(path, root)] = ast.unparse(tree) + "\n"
    return out

"""Whole-package behaviour-preserving twins, built in memory (Repo overlay) for the thorough tier:
  A  every source file round-tripped through ast.unparse (layout, comments, quoting, redundant parentheses gone)
  B  A + every function-local variable renamed x -> x_v (parameters, attributes, globals, names captured by nested scopes untouched)
  C  A + inverse spellings (torch.F(x, ..) -> x.F(..), max(1, n) -> max(n, 1))
  D  A + every if/else with its branches swapped under the negated condition
  E  A + every `return EXPR` through a temporary
  F  A + De Morgan on every compound statement condition
Neither changes what the program computes; a rule whose verdict moves under them depends on spelling, not on behaviour."""
from __future__ import annotations

import ast
import builtins
import os
from typing import Dict


class Rename(ast.NodeTransformer):
    def visit_FunctionDef(self, node):
        # collect simple locals of this function (not params, not names used in nested defs/lambdas/comprehensions that capture them)
        a = node.args
        params = {x.arg for x in a.posonlyargs + a.args + a.kwonlyargs}
        if a.vararg:
            params.add(a.vararg.arg)
        if a.kwarg:
            params.add(a.kwarg.arg)
        assigned, blocked = set(), set()

        class Scan(ast.NodeVisitor):
            def __init__(s):
                s.depth = 0

            def visit_FunctionDef(s, n):
                if n is node:
                    s.generic_visit(n)
                else:
                    blocked.update(x.id for x in ast.walk(n) if isinstance(x, ast.Name))
                    blocked.add(n.name)

            visit_AsyncFunctionDef = visit_FunctionDef

            def visit_Lambda(s, n):
                blocked.update(x.id for x in ast.walk(n) if isinstance(x, ast.Name))

            def visit_ClassDef(s, n):
                blocked.update(x.id for x in ast.walk(n) if isinstance(x, ast.Name))
                blocked.add(n.name)

            def visit_Name(s, n):
                if isinstance(n.ctx, (ast.Store, ast.Del)):
                    assigned.add(n.id)

            def visit_Global(s, n):
                blocked.update(n.names)

            visit_Nonlocal = visit_Global

            def visit_Import(s, n):
                blocked.update((x.asname or x.name).split(".")[0] for x in n.names)

            def visit_ImportFrom(s, n):
                blocked.update(x.asname or x.name for x in n.names)

            def visit_ExceptHandler(s, n):
                if n.name:
                    blocked.add(n.name)
                s.generic_visit(n)

            def visit_keyword(s, n):
                s.generic_visit(n)
        Scan().visit(node)
        locs = {n for n in assigned - params - blocked if not n.startswith("__") and n not in dir(builtins)}
        mapping = {n: n + "_v" for n in locs}

        class Apply(ast.NodeTransformer):
            def visit_Name(s, n):
                if n.id in mapping:
                    return ast.copy_location(ast.Name(id=mapping[n.id], ctx=n.ctx), n)
                return n

            def visit_FunctionDef(s, n):
                return n if n is not node else s.generic_visit(n)

            def visit_Lambda(s, n):
                return n

            def visit_ClassDef(s, n):
                return n
        node = Apply().visit(node)
        # nested functions handled recursively
        node.body = [self.visit(b) if isinstance(b, (ast.FunctionDef, ast.ClassDef)) else b for b in node.body]
        return node

    def visit_ClassDef(self, node):
        node.body = [self.visit(b) if isinstance(b, (ast.FunctionDef, ast.ClassDef)) else b for b in node.body]
        return node



class InverseSpelling(ast.NodeTransformer):
    """C: the spellings the canonical form rewrites, applied the other way round wherever they are identities:
    torch.F(x, ..) -> x.F(..) for reductions / element-wise maths, keyword arguments for the positional arguments of package methods
    is not attempted here (signatures are needed); max(1, n) -> max(n, 1); x.unsqueeze(k) stays; a + b stays."""
    FUNCS = {"sum", "mean", "abs", "sqrt", "sin", "cos", "exp", "log", "prod", "square", "clamp", "flip", "norm", "repeat_interleave", "all", "any"}

    def visit_Call(self, node):
        self.generic_visit(node)
        f = node.func
        if isinstance(f, ast.Attribute) and isinstance(f.value, ast.Name) and f.value.id == "torch" and f.attr in self.FUNCS and node.args \
                and not isinstance(node.args[0], (ast.Starred, ast.List, ast.Tuple, ast.Constant)) and not any(k.arg in ("input", "out") for k in node.keywords):
            recv = node.args[0]
            if isinstance(recv, (ast.BinOp, ast.UnaryOp, ast.Compare, ast.BoolOp, ast.IfExp, ast.Lambda)):
                return node
            return ast.copy_location(ast.Call(func=ast.Attribute(value=recv, attr=f.attr, ctx=ast.Load()), args=node.args[1:], keywords=node.keywords), node)
        if isinstance(f, ast.Name) and f.id in ("max", "min") and len(node.args) == 2 and not node.keywords and isinstance(node.args[0], ast.Constant) and not isinstance(node.args[1], ast.Constant):
            node.args = [node.args[1], node.args[0]]
        return node


class BranchSwap(ast.NodeTransformer):
    """D: `if c: A else: B` -> `if not c: B else: A` (no elif chains are broken: an `elif` is an If in orelse and is swapped as a whole)"""

    def visit_If(self, node):
        self.generic_visit(node)
        if node.orelse and not (len(node.orelse) == 1 and isinstance(node.orelse[0], ast.If)):
            test = node.test.operand if isinstance(node.test, ast.UnaryOp) and isinstance(node.test.op, ast.Not) else ast.UnaryOp(op=ast.Not(), operand=node.test)
            return ast.copy_location(ast.If(test=test, body=node.orelse, orelse=node.body), node)
        return node

    def visit_IfExp(self, node):
        self.generic_visit(node)
        return node


class ReturnTemp(ast.NodeTransformer):
    """E: `return EXPR` -> `_result = EXPR; return _result` (EXPR not a bare name / constant)"""

    def _block(self, stmts):
        out = []
        for s in stmts:
            if isinstance(s, ast.Return) and s.value is not None and not isinstance(s.value, (ast.Name, ast.Constant)):
                a = ast.copy_location(ast.Assign(targets=[ast.Name(id="_result_v", ctx=ast.Store())], value=s.value), s)
                r = ast.copy_location(ast.Return(value=ast.Name(id="_result_v", ctx=ast.Load())), s)
                out += [a, r]
            else:
                out.append(s)
        return out

    def generic_visit(self, node):
        super().generic_visit(node)
        for field in ("body", "orelse", "finalbody"):
            v = getattr(node, field, None)
            if isinstance(v, list) and v and isinstance(v[0], ast.stmt):
                setattr(node, field, self._block(v))
        return node

    def visit_Lambda(self, node):
        return node


class DeMorgan(ast.NodeTransformer):
    """F: `if a and b` -> `if not (not a or not b)`, `if a or b` -> `if not (not a and not b)` (statement conditions only)"""

    def _rw(self, t):
        if isinstance(t, ast.BoolOp) and len(t.values) >= 2:
            neg = [v.operand if isinstance(v, ast.UnaryOp) and isinstance(v.op, ast.Not) else ast.UnaryOp(op=ast.Not(), operand=v) for v in t.values]
            inner = ast.BoolOp(op=ast.Or() if isinstance(t.op, ast.And) else ast.And(), values=neg)
            return ast.copy_location(ast.UnaryOp(op=ast.Not(), operand=inner), t)
        return t

    def visit_If(self, node):
        self.generic_visit(node)
        node.test = self._rw(node.test)
        return node

    def visit_While(self, node):
        self.generic_visit(node)
        return node

    def visit_Assert(self, node):
        return node


_NO_HOIST = (ast.IfExp, ast.BoolOp, ast.Lambda, ast.ListComp, ast.SetComp, ast.DictComp, ast.GeneratorExp, ast.Starred, ast.Yield, ast.YieldFrom,
             ast.Await, ast.NamedExpr, ast.JoinedStr)


class ArgTemps(ast.NodeTransformer):
    """G: A-normal form of call arguments - a call nested in the argument list of another call is bound to a temporary first
    (`f(a, g(b))` -> `_t1 = g(b); f(a, _t1)`), in evaluation order, for plain statements whose expression has no conditional /
    short-circuit / comprehension part and whose earlier arguments are names, constants, attribute chains or temporaries."""

    def __init__(self):
        self.n = 0

    @staticmethod
    def _simple(e):
        while isinstance(e, ast.Attribute):
            e = e.value
        return isinstance(e, (ast.Name, ast.Constant))

    def _hoist(self, expr, pre):
        """rewrites nested calls inside `expr` (a Call) bottom-up, appending assignments to `pre`"""
        if not isinstance(expr, ast.Call) or not self._simple(expr.func if not isinstance(expr.func, ast.Call) else ast.Constant(0)):
            return expr
        ok_left = True
        for i, a in enumerate(expr.args):
            if isinstance(a, ast.Call) and ok_left and not any(isinstance(x, _NO_HOIST) for x in ast.walk(a)):
                a2 = self._hoist(a, pre)
                self.n += 1
                name = f"_arg{self.n}_v"
                pre.append(ast.copy_location(ast.Assign(targets=[ast.Name(id=name, ctx=ast.Store())], value=a2), a))
                expr.args[i] = ast.copy_location(ast.Name(id=name, ctx=ast.Load()), a)
            elif not self._simple(a):
                ok_left = False
        if ok_left:
            for k in expr.keywords:
                a = k.value
                if k.arg is not None and isinstance(a, ast.Call) and ok_left and not any(isinstance(x, _NO_HOIST) for x in ast.walk(a)):
                    a2 = self._hoist(a, pre)
                    self.n += 1
                    name = f"_arg{self.n}_v"
                    pre.append(ast.copy_location(ast.Assign(targets=[ast.Name(id=name, ctx=ast.Store())], value=a2), a))
                    k.value = ast.copy_location(ast.Name(id=name, ctx=ast.Load()), a)
                elif not self._simple(a):
                    ok_left = False
        return expr

    def _block(self, stmts):
        out = []
        for s in stmts:
            pre = []
            if isinstance(s, (ast.Assign, ast.Return, ast.Expr)) and isinstance(s.value, ast.Call) and not any(isinstance(x, _NO_HOIST) for x in ast.walk(s.value)):
                s.value = self._hoist(s.value, pre)
            out += pre + [s]
        return out

    def visit_FunctionDef(self, node):
        self.generic_visit(node)
        return node

    def generic_visit(self, node):
        super().generic_visit(node)
        if isinstance(node, (ast.Module, ast.ClassDef)):
            return node  # class bodies / module level: names would become attributes
        for field in ("body", "orelse", "finalbody"):
            v = getattr(node, field, None)
            if isinstance(v, list) and v and isinstance(v[0], ast.stmt):
                setattr(node, field, self._block(v))
        return node

    def visit_Lambda(self, node):
        return node


class CompToLoop(ast.NodeTransformer):
    """H: `x = [elt for t in it if c]` -> `x = []` + loop with append; `x = {k: v for ...}` -> `x = {}` + loop with a keyed store
    (single generator; the loop targets are used nowhere else in the function, so their leaking into the function scope is harmless)"""

    def visit_FunctionDef(self, node):
        self.generic_visit(node)
        counts = {}
        for n in ast.walk(node):
            if isinstance(n, ast.Name):
                counts[n.id] = counts.get(n.id, 0) + 1
            elif isinstance(n, ast.arg):
                counts[n.arg] = counts.get(n.arg, 0) + 1

        def block(stmts):
            out = []
            for s in stmts:
                for field in ("body", "orelse", "finalbody"):
                    v = getattr(s, field, None)
                    if isinstance(v, list) and v and isinstance(v[0], ast.stmt) and not isinstance(s, (ast.FunctionDef, ast.ClassDef)):
                        setattr(s, field, block(v))
                c = s.value if isinstance(s, ast.Assign) and len(s.targets) == 1 and isinstance(s.targets[0], ast.Name) else None
                if not isinstance(c, (ast.ListComp, ast.DictComp)) and isinstance(s, (ast.Assign, ast.Return, ast.Expr)) and s.value is not None:
                    # a comprehension that is evaluated first: the leading argument along a chain of calls / method receivers
                    holder, cur = None, s.value
                    while isinstance(cur, ast.Call):
                        if isinstance(cur.func, ast.Attribute) and isinstance(cur.func.value, ast.Call):
                            cur = cur.func.value
                            continue
                        f = cur.func
                        while isinstance(f, ast.Attribute):
                            f = f.value
                        if not isinstance(f, ast.Name) or not cur.args:
                            break
                        if isinstance(cur.args[0], (ast.ListComp, ast.DictComp)):
                            holder = cur
                            break
                        cur = cur.args[0]
                    if holder is not None:
                        self.k = getattr(self, "k", 0) + 1
                        tmp = f"_comp{self.k}_v"
                        comp = holder.args[0]
                        holder.args[0] = ast.copy_location(ast.Name(id=tmp, ctx=ast.Load()), comp)
                        first = ast.copy_location(ast.Assign(targets=[ast.Name(id=tmp, ctx=ast.Store())], value=comp), s)
                        out += block([first])
                        out.append(s)
                        continue
                if isinstance(c, (ast.ListComp, ast.DictComp)) and len(c.generators) == 1 and not c.generators[0].is_async:
                    g = c.generators[0]
                    tnames = [x.id for x in ast.walk(g.target) if isinstance(x, ast.Name)]
                    inner = sum(1 for x in ast.walk(c) if isinstance(x, ast.Name) and x.id in tnames)
                    x = s.targets[0].id
                    uses_x = any(isinstance(y, ast.Name) and y.id == x for y in ast.walk(c))
                    nested = any(isinstance(y, (ast.ListComp, ast.DictComp, ast.SetComp, ast.GeneratorExp, ast.Lambda)) for y in ast.walk(c) if y is not c)
                    if not uses_x and not nested:
                        self.k = getattr(self, "k", 0) + 1
                        ren = {t: f"{t}_h{self.k}" for t in tnames}
                        for y in ast.walk(c):
                            if isinstance(y, ast.Name) and y.id in ren:
                                y.id = ren[y.id]
                        if isinstance(c, ast.ListComp):
                            init = ast.List(elts=[], ctx=ast.Load())
                            step = ast.Expr(value=ast.Call(func=ast.Attribute(value=ast.Name(id=x, ctx=ast.Load()), attr="append", ctx=ast.Load()), args=[c.elt], keywords=[]))
                        else:
                            init = ast.Dict(keys=[], values=[])
                            step = ast.Assign(targets=[ast.Subscript(value=ast.Name(id=x, ctx=ast.Load()), slice=c.key, ctx=ast.Store())], value=c.value)
                        body = [step]
                        for cond in reversed(g.ifs):
                            body = [ast.If(test=cond, body=body, orelse=[])]
                        loop = ast.For(target=g.target, iter=g.iter, body=body, orelse=[])
                        out += [ast.copy_location(ast.Assign(targets=[ast.Name(id=x, ctx=ast.Store())], value=init), s), ast.copy_location(loop, s)]
                        continue
                out.append(s)
            return out
        node.body = block(node.body)
        return node

    def visit_Lambda(self, node):
        return node


def overlay(root: str, variant: str) -> Dict[str, str]:
    out = {}
    pkg = os.path.join(root, "src", "torchphysics")
    for dp, dn, fn in os.walk(pkg):
        for f in sorted(fn):
            if not f.endswith(".py"):
                continue
            path = os.path.join(dp, f)
            with open(path, encoding="utf-8") as fh:
                tree = ast.parse(fh.read())
            if variant == "B":
                tree.body = [Rename().visit(b) if isinstance(b, (ast.FunctionDef, ast.ClassDef)) else b for b in tree.body]
                ast.fix_missing_locations(tree)
            elif variant in ("C", "D", "E", "F", "G", "H"):
                tree = {"C": InverseSpelling, "D": BranchSwap, "E": ReturnTemp, "F": DeMorgan, "G": ArgTemps, "H": CompToLoop}[variant]().visit(tree)
                ast.fix_missing_locations(tree)
            out[os.path.relpath(path, root)] = ast.unparse(tree) + "\n"
    return out

"""Small shared helpers for the rule modules."""
from __future__ import annotations

import ast
from typing import Dict, Iterable, List, Optional, Tuple

from .flow import attr_chain, dump
from .repo import ClassInfo, FuncInfo, Repo


def parent_map(root: ast.AST) -> Dict[int, ast.AST]:
    pm = {}
    for n in ast.walk(root):
        for c in ast.iter_child_nodes(n):
            pm[id(c)] = n
    return pm


def norm_compare(expr: ast.AST, pol: bool) -> Tuple[str, str, str, bool]:
    """Normalise a guard to (op, lhs, rhs, polarity) with op in {'==','<','<=','is','in','truth'};
    sides of symmetric operators sorted."""
    while isinstance(expr, ast.UnaryOp) and isinstance(expr.op, ast.Not):
        expr, pol = expr.operand, not pol
    if isinstance(expr, ast.Compare) and len(expr.ops) == 1:
        op, l, r = expr.ops[0], dump(expr.left), dump(expr.comparators[0])
        if isinstance(op, (ast.Eq, ast.NotEq)):
            a, b = sorted([l, r])
            return ("==", a, b, pol if isinstance(op, ast.Eq) else not pol)
        if isinstance(op, (ast.Is, ast.IsNot)):
            a, b = sorted([l, r])
            return ("is", a, b, pol if isinstance(op, ast.Is) else not pol)
        if isinstance(op, ast.Lt):
            return ("<", l, r, pol)
        if isinstance(op, ast.GtE):
            return ("<", l, r, not pol)
        if isinstance(op, ast.Gt):
            return ("<", r, l, pol)
        if isinstance(op, ast.LtE):
            return ("<", r, l, not pol)
        if isinstance(op, (ast.In, ast.NotIn)):
            return ("in", l, r, pol if isinstance(op, ast.In) else not pol)
    return ("truth", dump(expr), "", pol)


def self_attr_assignments(repo: Repo, ci: ClassInfo) -> Dict[str, List[Tuple[FuncInfo, ast.AST]]]:
    """attr -> [(function, value expr)] for every `self.attr = value` in any method
    of the class or its in-repo ancestors."""
    out: Dict[str, List[Tuple[FuncInfo, ast.AST]]] = {}
    for c in repo.mro(ci):
        for fi in c.methods.values():
            for n in ast.walk(fi.node):
                targets = []
                if isinstance(n, ast.Assign):
                    targets = [(t, n.value) for t in n.targets]
                elif isinstance(n, ast.AnnAssign) and n.value is not None:
                    targets = [(n.target, n.value)]
                for t, v in targets:
                    if isinstance(t, ast.Attribute) and isinstance(t.value, ast.Name) and t.value.id == "self":
                        out.setdefault(t.attr, []).append((fi, v))
    return out


def resolve_ctor(repo: Repo, fi: FuncInfo, value: ast.AST):
    """ClassInfo / 'ext:...' string for `Cls(...)` values, else None."""
    if isinstance(value, ast.Call):
        ch = attr_chain(value.func)
        if ch:
            return repo.lookup(fi.module, ch)
    return None


def func_calls(node: ast.AST, name_pred) -> List[ast.Call]:
    out = []
    for n in ast.walk(node):
        if isinstance(n, ast.Call):
            ch = attr_chain(n.func)
            if ch and name_pred(ch):
                out.append(n)
    return out


def ends(ch: Optional[str], *suffixes: str) -> bool:
    if not ch:
        return False
    return any(ch == s or ch.endswith("." + s) for s in suffixes)


def strip_docstring(body: List[ast.stmt]) -> List[ast.stmt]:
    if body and isinstance(body[0], ast.Expr) and isinstance(body[0].value, ast.Constant) and isinstance(body[0].value.value, str):
        return body[1:]
    return body


def single_defs(fn: ast.AST) -> Dict[str, ast.AST]:
    """names of a function that are bound exactly once, by a plain `name = value` assignment (temporaries), with their value;
    parameters, loop / with / comprehension targets, augmented names and names unpacked from a non-literal are not in the map"""
    count: Dict[str, int] = {}
    val: Dict[str, ast.AST] = {}
    a = getattr(fn, "args", None)
    if a is not None:
        for x in a.posonlyargs + a.args + a.kwonlyargs + ([a.vararg] if a.vararg else []) + ([a.kwarg] if a.kwarg else []):
            count[x.arg] = 2
    for n in ast.walk(fn):
        if isinstance(n, ast.Assign) and len(n.targets) == 1 and isinstance(n.targets[0], ast.Name):
            count[n.targets[0].id] = count.get(n.targets[0].id, 0) + 1
            val[n.targets[0].id] = n.value
        elif isinstance(n, ast.Assign) and len(n.targets) == 1 and isinstance(n.targets[0], (ast.Tuple, ast.List)) and isinstance(n.value, (ast.Tuple, ast.List)) \
                and len(n.targets[0].elts) == len(n.value.elts) and all(isinstance(t, ast.Name) for t in n.targets[0].elts) \
                and not any(isinstance(x, ast.Name) and x.id in {t.id for t in n.targets[0].elts} for v in n.value.elts for x in ast.walk(v)):
            # `a, b = u, v` with values that do not read the names being bound: two plain assignments
            for t, v in zip(n.targets[0].elts, n.value.elts):
                count[t.id] = count.get(t.id, 0) + 1
                val[t.id] = v
        elif isinstance(n, ast.Name) and isinstance(n.ctx, (ast.Store, ast.Del)):
            pass
    for n in ast.walk(fn):
        if isinstance(n, ast.Name) and isinstance(n.ctx, (ast.Store, ast.Del)):
            count.setdefault(n.id, 0)
    stores: Dict[str, int] = {}
    for n in ast.walk(fn):
        if isinstance(n, ast.Name) and isinstance(n.ctx, (ast.Store, ast.Del)):
            stores[n.id] = stores.get(n.id, 0) + 1
    params = {k for k, c in count.items() if c == 2 and k not in val} | ({x.arg for x in a.posonlyargs + a.args + a.kwonlyargs} if a is not None else set())

    def stable(v):
        # every name the value reads is bound at most once in the function (a re-bound name may denote another value at the use)
        return all((stores.get(x.id, 0) + (1 if x.id in params else 0)) <= 1 for x in ast.walk(v) if isinstance(x, ast.Name))
    return {k: v for k, v in val.items() if count.get(k) == 1 and stores.get(k) == 1 and stable(v)}


def deref(expr: ast.AST, defs: Dict[str, ast.AST], depth: int = 6) -> ast.AST:
    """`expr` with every temporary of `defs` replaced by its value (a copy; bounded nesting)"""
    import copy

    class Sub(ast.NodeTransformer):
        def __init__(s, d):
            s.d = d

        def visit_Name(s, n):
            if isinstance(n.ctx, ast.Load) and n.id in defs and s.d > 0:
                return Sub(s.d - 1).visit(copy.deepcopy(defs[n.id]))
            return n
    return Sub(depth).visit(copy.deepcopy(expr))

"""Small shared helpers for the rule modules."""
from __future__ import annotations

import ast
from typing import Dict, Iterable, List, Optional, Tuple

from .flow import attr_chain, dump
from .repo import ClassInfo, FuncInfo, Repo


def parent_map(root: ast.AST) -> Dict[int, ast.AST]:
    pm = {}
    for n in ast.walk(root):
        for c in ast.iter_child_nodes(n):
            pm[id(c)] = n
    return pm


def norm_compare(expr: ast.AST, pol: bool) -> Tuple[str, str, str, bool]:
    """Normalise a guard to (op, lhs, rhs, polarity) with op in {'==','<','<=','is','in','truth'};
    sides of symmetric operators sorted."""
    while isinstance(expr, ast.UnaryOp) and isinstance(expr.op, ast.Not):
        expr, pol = expr.operand, not pol
    if isinstance(expr, ast.Compare) and len(expr.ops) == 1:
        op, l, r = expr.ops[0], dump(expr.left), dump(expr.comparators[0])
        if isinstance(op, (ast.Eq, ast.NotEq)):
            a, b = sorted([l, r])
            return ("==", a, b, pol if isinstance(op, ast.Eq) else not pol)
        if isinstance(op, (ast.Is, ast.IsNot)):
            a, b = sorted([l, r])
            return ("is", a, b, pol if isinstance(op, ast.Is) else not pol)
        if isinstance(op, ast.Lt):
            return ("<", l, r, pol)
        if isinstance(op, ast.GtE):
            return ("<", l, r, not pol)
        if isinstance(op, ast.Gt):
            return ("<", r, l, pol)
        if isinstance(op, ast.LtE):
            return ("<", r, l, not pol)
        if isinstance(op, (ast.In, ast.NotIn)):
            return ("in", l, r, pol if isinstance(op, ast.In) else not pol)
    return ("truth", dump(expr), "", pol)


def self_attr_assignments(repo: Repo, ci: ClassInfo) -> Dict[str, List[Tuple[FuncInfo, ast.AST]]]:
    """attr -> [(function, value expr)] for every `self.attr = value` in any method
    of the class or its in-repo ancestors."""
    out: Dict[str, List[Tuple[FuncInfo, ast.AST]]] = {}
    for c in repo.mro(ci):
        for fi in c.methods.values():
            for n in ast.walk(fi.node):
                targets = []
                if isinstance(n, ast.Assign):
                    targets = [(t, n.value) for t in n.targets]
                elif isinstance(n, ast.AnnAssign) and n.value is not None:
                    targets = [(n.target, n.value)]
                for t, v in targets:
                    if isinstance(t, ast.Attribute) and isinstance(t.value, ast.Name) and t.value.id == "self":
                        out.setdefault(t.attr, []).append((fi, v))
    return out


def resolve_ctor(repo: Repo, fi: FuncInfo, value: ast.AST):
    """ClassInfo / 'ext:...' string for `Cls(...)` values, else None."""
    if isinstance(value, ast.Call):
        ch = attr_chain(value.func)
        if ch:
            return repo.lookup(fi.module, ch)
    return None


def func_calls(node: ast.AST, name_pred) -> List[ast.Call]:
    out = []
    for n in ast.walk(node):
        if isinstance(n, ast.Call):
            ch = attr_chain(n.func)
            if ch and name_pred(ch):
                out.append(n)
    return out


def ends(ch: Optional[str], *suffixes: str) -> bool:
    if not ch:
        return False
    return any(ch == s or ch.endswith("." + s) for s in suffixes)


def strip_docstring(body: List[ast.stmt]) -> List[ast.stmt]:
    if body and isinstance(body[0], ast.Expr) and isinstance(body[0].value, ast.Constant) and isinstance(body[0].value.value, str):
        return body[1:]
    return body

"""Self-validation of a property's rules on in-memory variants of the working tree.

Mutants: one rule instance broken (still parses, still passes the test-suite by
construction of the survey) — the named rule must add a VIOLATION.
Twins: behaviour-preserving rewrites — the verdict set must stay exactly the
working tree's.  Variants are *source strings in memory* (Repo overlay); nothing
is written to disk and nothing is executed.
"""
from __future__ import annotations

import importlib
import os
from concurrent.futures import ProcessPoolExecutor
from typing import Dict, List

from .repo import AnalysisError, Repo
from .report import Report, VIOLATION, UNDECIDED


def _apply(variant: dict, root: str):
    """-> overlay dict or None when the anchor is absent/ambiguous in today's tree"""
    overlay = {}
    edits = variant.get("edits") or [variant]
    for e in edits:
        rel = e["file"]
        path = os.path.join(root, rel)
        if not os.path.exists(path):
            return None
        src = overlay.get(rel)
        if src is None:
            with open(path, encoding="utf-8") as fh:
                src = fh.read()
        if src.count(e["old"]) != 1:
            return None
        overlay[rel] = src.replace(e["old"], e["new"])
    return overlay


def _run_variant(args):
    prop, variant, root = args
    try:
        if variant.get("global"):
            from .twins import overlay as _global
            overlay = _global(root, variant["global"])
        else:
            overlay = _apply(variant, root)
        if overlay is None:
            return variant["id"], "skipped", None, ""
        mod = importlib.import_module(f"sa.props.{prop.lower()}")
        rep = Report(prop, "thorough", quiet=True)
        try:
            repo = Repo(root, overlay=overlay)
            mod.run(repo, rep)
        except AnalysisError as e:
            return variant["id"], "analysis-error", None, str(e)
        for r in rep.rules.values():
            if r.count < r.floor:
                rep.undecided(r.rid, "-", "-", "floor", f"{r.count} < {r.floor}")
        return variant["id"], "ran", rep.verdict_set(), ""
    except Exception as e:  # pragma: no cover
        return variant["id"], "crash", None, f"{type(e).__name__}: {e}"


def run(prop: str, mod, rep: Report):
    mutants: List[dict] = list(getattr(mod, "MUTANTS", []))
    twins: List[dict] = list(getattr(mod, "TWINS", []))
    twins += [dict(id=f"{prop}-GLOBAL-A", **{"global": "A"}, what="whole package re-printed by ast.unparse"),
              dict(id=f"{prop}-GLOBAL-B", **{"global": "B"}, what="whole package re-printed with every function-local variable renamed")]
    R = rep.rule("SELFVAL", "seeded mutants are reported by the named rule; behaviour-preserving twins leave the verdict set unchanged")
    base = rep.verdict_set()
    from .repo import REPO_ROOT
    jobs = [(prop, v, REPO_ROOT) for v in mutants + twins]
    results = {}
    if jobs:
        workers = min(16, len(jobs))
        with ProcessPoolExecutor(max_workers=workers) as ex:
            for vid, status, vset, msg in ex.map(_run_variant, jobs):
                results[vid] = (status, vset, msg)
    killed = survived = skipped = silent = noisy = 0
    detail_m, detail_t = [], []
    base_set = set(map(tuple, base))
    for m in mutants:
        status, vset, msg = results[m["id"]]
        if status == "skipped":
            skipped += 1
            detail_m.append({"id": m["id"], "status": "skipped (anchor not in this tree)"})
            continue
        if status in ("crash",):
            rep.undecided(R, m["file"] if "file" in m else "-", m["id"], "mutant analysable", msg)
            continue
        if status == "analysis-error":
            # fail-closed is acceptable for a mutant (exit 2), but it is not a *report*
            new = [("ANALYSIS-ERROR", msg, UNDECIDED, "")]
        else:
            new = [v for v in map(tuple, vset) if v not in base_set]
        want = m.get("rule")
        hit = [v for v in new if v[2] == VIOLATION and (want is None or v[0] == want or v[0] in (m.get("rules") or []))]
        if hit:
            killed += 1
            detail_m.append({"id": m["id"], "status": "reported", "by": sorted({v[0] for v in hit}), "what": m.get("what", "")})
        else:
            survived += 1
            detail_m.append({"id": m["id"], "status": "NOT reported", "new": [list(v) for v in new][:5]})
            rep.undecided(R, m.get("file", "-"), m["id"], f"mutant reported by {want}", f"not reported; new verdicts: {new[:3]}")
    for t in twins:
        status, vset, msg = results[t["id"]]
        if status == "skipped":
            skipped += 1
            detail_t.append({"id": t["id"], "status": "skipped (anchor not in this tree)"})
            continue
        if status != "ran":
            noisy += 1
            rep.undecided(R, t.get("file", "-"), t["id"], "twin analysable and silent", f"{status}: {msg}")
            continue
        diff = set(map(tuple, vset)) ^ base_set
        if diff:
            noisy += 1
            detail_t.append({"id": t["id"], "status": "NOT silent", "diff": [list(v) for v in sorted(diff)][:5]})
            rep.undecided(R, t.get("file", "-"), t["id"], "twin leaves the verdict set unchanged", f"differs: {sorted(diff)[:3]}")
        else:
            silent += 1
            detail_t.append({"id": t["id"], "status": "silent", "what": t.get("what", "")})
    rep.ok(R, "-", f"{prop} self-validation", "mutants reported / twins silent",
           f"mutants: {killed} reported, {survived} missed, twins: {silent} silent, {noisy} noisy, skipped {skipped}")
    rep.extra["selfval"] = {
        "mutants": len(mutants), "mutants_reported": killed, "mutants_missed": survived,
        "twins": len(twins), "twins_silent": silent, "twins_noisy": noisy, "skipped": skipped,
        "mutant_detail": detail_m, "twin_detail": detail_t,
    }

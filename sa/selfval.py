"""Self-validation of a property's rules on in-memory variants of the working tree.

Mutants: one rule instance broken (still parses, still passes the test-suite by
construction of the survey) — the named rule must add a VIOLATION.
Twins: behaviour-preserving rewrites — the verdict set must stay exactly the
working tree's.  Variants are *source strings in memory* (Repo overlay); nothing
is written to disk and nothing is executed.
"""
from __future__ import annotations

import importlib
import os
from concurrent.futures import ProcessPoolExecutor
from typing import Dict, List

from .repo import AnalysisError, Repo
from .report import Report, VIOLATION, UNDECIDED


def _apply(variant: dict, root: str):
    """-> overlay dict or None when the anchor is absent/ambiguous in today's tree"""
    overlay = {}
    edits = variant.get("edits") or [variant]
    for e in edits:
        rel = e["file"]
        path = os.path.join(root, rel)
        if not os.path.exists(path):
            return None
        src = overlay.get(rel)
        if src is None:
            with open(path, encoding="utf-8") as fh:
                src = fh.read()
        if src.count(e["old"]) != 1:
            return None
        overlay[rel] = src.replace(e["old"], e["new"])
    return overlay


def apply_unified_diff(diff_text: str, root: str):
    """in-memory application of a `git diff`: -> overlay {relpath: new source} or None when a hunk does not match this tree"""
    import re
    files = {}
    cur = None
    for line in diff_text.splitlines():
        if line.startswith("+++ "):
            path = line[4:].strip()
            cur = path[2:] if path.startswith("b/") else path
            files[cur] = []
        elif line.startswith("@@") and cur is not None:
            m = re.match(r"@@ -(\d+)(?:,(\d+))? \+(\d+)(?:,(\d+))? @@", line)
            if not m:
                return None
            files[cur].append([int(m.group(1)), []])
        elif cur is not None and files[cur] and line[:1] in (" ", "+", "-") and not line.startswith(("--- ", "+++ ")):
            files[cur][-1][1].append(line)
        elif cur is not None and files[cur] and line == "":
            files[cur][-1][1].append(" ")
    overlay = {}
    for rel, hunks in files.items():
        path = os.path.join(root, rel)
        if not os.path.exists(path):
            return None
        with open(path, encoding="utf-8") as fh:
            src = fh.read().split("\n")
        out, pos = [], 0
        for start, lines in hunks:
            old = [l[1:] for l in lines if l[:1] in (" ", "-")]
            # locate the hunk: at the recorded line or, failing that, at the unique place where its old side matches
            at = start - 1
            if src[at:at + len(old)] != old:
                cands = [i for i in range(pos, len(src) - len(old) + 1) if src[i:i + len(old)] == old]
                if len(cands) != 1:
                    return None
                at = cands[0]
            if at < pos:
                return None
            out += src[pos:at]
            out += [l[1:] for l in lines if l[:1] in (" ", "+")]
            pos = at + len(old)
        out += src[pos:]
        overlay[rel] = "\n".join(out)
    return overlay or None


def _run_variant(args):
    prop, variant, root = args
    try:
        if variant.get("global"):
            from .twins import overlay as _global
            overlay = _global(root, variant["global"])
        elif variant.get("diff"):
            with open(variant["diff"], encoding="utf-8") as fh:
                overlay = apply_unified_diff(fh.read(), root)
        else:
            overlay = _apply(variant, root)
        if overlay is None:
            return variant["id"], "skipped", None, ""
        mod = importlib.import_module(f"sa.props.{prop.lower()}")
        rep = Report(prop, "thorough", quiet=True)
        try:
            repo = Repo(root, overlay=overlay)
            mod.run(repo, rep)
        except AnalysisError as e:
            return variant["id"], "analysis-error", None, str(e)
        for r in rep.rules.values():
            if r.count < r.floor:
                rep.undecided(r.rid, "-", "-", "floor", f"{r.count} < {r.floor}")
        return variant["id"], "ran", rep.verdict_set(), ""
    except Exception as e:  # pragma: no cover
        return variant["id"], "crash", None, f"{type(e).__name__}: {e}"


def run(prop: str, mod, rep: Report):
    mutants: List[dict] = list(getattr(mod, "MUTANTS", []))
    twins: List[dict] = list(getattr(mod, "TWINS", []))
    # the stored corpora: behaviour-preserving refactorings written by independent agents (must stay silent) and
    # confirmed property-breaking changes (must be reported); entries whose hunks do not match this tree are skipped
    import glob
    import json as _json
    here = os.path.dirname(os.path.dirname(os.path.abspath(__file__)))
    for d in sorted(glob.glob(os.path.join(here, "refactors", "*"))):
        if os.path.exists(os.path.join(d, "patch.diff")):
            twins.append(dict(id="RF-" + os.path.basename(d), diff=os.path.join(d, "patch.diff"), what="stored refactoring"))
    for d in sorted(glob.glob(os.path.join(here, "seeded", f"{prop}-*"))):
        if os.path.exists(os.path.join(d, "patch.diff")):
            mutants.append(dict(id="SEED-" + os.path.basename(d), diff=os.path.join(d, "patch.diff"), rule=None, what="stored seeded change", file=os.path.basename(d)))
    twins += [dict(id=f"{prop}-GLOBAL-A", **{"global": "A"}, what="whole package re-printed by ast.unparse"),
              dict(id=f"{prop}-GLOBAL-B", **{"global": "B"}, what="whole package re-printed with every function-local variable renamed"),
              dict(id=f"{prop}-GLOBAL-C", **{"global": "C"}, what="whole package with inverse spellings (function -> method form, max argument order)"),
              dict(id=f"{prop}-GLOBAL-D", **{"global": "D"}, what="whole package with every if/else swapped under the negated condition"),
              dict(id=f"{prop}-GLOBAL-E", **{"global": "E"}, what="whole package with every returned expression bound to a temporary first"),
              dict(id=f"{prop}-GLOBAL-F", **{"global": "F"}, what="whole package with De Morgan applied to every compound if-condition"),
              dict(id=f"{prop}-GLOBAL-G", **{"global": "G"}, what="whole package with nested call arguments bound to temporaries first (A-normal form)"),
              dict(id=f"{prop}-GLOBAL-H", **{"global": "H"}, what="whole package with list/dict comprehensions rewritten as insertion loops")]
    R = rep.rule("SELFVAL", "seeded mutants are reported by the named rule; behaviour-preserving twins leave the verdict set unchanged")
    base = rep.verdict_set()
    from .repo import REPO_ROOT
    jobs = [(prop, v, REPO_ROOT) for v in mutants + twins]
    results = {}
    if jobs:
        workers = min(16, len(jobs))
        with ProcessPoolExecutor(max_workers=workers) as ex:
            for vid, status, vset, msg in ex.map(_run_variant, jobs):
                results[vid] = (status, vset, msg)
    killed = survived = skipped = silent = noisy = 0
    detail_m, detail_t = [], []
    base_set = set(map(tuple, base))
    for m in mutants:
        status, vset, msg = results[m["id"]]
        if status == "skipped":
            skipped += 1
            detail_m.append({"id": m["id"], "status": "skipped (anchor not in this tree)"})
            continue
        if status in ("crash",):
            rep.undecided(R, m["file"] if "file" in m else "-", m["id"], "mutant analysable", msg)
            continue
        if status == "analysis-error":
            # fail-closed is acceptable for a mutant (exit 2), but it is not a *report*
            new = [("ANALYSIS-ERROR", msg, UNDECIDED, "")]
        else:
            new = [v for v in map(tuple, vset) if v not in base_set]
        want = m.get("rule")
        hit = [v for v in new if v[2] == VIOLATION and (want is None or v[0] == want or v[0] in (m.get("rules") or []))]
        if hit:
            killed += 1
            detail_m.append({"id": m["id"], "status": "reported", "by": sorted({v[0] for v in hit}), "what": m.get("what", "")})
        else:
            survived += 1
            detail_m.append({"id": m["id"], "status": "NOT reported", "new": [list(v) for v in new][:5]})
            rep.undecided(R, m.get("file", "-"), m["id"], f"mutant reported by {want}", f"not reported; new verdicts: {new[:3]}")
    for t in twins:
        status, vset, msg = results[t["id"]]
        if status == "skipped":
            skipped += 1
            detail_t.append({"id": t["id"], "status": "skipped (anchor not in this tree)"})
            continue
        if status != "ran":
            noisy += 1
            rep.undecided(R, t.get("file", "-"), t["id"], "twin analysable and silent", f"{status}: {msg}")
            continue
        diff = set(map(tuple, vset)) ^ base_set
        if diff:
            noisy += 1
            detail_t.append({"id": t["id"], "status": "NOT silent", "diff": [list(v) for v in sorted(diff)][:5]})
            rep.undecided(R, t.get("file", "-"), t["id"], "twin leaves the verdict set unchanged", f"differs: {sorted(diff)[:3]}")
        else:
            silent += 1
            detail_t.append({"id": t["id"], "status": "silent", "what": t.get("what", "")})
    rep.ok(R, "-", f"{prop} self-validation", "mutants reported / twins silent",
           f"mutants: {killed} reported, {survived} missed, twins: {silent} silent, {noisy} noisy, skipped {skipped}")
    rep.extra["selfval"] = {
        "mutants": len(mutants), "mutants_reported": killed, "mutants_missed": survived,
        "twins": len(twins), "twins_silent": silent, "twins_noisy": noisy, "skipped": skipped,
        "mutant_detail": detail_m, "twin_detail": detail_t,
    }

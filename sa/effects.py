"""Interprocedural write effects on parameters.

`param_writes(repo)` maps every function to the set of its parameters whose *object*
it may modify in place (subscript store, `del x[..]`, augmented assignment on a
subscript, container mutators, in-place torch methods ending in `_`, attribute store
on the parameter), closed over calls that pass the parameter on to a callee that
writes the corresponding parameter (methods resolved through the MRO, module-level
functions through imports; receivers that cannot be resolved are ignored and counted).
Rebinding a name (`p = ...`) ends the aliasing; advanced indexing / `.clone()` /
`dict(p)` / `p.copy()` produce copies."""
from __future__ import annotations

import ast
from typing import Dict, List, Optional, Set, Tuple

from .flow import attr_chain, dump
from .repo import ClassInfo, FuncInfo, Repo

MUTATORS = {"update", "append", "extend", "pop", "popitem", "setdefault", "clear", "insert", "remove", "sort", "reverse", "add", "discard", "__setitem__", "__delitem__"}
COPIERS = {"copy", "clone", "deepcopy", "detach"}


def _root_name(e: ast.AST) -> Optional[str]:
    """name whose object is modified by a write to `e` (x, x[i], x.attr, x[i].attr...)"""
    while True:
        if isinstance(e, ast.Subscript):
            e = e.value
        elif isinstance(e, ast.Attribute):
            e = e.value
        else:
            break
    return e.id if isinstance(e, ast.Name) else None


class _Direct(ast.NodeVisitor):
    """direct in-place writes to parameter objects, respecting rebinding in straight-line order"""

    def __init__(self, params: Set[str]):
        self.alias: Dict[str, str] = {p: p for p in params}  # local name -> parameter it aliases
        self.writes: Dict[str, List[ast.AST]] = {}
        self.passes: List[Tuple[ast.Call, Dict[int, str], Dict[str, str]]] = []
        self.not_isinstance: List[Tuple[str, str]] = []  # active guards `not isinstance(name, Cls)`
        self.excl: Dict[int, Dict[str, str]] = {}  # id(node) -> {param: class the value is known NOT to be}

    def _guards(self) -> Dict[str, str]:
        return {self.alias[n]: c for n, c in self.not_isinstance if n in self.alias}

    def _w(self, name: Optional[str], node):
        if name is not None and name in self.alias:
            self.writes.setdefault(self.alias[name], []).append(node)
            self.excl[id(node)] = self._guards()

    @staticmethod
    def _isinstance_of(t):
        """(name, class text, positive?) for `isinstance(name, C)` / `not isinstance(name, C)`"""
        pos = True
        if isinstance(t, ast.UnaryOp) and isinstance(t.op, ast.Not):
            t, pos = t.operand, False
        if isinstance(t, ast.Call) and attr_chain(t.func) == "isinstance" and len(t.args) == 2 and isinstance(t.args[0], ast.Name):
            return t.args[0].id, dump(t.args[1]), pos
        return None

    @staticmethod
    def _leaves(stmts) -> bool:
        return bool(stmts) and isinstance(stmts[-1], (ast.Return, ast.Raise, ast.Continue, ast.Break))

    def visit_block(self, stmts):
        """statements in order; after `if isinstance(x, C): <leaves>` the rest of the block runs under `not isinstance(x, C)`"""
        pushed = 0
        for st in stmts:
            self.visit(st)
            if isinstance(st, ast.If) and not st.orelse and self._leaves(st.body):
                g = self._isinstance_of(st.test)
                if g and g[2]:
                    self.not_isinstance.append((g[0], g[1]))
                    pushed += 1
        for _ in range(pushed):
            self.not_isinstance.pop()

    def visit_If(self, node):
        self.visit(node.test)
        g = self._isinstance_of(node.test)
        if g and not g[2]:
            self.not_isinstance.append((g[0], g[1]))
        self.visit_block(node.body)
        if g and not g[2]:
            self.not_isinstance.pop()
        if g and g[2]:
            self.not_isinstance.append((g[0], g[1]))
        self.visit_block(node.orelse)
        if g and g[2]:
            self.not_isinstance.pop()

    def visit_Assign(self, node):
        self.visit(node.value)
        for t in node.targets:
            self._target(t, node, node.value)

    def visit_AnnAssign(self, node):
        if node.value is not None:
            self.visit(node.value)
            self._target(node.target, node, node.value)

    def _target(self, t, node, value):
        if isinstance(t, ast.Name):
            # rebinding: alias of a parameter only if the value IS that object
            src = value.id if isinstance(value, ast.Name) else None
            if src is not None and src in self.alias:
                self.alias[t.id] = self.alias[src]
            else:
                self.alias.pop(t.id, None)
        elif isinstance(t, (ast.Tuple, ast.List)):
            for x in t.elts:
                self._target(x, node, ast.Constant(value=None))
        elif isinstance(t, ast.Subscript):
            self._w(_root_name(t.value) if not isinstance(t.value, ast.Name) else t.value.id, node)
        elif isinstance(t, ast.Attribute):
            # attribute store on (an element of) a parameter object
            if isinstance(t.value, ast.Name) and t.value.id == "self":
                return
            self._w(_root_name(t.value), node)

    def visit_AugAssign(self, node):
        self.visit(node.value)
        t = node.target
        if isinstance(t, ast.Subscript):
            self._w(_root_name(t), node)
        elif isinstance(t, ast.Attribute) and not (isinstance(t.value, ast.Name) and t.value.id == "self"):
            self._w(_root_name(t.value), node)
        elif isinstance(t, ast.Name):
            # x += v on a tensor/list is in place; on a number it rebinds.  Only containers matter here: treat as write
            # when the name is a parameter that has a mutable default or is used as a container elsewhere (decided by the caller)
            self.writes.setdefault("<aug>" + t.id, []).append(node)

    def visit_Delete(self, node):
        for t in node.targets:
            if isinstance(t, ast.Subscript):
                self._w(_root_name(t), node)

    def visit_Call(self, node):
        self.generic_visit(node)
        fn = node.func
        if isinstance(fn, ast.Attribute):
            recv = fn.value
            if fn.attr in MUTATORS or (fn.attr.endswith("_") and not fn.attr.startswith("_") and len(fn.attr) > 2):
                if isinstance(recv, ast.Name):
                    self._w(recv.id, node)
                elif isinstance(recv, (ast.Subscript, ast.Attribute)) and not (isinstance(recv, ast.Attribute) and isinstance(recv.value, ast.Name) and recv.value.id == "self"):
                    # p[k].update(..) modifies an element reachable from p
                    self._w(_root_name(recv), node)
        pos = {i: self.alias[a.id] for i, a in enumerate(node.args) if isinstance(a, ast.Name) and a.id in self.alias}
        kws = {k.arg: self.alias[k.value.id] for k in node.keywords if k.arg and isinstance(k.value, ast.Name) and k.value.id in self.alias}
        if pos or kws:
            self.passes.append((node, pos, kws))
            self.excl[id(node)] = self._guards()

    def visit_FunctionDef(self, node):
        pass  # nested functions analysed separately

    visit_Lambda = visit_FunctionDef


def _params(fi: FuncInfo) -> List[str]:
    a = fi.node.args
    return [x.arg for x in a.posonlyargs + a.args + a.kwonlyargs]


def resolve_callee(repo: Repo, fi: FuncInfo, call: ast.Call) -> Optional[FuncInfo]:
    fn = call.func
    if isinstance(fn, ast.Attribute) and isinstance(fn.value, ast.Name) and fn.value.id == "self" and fi.cls is not None:
        return repo.resolve_method(fi.cls, fn.attr)
    if isinstance(fn, ast.Attribute) and dump(fn.value) == "super()" and fi.cls is not None:
        return repo.resolve_method(fi.cls, fn.attr, after=fi.cls)
    if isinstance(fn, ast.Name):
        got = repo.lookup(fi.module, fn.id)
        if isinstance(got, FuncInfo):
            return got
        if isinstance(got, ClassInfo):
            return repo.resolve_method(got, "__init__")
    if isinstance(fn, ast.Attribute):
        ch = attr_chain(fn)
        if ch:
            got = repo.lookup(fi.module, ch)
            if isinstance(got, FuncInfo):
                return got
            if isinstance(got, ClassInfo):
                return repo.resolve_method(got, "__init__")
    return None


def param_writes(repo: Repo) -> Dict[str, Dict[str, List[str]]]:
    """fq -> {param: [evidence strings]} after the interprocedural fix-point"""
    direct: Dict[str, _Direct] = {}
    funcs: Dict[str, FuncInfo] = {}
    for fi in repo.all_functions():
        d = _Direct(set(_params(fi)))
        d.visit_block(fi.node.body)
        direct[fi.fq] = d
        funcs[fi.fq] = fi
    out: Dict[str, Dict[str, List[str]]] = {}
    excl: Dict[str, Dict[str, List[Optional[str]]]] = {}  # parallel: class the written object is known not to be
    for fq, d in direct.items():
        out[fq], excl[fq] = {}, {}
        for p, nodes in d.writes.items():
            if p.startswith("<aug>"):
                continue
            out[fq][p] = [f"{funcs[fq].relpath}:{n.lineno} `{dump(n)[:70]}`" for n in nodes]
            excl[fq][p] = [d.excl.get(id(n), {}).get(p) for n in nodes]
    changed = True
    rounds = 0
    while changed and rounds < 8:
        changed = False
        rounds += 1
        for fq, d in direct.items():
            fi = funcs[fq]
            for call, pos, kws in d.passes:
                callee = resolve_callee(repo, fi, call)
                if callee is None or callee.fq not in out:
                    continue
                cps = _params(callee)
                off = 1 if callee.cls is not None and cps and cps[0] in ("self", "cls") and "staticmethod" not in " ".join(callee.decorators) else 0
                here = d.excl.get(id(call), {})
                pairs = [(p, cps[i + off]) for i, p in pos.items() if i + off < len(cps)] + [(p, k) for k, p in kws.items()]
                for p, cp in pairs:
                    if cp in out[callee.fq]:
                        ev = f"passed to {callee.fq.split('.')[-2] + '.' if callee.cls else ''}{callee.name} which writes `{cp}` ({out[callee.fq][cp][0]})"
                        # the object is excluded from class C if every write in the callee excludes C, or this call site does
                        ce = excl[callee.fq].get(cp, [None])
                        e = here.get(p) or (ce[0] if ce and all(x == ce[0] for x in ce) else None)
                        if p not in out[fq]:
                            out[fq][p], excl[fq][p] = [ev], [e]
                            changed = True
    param_writes.excluded = excl  # type: ignore[attr-defined]
    return out


def mutable_defaults(fi: FuncInfo) -> Dict[str, ast.AST]:
    a = fi.node.args
    pos = a.posonlyargs + a.args
    out = {}
    for p, d in zip(pos[len(pos) - len(a.defaults):], a.defaults):
        if _is_mutable(d):
            out[p.arg] = d
    for p, d in zip(a.kwonlyargs, a.kw_defaults):
        if d is not None and _is_mutable(d):
            out[p.arg] = d
    return out


def _is_mutable(d: ast.AST) -> bool:
    if isinstance(d, (ast.Dict, ast.List, ast.Set, ast.DictComp, ast.ListComp, ast.SetComp)):
        return True
    if isinstance(d, ast.Call):
        ch = attr_chain(d.func) or ""
        if ch in ("tuple", "frozenset", "int", "float", "str"):
            return False
        return True  # objects constructed once at definition time: Points.empty(), Parameter.empty(), SquaredError(), ...
    return False

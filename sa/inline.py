"""Helper inlining on expanded expressions: `self.m(args)` / `self.domain.m(args)` is
replaced by m's (single-path) return expression with the arguments bound, to a
stated depth.  Helpers with several returning paths are left as calls."""
from __future__ import annotations

import ast
import copy
from typing import Callable, Optional

from .flow import dump, RAISE, attr_chain, paths, subst
from .repo import ClassInfo, FuncInfo, Repo

MAX_DEPTH = 3


def bind_args(target: FuncInfo, call: ast.Call, skip_self=True):
    """param name -> argument expression (defaults for the rest); None if not bindable"""
    a = target.node.args
    params = [x.arg for x in a.posonlyargs + a.args]
    if skip_self and params and params[0] in ("self", "cls"):
        params = params[1:]
    env = {}
    if any(isinstance(x, ast.Starred) for x in call.args) or any(k.arg is None for k in call.keywords):
        return None
    if len(call.args) > len(params):
        return None
    for p, v in zip(params, call.args):
        env[p] = v
    kwonly = [x.arg for x in a.kwonlyargs]
    for k in call.keywords:
        if k.arg in env or (k.arg not in params and k.arg not in kwonly):
            return None
        env[k.arg] = k.value
    defaults = dict(zip(params[len(params) - len(a.defaults):], a.defaults)) if a.defaults else {}
    for p in params:
        if p not in env:
            if p in defaults:
                env[p] = defaults[p]
            else:
                return None
    for p, d in zip(kwonly, a.kw_defaults):
        if p not in env and d is not None:
            env[p] = d
    return env


class _Inline(ast.NodeTransformer):
    def __init__(self, repo: Repo, ci: ClassInfo, domain_cls: Optional[ClassInfo], depth: int, accept: Callable[[FuncInfo], bool]):
        self.repo, self.ci, self.dci, self.depth, self.accept = repo, ci, domain_cls, depth, accept

    def _class_by_name(self, name):
        hits = [c for m in self.repo.modules.values() for c in m.classes.values() if c.name == name]
        return hits[0] if len(hits) == 1 else None

    def visit_Subscript(self, node):
        node = self.generic_visit(node)
        if getattr(node, "_tuple_elt", False) and isinstance(node.value, ast.Tuple) and isinstance(node.slice, ast.Constant):
            i = node.slice.value
            if isinstance(i, int) and i < len(node.value.elts):
                return node.value.elts[i]
        return node

    def visit_Call(self, node):
        node = self.generic_visit(node)
        if any(isinstance(a, ast.Starred) for a in node.args):
            # f(*<inlined tuple>[a:b]) : fold the slice of the literal and splice its elements into the argument list
            from .canon import recanon
            node = recanon(node)
            if not isinstance(node, ast.Call):
                return node
        if self.depth <= 0 or not isinstance(node.func, ast.Attribute):
            return node
        recv = attr_chain(node.func.value)
        if recv == "self":
            tci = self.ci
        elif recv == "self.domain" and self.dci is not None:
            tci = self.dci
        elif recv and "." not in recv and node.args and dump(node.args[0]) == "self" and self._class_by_name(recv) is not None:
            # explicit-class call of a helper on this object: OtherClass._helper(self, a, b)
            tci = self._class_by_name(recv)
            node = ast.copy_location(ast.Call(func=ast.Attribute(value=ast.Name(id="self", ctx=ast.Load()), attr=node.func.attr, ctx=ast.Load()), args=list(node.args[1:]), keywords=list(node.keywords)), node)
            recv = "self"
        else:
            return node
        target = self.repo.resolve_method(tci, node.func.attr)
        if target is None or not self.accept(target):
            return node
        env = bind_args(target, node)
        if env is None:
            return node
        ps = [p for p in paths(target.node, track_stores=True) if p.ret is not RAISE]
        if not ps or any(p.ret is None for p in ps) or len(ps) > 8:
            return node
        if len(ps) == 1:
            body = ps[0].ret
        else:
            body = _ifexp_tree([([(g, pol) for g, pol, kind in p.guards if kind in ("if",)], p.ret) for p in ps])
            if body is None:
                return node
        if recv == "self.domain":
            # inside the helper `self` is the wrapped domain
            body = subst(body, {"self": ast.Attribute(value=ast.Name(id="self", ctx=ast.Load()), attr="domain", ctx=ast.Load())})
        out = subst(body, env)
        sub = _Inline(self.repo, tci if recv == "self" else self.ci, self.dci, self.depth - 1, self.accept)
        return sub.visit(out)


def expand_helpers(repo: Repo, ci: ClassInfo, expr: ast.AST, domain_cls: Optional[ClassInfo] = None, depth: int = MAX_DEPTH,
                   accept: Callable[[FuncInfo], bool] = None) -> ast.AST:
    if expr is None:
        return None
    accept = accept or (lambda fi: fi.name.startswith("_") and not fi.name.startswith("__"))
    out = _Inline(repo, ci, domain_cls, depth, accept).visit(copy.deepcopy(expr))
    from .canon import recanon
    return recanon(out)  # an inlined tuple indexed by a constant, conditions that became decidable, ...


def _ifexp_tree(items):
    """[(guards [(expr, pol)...], ret)] -> nested IfExp on the shared decision sequence (None if not a tree)"""
    if len(items) == 1:
        return items[0][1]
    firsts = [it[0][0] if it[0] else None for it in items]
    if any(f is None for f in firsts):
        return None
    key = ast.dump(firsts[0][0])
    if any(ast.dump(f[0]) != key for f in firsts):
        return None
    yes = [(g[1:], r) for g, r in items if g[0][1]]
    no = [(g[1:], r) for g, r in items if not g[0][1]]
    if not yes or not no:
        return _ifexp_tree(yes or no)
    a, b = _ifexp_tree(yes), _ifexp_tree(no)
    if a is None or b is None:
        return None
    return ast.IfExp(test=copy.deepcopy(firsts[0][0]), body=a, orelse=b)


def variants(expr: ast.AST, limit: int = 64):
    """resolve every IfExp both ways: -> [(extra guards [(test, polarity)], expression without that IfExp)]"""
    out = [([], expr)]
    changed = True
    while changed:
        changed = False
        nxt = []
        for guards, e in out:
            target = next((n for n in ast.walk(e) if isinstance(n, ast.IfExp)), None)
            if target is None:
                nxt.append((guards, e))
                continue
            changed = True
            for pol, branch in ((True, target.body), (False, target.orelse)):
                # consistent with earlier decisions on the same test
                prev = [p for t, p in guards if ast.dump(t) == ast.dump(target.test)]
                if prev and prev[0] != pol:
                    continue
                nxt.append((guards + [(target.test, pol)], _replace(e, target, branch)))
        out = nxt
        if len(out) > limit:
            break
    return out


def _replace(root: ast.AST, old: ast.AST, new: ast.AST) -> ast.AST:
    class R(ast.NodeTransformer):
        def visit(self, node):
            if node is old:
                return copy.deepcopy(new)
            return super().visit(node)
    # operate on a copy that keeps identity mapping: find by position in walk order
    idx = [i for i, n in enumerate(ast.walk(root)) if n is old]
    cp = copy.deepcopy(root)
    tgt = list(ast.walk(cp))[idx[0]]
    class R2(ast.NodeTransformer):
        def visit(self, node):
            if node is tgt:
                return copy.deepcopy(new)
            return super().visit(node)
    return R2().visit(cp)

"""Symbolic evaluation of (expanded) tensor expressions on small fixed trailing
dimensions: scalars, vectors and matrices of rational functions (absdom.poly).
Batch axes are abstracted away (every row is treated alike): reshape / squeeze /
unsqueeze / `[:, None]` are transparent, column selections pick components.
Anything outside the table raises NotSym (the caller reports UNDECIDED)."""
from __future__ import annotations

import ast
from fractions import Fraction
from typing import Callable, Dict, List, Optional, Tuple, Union

from ..flow import attr_chain, def_id, dump
from .poly import RF, NotPoly, Poly, component_of


class NotSym(Exception):
    pass


class Vec:
    def __init__(self, comps: List[RF], unbatched: bool = False):
        self.c = list(comps)
        self.unbatched = unbatched  # a single 1-D vector (row 0 selected), not one vector per row

    def __len__(self):
        return len(self.c)

    def __repr__(self):
        return "(" + ", ".join(map(repr, self.c)) + ")"

    def __eq__(self, o):
        return isinstance(o, Vec) and len(o) == len(self) and all(a == b for a, b in zip(self.c, o.c))


class Mat:
    def __init__(self, rows: List[List[RF]]):
        self.r = [list(x) for x in rows]

    def __repr__(self):
        return "[" + "; ".join(", ".join(map(repr, r)) for r in self.r) + "]"


Val = Union[RF, Vec, Mat]
TRANSPARENT = ("reshape", "view", "squeeze", "unsqueeze", "float", "double", "to", "clone", "item", "contiguous", "expand_as", "detach", "cpu")
PI = RF.atom("pi")


def lift(a: Val, b: Val):
    if isinstance(a, RF) and isinstance(b, Vec):
        a = Vec([a] * len(b), unbatched=b.unbatched)
    if isinstance(b, RF) and isinstance(a, Vec):
        b = Vec([b] * len(a), unbatched=a.unbatched)
    return a, b


def binop(op: str, a: Val, b: Val) -> Val:
    a, b = lift(a, b)
    f = {"+": lambda x, y: x + y, "-": lambda x, y: x - y, "*": lambda x, y: x * y, "/": lambda x, y: x / y}[op]
    if isinstance(a, RF) and isinstance(b, RF):
        return f(a, b)
    if isinstance(a, Vec) and isinstance(b, Vec):
        if len(a) == 1 and len(b) > 1:
            a = Vec(a.c * len(b))
        if len(b) == 1 and len(a) > 1:
            b = Vec(b.c * len(a))
        if len(a) != len(b):
            raise NotSym(f"vector lengths {len(a)} and {len(b)}")
        return Vec([f(x, y) for x, y in zip(a.c, b.c)], unbatched=a.unbatched or b.unbatched)
    if isinstance(a, Mat) and isinstance(b, RF):
        return Mat([[f(x, b) for x in r] for r in a.r])
    if isinstance(a, RF) and isinstance(b, Mat):
        return Mat([[f(a, x) for x in r] for r in b.r])
    raise NotSym(f"operation {op} on {type(a).__name__}, {type(b).__name__}")


class SymEval:
    def __init__(self, atom: Callable[[ast.AST, "SymEval"], Optional[Val]]):
        self.atom = atom
        self.fresh: Dict[object, str] = {}
        self.norms: Dict[str, RF] = {}  # atom name of a norm -> its square
        self.trig: Dict[str, str] = {}  # canonical arg -> id

    # ---------------------------------------------------------------- atoms
    def uniform(self, node: ast.AST, width: int = 1) -> Val:
        key = def_id(node) or dump(node)
        name = self.fresh.setdefault(key, f"U{len(self.fresh) + 1}")
        if width == 1:
            return RF.atom(name)
        return Vec([RF.atom(f"{name}.{i}") for i in range(width)])

    def norm_of(self, v: Val) -> RF:
        if isinstance(v, RF):
            return v  # |x| for a scalar is not needed here
        sq = RF.const(0)
        for c in v.c:
            sq = sq + c * c
        try:
            return sq.pow(Fraction(1, 2))
        except NotPoly:
            name = f"N[{sq!r}]"
            self.norms[name] = sq
            return RF.atom(name)

    def trig_fn(self, kind: str, arg: RF) -> RF:
        key = repr(arg)
        return RF.atom(f"{kind}[{key}]")

    # ------------------------------------------------------------------ eval
    def ev(self, e: ast.AST) -> Val:
        got = self.atom(e, self)
        if got is not None:
            return got
        if isinstance(e, ast.Constant) and isinstance(e.value, (int, float)) and not isinstance(e.value, bool):
            return RF.const(Fraction(str(e.value)) if isinstance(e.value, float) else Fraction(e.value))
        if isinstance(e, ast.Attribute):
            ch = attr_chain(e)
            if ch in ("np.pi", "math.pi", "torch.pi", "numpy.pi"):
                return PI
            if e.attr in ("as_tensor", "_t", "T") and e.attr != "T":
                return self.ev(e.value)
        if isinstance(e, ast.UnaryOp) and isinstance(e.op, ast.USub):
            return binop("*", RF.const(-1), self.ev(e.operand))
        if isinstance(e, ast.UnaryOp) and isinstance(e.op, ast.UAdd):
            return self.ev(e.operand)
        if isinstance(e, ast.BinOp):
            if isinstance(e.op, ast.Pow):
                base = self.ev(e.left)
                ex = self.ev(e.right)
                if not isinstance(ex, RF) or ex.const_value() is None:
                    raise NotSym("non-constant exponent")
                return self.power(base, ex.const_value())
            ops = {ast.Add: "+", ast.Sub: "-", ast.Mult: "*", ast.Div: "/"}
            if type(e.op) in ops:
                return binop(ops[type(e.op)], self.ev(e.left), self.ev(e.right))
            if isinstance(e.op, ast.MatMult):
                return self.matmul(self.ev(e.left), self.ev(e.right))
            raise NotSym(type(e.op).__name__)
        if isinstance(e, ast.Subscript):
            return self.subscript(e)
        if isinstance(e, ast.Call):
            return self.call(e)
        if isinstance(e, (ast.Tuple, ast.List)):
            vals = [self.ev(x) for x in e.elts]
            if all(isinstance(v, RF) for v in vals):
                return Vec(vals)
            raise NotSym("tuple of non-scalars")
        raise NotSym(f"cannot evaluate {dump(e)[:70]}")

    def power(self, base: Val, ex: Fraction) -> Val:
        try:
            if isinstance(base, RF):
                return base.pow(ex)
            return Vec([c.pow(ex) for c in base.c])
        except NotPoly as err:
            if isinstance(base, RF) and ex == Fraction(1, 2):
                name = f"N[{base!r}]"
                self.norms[name] = base
                return RF.atom(name)
            raise NotSym(str(err))

    def subscript(self, e: ast.Subscript) -> Val:
        if getattr(e, "_tuple_elt", False):
            raise NotSym(f"tuple element of an opaque call: {dump(e)[:60]}")
        sl = e.slice
        elts = sl.elts if isinstance(sl, ast.Tuple) else [sl]
        # pure batch-axis manipulation
        def trivial(x):
            return (isinstance(x, ast.Slice) and x.lower is None and x.upper is None and x.step is None) or \
                   (isinstance(x, ast.Constant) and (x.value is None or x.value is Ellipsis))
        if all(trivial(x) for x in elts):
            return self.ev(e.value)
        comp = component_of(e)
        if comp is not None:
            base = self.ev(comp[0])
            k = comp[1]
            if isinstance(base, RF):
                return base
            if isinstance(base, Vec):
                if isinstance(k, tuple):
                    lo = k[1]
                    if lo == len(base) - 1:
                        return base.c[lo]
                    return Vec(base.c[lo:])
                if k < 0:
                    k += len(base)
                if 0 <= k < len(base):
                    return base.c[k]
            raise NotSym(f"component {k} of {type(base).__name__}")
        # leading batch index / row selection: x[0], x[0, :], x[i]
        if len(elts) >= 1 and all(trivial(x) for x in elts[1:]) and isinstance(elts[0], (ast.Constant, ast.Name)):
            v = self.ev(e.value)
            if isinstance(v, Vec) and len(elts) == 1:
                return Vec(v.c, unbatched=True)
            return v
        # strided column selections box[::2] are handled by callers
        raise NotSym(f"selection {dump(e)[:60]}")

    def matmul(self, a: Val, b: Val) -> Val:
        if isinstance(a, Mat) and isinstance(b, Vec):
            if any(len(r) != len(b) for r in a.r):
                raise NotSym("matrix/vector size")
            out = []
            for r in a.r:
                s = RF.const(0)
                for x, y in zip(r, b.c):
                    s = s + x * y
                out.append(s)
            return Vec(out)
        if isinstance(a, Vec) and isinstance(b, Mat):
            if len(a) != len(b.r):
                raise NotSym("vector/matrix size")
            out = []
            for j in range(len(b.r[0])):
                s = RF.const(0)
                for i in range(len(a)):
                    s = s + a.c[i] * b.r[i][j]
                out.append(s)
            return Vec(out)
        raise NotSym("matmul operands")

    def call(self, e: ast.Call) -> Val:
        fn = e.func
        ch = attr_chain(fn) or ""
        name = fn.attr if isinstance(fn, ast.Attribute) else (fn.id if isinstance(fn, ast.Name) else "")
        is_mod = isinstance(fn, ast.Attribute) and isinstance(fn.value, ast.Name) and fn.value.id in ("torch", "np", "numpy", "math")
        args = list(e.args)
        if isinstance(fn, ast.Attribute) and not is_mod and not ch.startswith(("torch.", "np.")):
            recv = fn.value
            if name in TRANSPARENT:
                return self.ev(recv)
            args = [recv] + args
        two = {"add": "+", "sub": "-", "subtract": "-", "mul": "*", "multiply": "*", "div": "/", "divide": "/", "true_divide": "/"}
        if name in two and len(args) == 2:
            return binop(two[name], self.ev(args[0]), self.ev(args[1]))
        if name in ("addcmul", "addcdiv") and len(args) == 3:
            # a + value * b * c  /  a + value * b / c
            val = next((k.value for k in e.keywords if k.arg == "value"), None)
            prod = binop("*" if name == "addcmul" else "/", self.ev(args[1]), self.ev(args[2]))
            if val is not None:
                prod = binop("*", self.ev(val), prod)
            return binop("+", self.ev(args[0]), prod)
        if name == "lerp" and len(args) == 3:
            a, b, w = (self.ev(x) for x in args)
            return binop("+", a, binop("*", w, binop("-", b, a)))
        if name == "sqrt" and len(args) == 1:
            return self.power(self.ev(args[0]), Fraction(1, 2))
        if name == "cbrt" and len(args) == 1:
            return self.power(self.ev(args[0]), Fraction(1, 3))
        if name == "square" and len(args) == 1:
            return self.power(self.ev(args[0]), Fraction(2))
        if name in ("pow", "float_power") and len(args) == 2:
            ex = self.ev(args[1])
            if not isinstance(ex, RF) or ex.const_value() is None:
                raise NotSym("non-constant exponent")
            return self.power(self.ev(args[0]), ex.const_value())
        if name in ("neg", "negative") and len(args) == 1:
            return binop("*", RF.const(-1), self.ev(args[0]))
        if name in ("cos", "sin", "arccos", "acos", "arcsin", "tan") and len(args) == 1:
            a = self.ev(args[0])
            if isinstance(a, RF):
                return self.trig_fn(name.replace("acos", "arccos"), a)
            raise NotSym("trig of a vector")
        if name in ("cat", "concat", "concatenate", "column_stack", "hstack") and args and isinstance(args[0], (ast.Tuple, ast.List)):
            vals = [self.ev(x) for x in args[0].elts]
            if name == "column_stack" and len(vals) >= 2 and all(isinstance(v, Vec) and v.unbatched for v in vals) and len({len(v) for v in vals}) == 1:
                # 1-D vectors become the COLUMNS of a matrix
                n = len(vals[0])
                return Mat([[v.c[i] for v in vals] for i in range(n)])
            comps: List[RF] = []
            for v in vals:
                if isinstance(v, RF):
                    comps.append(v)
                elif isinstance(v, Vec):
                    comps.extend(v.c)
                else:
                    raise NotSym("cat of matrices")
            return Vec(comps)
        if name in ("stack", "vstack", "row_stack") and args and isinstance(args[0], (ast.Tuple, ast.List)):
            vals = [self.ev(x) for x in args[0].elts]
            if all(isinstance(v, Vec) for v in vals):
                return Mat([v.c for v in vals])
            if all(isinstance(v, RF) for v in vals):
                return Vec(vals)
            raise NotSym("stack operands")
        if ch in ("torch.linalg.norm", "torch.norm", "np.linalg.norm") and args:
            return self.norm_of(self.ev(args[0]))
        if name == "norm" and args:
            return self.norm_of(self.ev(args[0]))
        if ch in ("torch.matmul", "torch.bmm", "torch.mm") and len(args) == 2:
            return self.matmul(self.ev(args[0]), self.ev(args[1]))
        if ch == "torch.index_select" and e.keywords and len(args) < 3:
            kw = {k.arg: k.value for k in e.keywords}
            full = list(args) + [kw[n] for n in ("input", "dim", "index")[len(args):] if n in kw]
            if len(full) == 3 and len(full) == len(args) + len(kw):
                args = full
        if ch == "torch.index_select" and len(args) == 3:
            base = self.ev(args[0])
            idx = args[2]
            if isinstance(idx, ast.Call) and attr_chain(idx.func) in ("torch.tensor", "torch.LongTensor") and idx.args and isinstance(idx.args[0], (ast.List, ast.Tuple)):
                ks = [x.value for x in idx.args[0].elts if isinstance(x, ast.Constant)]
                if isinstance(base, Vec) and len(ks) == len(idx.args[0].elts):
                    return Vec([base.c[k] for k in ks])
            raise NotSym("index_select")
        if ch in ("torch.rand",) :
            shp = args[0] if args else None
            width = 1
            if isinstance(shp, (ast.Tuple, ast.List)) and shp.elts and isinstance(shp.elts[-1], ast.Constant):
                width = int(shp.elts[-1].value)
            return self.uniform(e, width)
        if ch in ("torch.rand_like",):
            return self.uniform(e, 1)
        if ch in ("torch.ones", "torch.ones_like"):
            return RF.const(1)
        if ch in ("torch.zeros", "torch.zeros_like"):
            return RF.const(0)
        if ch in ("torch.tensor", "torch.as_tensor", "float", "int") and len(args) >= 1:
            return self.ev(args[0])
        if (ch in ("torch.abs", "abs", "torch.absolute", "np.abs") or name in ("abs", "absolute")) and len(args) == 1:
            v = self.ev(args[0])
            if isinstance(v, RF):
                nm = f"|{v!r}|"
                self.norms[nm] = v * v  # |x|^2 = x^2
                return RF.atom(nm)
            raise NotSym("abs of a vector")
        if ch in ("max", "min") and len(args) >= 2 and not e.keywords:
            vals = [self.ev(a) for a in args]
            if all(isinstance(v, RF) for v in vals):
                return RF.atom(f"{ch}[" + ", ".join(sorted(repr(v) for v in vals)) + "]")  # an opaque scalar: nothing is assumed about which argument wins
            raise NotSym("max/min of vectors")
        if dump(fn) == "__store__" and len(e.args) == 3:
            return self.store(e)
        raise NotSym(f"call {dump(fn)[:50]}")

    def store(self, e: ast.Call) -> Val:
        """__store__(old, index, value): column assignment on a small vector"""
        old = self.ev(e.args[0])
        val = self.ev(e.args[2])
        fake = ast.Subscript(value=ast.Name(id="_", ctx=ast.Load()), slice=e.args[1], ctx=ast.Load())
        comp = component_of(fake)
        if comp is None or not isinstance(old, Vec):
            raise NotSym(f"store {dump(e.args[1])[:40]}")
        k = comp[1]
        if isinstance(k, tuple):
            k = k[1]
            if k != len(old) - 1:
                raise NotSym("store into a column range")
        if not isinstance(val, RF):
            if isinstance(val, Vec) and len(val) == 1:
                val = val.c[0]
            else:
                raise NotSym("vector stored into one column")
        new = list(old.c)
        new[k] = val
        return Vec(new)


def reduce_squares(rf: RF, ev: SymEval) -> RF:
    """substitute N[...]^(2k) by the recorded square^k (also negative k), |x|^2 by x^2 and sin^2 by 1 - cos^2"""
    def fix(poly: Poly) -> RF:
        out = RF.const(0)
        for mono, c in poly.t.items():
            term = RF.const(c)
            for atom, e in mono:
                if atom in ev.norms and e.denominator == 1 and abs(int(e)) >= 2:
                    sq = ev.norms[atom]
                    k, rest = divmod(int(e), 2) if e > 0 else (-((-int(e)) // 2), -((-int(e)) % 2))
                    term = term * sq.pow(Fraction(k))
                    if rest:
                        term = term * RF.atom(atom, rest)
                elif atom.startswith("sin[") and e.denominator == 1 and e >= 2:
                    cosn = "cos[" + atom[4:]
                    reps, rest = int(e) // 2, int(e) % 2
                    one_minus = RF.const(1) - RF.atom(cosn, 2)
                    for _ in range(reps):
                        term = term * one_minus
                    if rest:
                        term = term * RF.atom(atom)
                else:
                    term = term * RF.atom(atom, e)
            out = out + term
        return out
    cur = rf
    for _ in range(4):
        nxt = fix(cur.n) / fix(cur.d)
        if nxt == cur and repr(nxt) == repr(cur):
            break
        cur = nxt
    return cur

"""Partial evaluation of list-building code for small, fixed sizes.

Bounding boxes, padding vectors, axis lists and the like are short Python lists
whose *length* depends on a dimension and whose *entries* are symbolic scalars.
For a fixed small dimension (1, 2, 3) such code is straight-line: the evaluator
below folds it — loops over `range(k)`, comprehensions, zip/enumerate, slicing
with steps, slice assignment, append/extend, element-wise arithmetic of short
1-D tensors, flip, tolist — keeping the entries as rational functions over
named atoms (`poly.RF`) or as opaque canonical terms (min{..}, max{..}).

Whatever idiom builds the list, the folded result is the same list, so a rule can
compare it with the required one.  Nothing of the repository is executed: this is
an interpreter for a small, side-effect-free subset of Python over an abstract
value domain; statements outside the subset poison the names they assign
(`UNKNOWN`) instead of failing, and only a poisoned *result* makes the rule
undecided.
"""
from __future__ import annotations

import ast
from fractions import Fraction
from typing import Callable, Dict, List, Optional

from .poly import RF, NotPoly


class NotEval(Exception):
    pass


class _Unknown:
    def __repr__(self):
        return "UNKNOWN"


UNKNOWN = _Unknown()


class Vec1(list):
    """a 1-D tensor of known length (entries: RF / int / Term)"""


class Mat2(list):
    """a 2-D tensor of known shape: a list of equally long Vec1 rows"""


class Term:
    """opaque canonical scalar: kind{sorted args}"""

    def __init__(self, kind: str, args):
        self.kind = kind
        self.args = frozenset(repr(a) for a in args)

    def __repr__(self):
        return f"{self.kind}{{{', '.join(sorted(self.args))}}}"

    def __eq__(self, o):
        return isinstance(o, Term) and (self.kind, self.args) == (o.kind, o.args)

    def __hash__(self):
        return hash((self.kind, self.args))


class Keys(list):
    """dict keys view: iterates in order, compares as a set"""

    def __eq__(self, o):
        return isinstance(o, (list, set, frozenset, tuple)) and set(self) == set(o)

    def __ne__(self, o):
        return not self.__eq__(o)

    __hash__ = None


def _concrete(v) -> bool:
    if isinstance(v, (int, float, str, bool, type(None))):
        return True
    if isinstance(v, dict):
        return all(_concrete(k) and _concrete(x) for k, x in v.items())
    if isinstance(v, (list, tuple, set, frozenset)) and not isinstance(v, Vec1):
        return all(_concrete(x) for x in v)
    return False


class Opaque:
    """a value the caller's resolver produced that the evaluator only passes around"""

    def __init__(self, tag):
        self.tag = tag

    def __repr__(self):
        return f"<{self.tag}>"


class _LocalFn:
    """a function defined inside the evaluated body: called with the defining frame's variables visible (read-only closure)"""

    def __init__(self, node, frame):
        self.node, self.frame = node, frame


class _It:
    """iter(<sequence>): the remaining items"""

    def __init__(self, items):
        self.items, self.pos = list(items), 0


class Model:
    """base class of rule-supplied value models (a point set known only by its row count, a domain, a mask ...): the evaluator hands
    attribute reads, method calls, subscripts, binary operators and len() on such a value to the model; the default is `not evaluable`"""

    def le_getattr(self, name):
        raise NotEval(f"attribute {name} of a {type(self).__name__}")

    def le_call(self, method, args, kws):
        raise NotEval(f"method {method} of a {type(self).__name__}")

    def le_subscript(self, idx):
        raise NotEval(f"subscript of a {type(self).__name__}")

    def le_binop(self, op, other, reflected):
        raise NotEval(f"operator on a {type(self).__name__}")

    def le_len(self):
        raise NotEval(f"len of a {type(self).__name__}")


class Obj(Opaque):
    """an opaque object with known attribute values; calling it reaches the caller's `on_call` under the object's tag"""

    def __init__(self, tag, fields=None):
        super().__init__(tag)
        self.fields = dict(fields or {})


def scalar(v):
    return isinstance(v, (int, float, Fraction, RF, Term)) and not isinstance(v, bool)


def _rf(v) -> RF:
    if isinstance(v, RF):
        return v
    if isinstance(v, bool):
        raise NotEval("bool in arithmetic")
    if isinstance(v, int):
        return RF.const(v)
    if isinstance(v, float) and v == int(v):
        return RF.const(int(v))
    if isinstance(v, float) and v == v and v not in (float("inf"), float("-inf")):
        return RF.const(Fraction(str(v)))  # a decimal literal is taken at its written value (1.2 = 6/5)
    if isinstance(v, Fraction):
        return RF.const(v)
    if isinstance(v, Term):
        return RF.atom(repr(v))
    raise NotEval(f"not a scalar: {type(v).__name__}")


def norm(v):
    """comparable normal form of a result"""
    if isinstance(v, (list, tuple)):
        return [norm(x) for x in v]
    if isinstance(v, (RF, Term)):
        r = _rf(v)
        try:
            return repr(r)
        except Exception:
            return repr(v)
    if isinstance(v, float) and v == int(v):
        return repr(RF.const(int(v)))
    if isinstance(v, int) and not isinstance(v, bool):
        return repr(RF.const(v))
    return repr(v)


class Frame:
    def __init__(self, env: Dict[str, object]):
        self.env = dict(env)
        self.attrs: Dict[str, object] = {}
        self.ret = None
        self.returned = False
        self.flow = None  # "break" / "continue" while unwinding to the enclosing loop


class Evaluator:
    """resolve(node, ev) -> value for names / attributes / calls outside the subset, or raise NotEval"""

    def __init__(self, resolve: Optional[Callable] = None, on_call: Optional[Callable] = None, max_steps: int = 20000):
        self.resolve = resolve
        self.on_call = on_call
        self.steps = 0
        self.max_steps = max_steps
        self.zero_division = False

    # ------------------------------------------------------------------ statements
    def run(self, body: List[ast.stmt], env: Dict[str, object], attrs: Optional[Dict[str, object]] = None) -> Frame:
        f = Frame(env)
        if attrs:
            f.attrs.update(attrs)
        self.block(body, f)
        return f

    def block(self, stmts, f: Frame):
        for s in stmts:
            if f.returned or f.flow:
                return
            self.stmt(s, f)

    def _poison(self, node, f: Frame):
        for n in ast.walk(node):
            if isinstance(n, ast.Name) and isinstance(n.ctx, ast.Store):
                f.env[n.id] = UNKNOWN
            if isinstance(n, ast.Attribute) and isinstance(n.ctx, ast.Store):
                f.attrs[ast.unparse(n)] = UNKNOWN
            if isinstance(n, ast.Subscript) and isinstance(n.ctx, ast.Store):
                base = n.value
                while isinstance(base, ast.Subscript):
                    base = base.value
                if isinstance(base, ast.Name):
                    f.env[base.id] = UNKNOWN
                elif isinstance(base, ast.Attribute):
                    f.attrs[ast.unparse(base)] = UNKNOWN
            if isinstance(n, ast.Call) and isinstance(n.func, ast.Attribute) and n.func.attr in ("append", "extend", "insert", "update", "pop", "remove", "setdefault", "clear", "add", "discard", "popitem", "sort", "reverse"):
                base = n.func.value
                while isinstance(base, ast.Subscript):
                    base = base.value
                if isinstance(base, ast.Name):
                    f.env[base.id] = UNKNOWN
                elif isinstance(base, ast.Attribute):
                    f.attrs[ast.unparse(base)] = UNKNOWN

    def stmt(self, s, f: Frame):
        self.steps += 1
        if self.steps > self.max_steps:
            raise NotEval("step budget exhausted")
        try:
            self._stmt(s, f)
        except NotEval:
            if isinstance(s, ast.Return) or any(isinstance(n, (ast.Return, ast.Break, ast.Continue)) for n in ast.walk(s)):
                # the statement decides where control goes next: nothing after it is known
                f.ret, f.returned = UNKNOWN, True
            else:
                self._poison(s, f)

    def _stmt(self, s, f: Frame):
        if isinstance(s, (ast.Assign, ast.AnnAssign)):
            if isinstance(s, ast.AnnAssign) and s.value is None:
                return
            v = self.ev(s.value, f)
            for t in (s.targets if isinstance(s, ast.Assign) else [s.target]):
                self.assign(t, v, f)
            return
        if isinstance(s, ast.AugAssign):
            cur = self.ev(_load(s.target), f)
            v = self.binop(cur, s.op, self.ev(s.value, f))
            if isinstance(cur, list) and isinstance(s.op, ast.Add) and not isinstance(cur, Vec1):
                cur.extend(v[len(cur):])  # in-place list +=
                return
            self.assign(s.target, v, f)
            return
        if isinstance(s, ast.Expr):
            if isinstance(s.value, ast.Constant):
                return
            self.ev(s.value, f)
            return
        if isinstance(s, ast.Return):
            f.ret = self.ev(s.value, f) if s.value is not None else None
            f.returned = True
            return
        if isinstance(s, ast.If):
            t = self.ev(s.test, f)
            if t is UNKNOWN or not isinstance(t, (bool, int, list, tuple, type(None), str, dict, set, frozenset)):
                raise NotEval("undetermined branch")
            self.block(s.body if t else s.orelse, f)
            return
        if isinstance(s, ast.For):
            it = self.ev(s.iter, f)
            if isinstance(it, dict):
                it = list(it.keys())
            if not isinstance(it, (list, tuple, range)):
                raise NotEval("loop over a non-sequence")
            for x in list(it):
                self.assign(s.target, x, f)
                self.block(s.body, f)
                if f.returned:
                    return
                flow, f.flow = f.flow, None
                if flow == "break":
                    break
            else:
                self.block(s.orelse, f)
            return
        if isinstance(s, ast.While):
            # a loop whose condition evaluates to a concrete truth value in every round (bounded number of rounds)
            rounds = 0
            while True:
                c = self.ev(s.test, f)
                if not isinstance(c, (bool, int)):
                    raise NotEval("loop condition not concrete")
                if not c:
                    self.block(s.orelse, f)
                    return
                rounds += 1
                if rounds > 500:
                    raise NotEval("loop does not end within 500 rounds")
                self.block(s.body, f)
                if f.returned:
                    return
                flow, f.flow = f.flow, None
                if flow == "break":
                    return
        if isinstance(s, ast.Break):
            f.flow = "break"
            return
        if isinstance(s, ast.Continue):
            f.flow = "continue"
            return
        if isinstance(s, ast.FunctionDef) and not s.decorator_list:
            f.env[s.name] = _LocalFn(s, f)
            return
        if isinstance(s, ast.Assert) or isinstance(s, ast.Pass):
            return
        if isinstance(s, ast.Raise):
            raise NotEval("raise")
        raise NotEval(f"statement {type(s).__name__}")

    def assign(self, t, v, f: Frame):
        if isinstance(t, ast.Name):
            f.env[t.id] = v
        elif isinstance(t, (ast.Tuple, ast.List)):
            if not isinstance(v, (list, tuple)) or len(v) != len(t.elts):
                raise NotEval("unpacking")
            for a, b in zip(t.elts, v):
                self.assign(a, b, f)
        elif isinstance(t, ast.Attribute):
            f.attrs[ast.unparse(t)] = v
        elif isinstance(t, ast.Subscript):
            base = self.ev(t.value, f)
            if isinstance(base, dict):
                key = self.ev(t.slice, f)
                if not isinstance(key, (str, int, tuple)) or isinstance(key, bool):
                    raise NotEval("symbolic key")
                base[key] = v
                return
            if not isinstance(base, list):
                raise NotEval("store into a non-list")
            idx = self.index(t.slice, f)
            if isinstance(idx, slice):
                tgt = range(len(base))[idx]
                vals = list(v) if isinstance(v, (list, tuple)) else [v] * len(tgt)
                if len(vals) != len(tgt):
                    raise NotEval("slice assignment of another length")
                for i, x in zip(tgt, vals):
                    base[i] = x
            else:
                base[idx] = v
        else:
            raise NotEval("assignment target")

    # ------------------------------------------------------------------ expressions
    def index(self, sl, f):
        if isinstance(sl, ast.Slice):
            lo = self.ev(sl.lower, f) if sl.lower is not None else None
            hi = self.ev(sl.upper, f) if sl.upper is not None else None
            st = self.ev(sl.step, f) if sl.step is not None else None
            if not all(x is None or (isinstance(x, int) and not isinstance(x, bool)) for x in (lo, hi, st)):
                raise NotEval("symbolic slice bound")
            if st == 0:
                raise NotEval("slice step 0")
            return slice(lo, hi, st)
        v = self.ev(sl, f)
        if isinstance(v, slice):
            if not all(x is None or (isinstance(x, int) and not isinstance(x, bool)) for x in (v.start, v.stop, v.step)):
                raise NotEval("symbolic slice bound")
            if v.step == 0:
                raise NotEval("slice step 0")
            return v
        if isinstance(v, bool) or not isinstance(v, int):
            raise NotEval("symbolic index")
        return v

    def ev(self, e, f: Frame):
        if e is None:
            return None
        if isinstance(e, ast.Constant):
            return e.value
        if isinstance(e, ast.Name) and e.id == "Ellipsis" and "Ellipsis" not in f.env:
            return Ellipsis
        if isinstance(e, ast.Name):
            if e.id in f.env:
                v = f.env[e.id]
                if v is UNKNOWN:
                    raise NotEval(f"{e.id} is unknown")
                return v
            return self._resolve(e, f)
        if isinstance(e, ast.Attribute) and e.attr in ("start", "stop", "step"):
            try:
                base = self.ev(e.value, f)
            except NotEval:
                base = None
            if isinstance(base, slice):
                return getattr(base, e.attr)
        if isinstance(e, ast.Attribute):
            key = ast.unparse(e)
            if key in f.attrs:
                v = f.attrs[key]
                if v is UNKNOWN:
                    raise NotEval(f"{key} is unknown")
                return v
            try:
                base = self.ev(e.value, f)
            except NotEval:
                base = None
            if isinstance(base, Obj) and e.attr in base.fields:
                return base.fields[e.attr]
            if isinstance(base, Model):
                return base.le_getattr(e.attr)
            return self._resolve(e, f)
        if isinstance(e, (ast.List, ast.Tuple)):
            out = []
            for x in e.elts:
                if isinstance(x, ast.Starred):
                    v = self.ev(x.value, f)
                    if not isinstance(v, (list, tuple)):
                        raise NotEval("starred non-sequence")
                    out.extend(v)
                else:
                    out.append(self.ev(x, f))
            return out if isinstance(e, ast.List) else tuple(out)
        if isinstance(e, ast.Subscript):
            base = self.ev(e.value, f)
            if isinstance(base, Model):
                parts = e.slice.elts if isinstance(e.slice, ast.Tuple) else [e.slice]
                idx = tuple(self.index(x, f) if isinstance(x, ast.Slice) else self.ev(x, f) for x in parts)
                return base.le_subscript(idx if isinstance(e.slice, ast.Tuple) else idx[0])
            if isinstance(base, dict) and not isinstance(e.slice, (ast.Slice, ast.Tuple)):
                k = self.ev(e.slice, f)
                if _concrete(k) and not isinstance(k, (list, dict)) and k in base:
                    return base[k]
                return self._resolve(e, f)
            if isinstance(base, (list, tuple, range)):
                idx = self.index(e.slice, f)
                try:
                    r = base[idx]
                except IndexError:
                    raise NotEval("index out of range")
                if isinstance(idx, slice):
                    return Vec1(r) if isinstance(base, Vec1) else (list(r) if not isinstance(base, tuple) else tuple(r))
                return r
            return self._resolve(e, f)
        if isinstance(e, ast.BinOp):
            return self.binop(self.ev(e.left, f), e.op, self.ev(e.right, f))
        if isinstance(e, ast.UnaryOp):
            v = self.ev(e.operand, f)
            if isinstance(e.op, ast.USub):
                return self.binop(0, ast.Sub(), v)
            if isinstance(e.op, ast.Not):
                if isinstance(v, (bool, int, list, tuple, type(None), str, set, frozenset, dict)):
                    return not v
                raise NotEval("not of a symbolic value")
            raise NotEval("unary op")
        if isinstance(e, ast.Compare) and len(e.ops) == 1:
            a, b = self.ev(e.left, f), self.ev(e.comparators[0], f)
            op = e.ops[0]
            if isinstance(op, (ast.Is, ast.IsNot)):
                if a is None or b is None:
                    r = (a is None) == (b is None)
                    return r if isinstance(op, ast.Is) else not r
                if (a is Ellipsis or b is Ellipsis) and all(x is Ellipsis or isinstance(x, (int, float, str, slice, list, tuple, dict)) for x in (a, b)):
                    r = a is b  # Ellipsis is a singleton; concrete values of other types are never it
                    return r if isinstance(op, ast.Is) else not r
                singles = [x for x in (a, b) if isinstance(x, Opaque) and x.tag in ("NotImplemented",)]
                if singles and all((isinstance(x, Opaque) and x.tag == "NotImplemented") or isinstance(x, (bool, int, float, str, list, tuple, dict)) for x in (a, b)):
                    r = len(singles) == 2  # the singleton NotImplemented against a concrete value of another type
                    return r if isinstance(op, ast.Is) else not r
                raise NotEval("identity test")
            if isinstance(op, (ast.Eq, ast.NotEq)) and _concrete(a) and _concrete(b) and not all(isinstance(x, (int, float, str, bool)) for x in (a, b)):
                return (a == b) if isinstance(op, ast.Eq) else (a != b)
            if all(isinstance(x, (int, float, str, bool)) for x in (a, b)):
                return {ast.Lt: a < b, ast.LtE: a <= b, ast.Gt: a > b, ast.GtE: a >= b, ast.Eq: a == b, ast.NotEq: a != b}.get(type(op), None) if type(op) in (ast.Lt, ast.LtE, ast.Gt, ast.GtE, ast.Eq, ast.NotEq) else self._raise("compare")
            if isinstance(op, (ast.In, ast.NotIn)) and isinstance(b, dict):
                b = list(b.keys())
            if isinstance(op, (ast.In, ast.NotIn)) and isinstance(b, (list, tuple, set, frozenset)) and all(isinstance(x, (int, str)) for x in list(b) + [a]):
                return (a in b) if isinstance(op, ast.In) else (a not in b)
            raise NotEval("symbolic comparison")
        if isinstance(e, ast.BoolOp):
            r = None
            for i, x in enumerate(e.values):
                r = self.ev(x, f)  # left to right, short-circuit as Python does
                if not isinstance(r, (bool, int, type(None), list, tuple, str, set, frozenset, dict)):
                    raise NotEval("symbolic boolean")
                if (isinstance(e.op, ast.And) and not r) or (isinstance(e.op, ast.Or) and r):
                    return r
            return r
        if isinstance(e, ast.IfExp):
            t = self.ev(e.test, f)
            if isinstance(t, (bool, int, type(None), list, tuple, str)):
                return self.ev(e.body if t else e.orelse, f)
            raise NotEval("symbolic conditional")
        if isinstance(e, ast.DictComp):
            pairs = []
            self._comp(e.generators, 0, ast.Tuple(elts=[e.key, e.value], ctx=ast.Load()), f, pairs)
            from collections import OrderedDict
            out = OrderedDict()
            for k, v in pairs:
                if not _concrete(k) or isinstance(k, (list, dict)):
                    raise NotEval("symbolic dict key")
                out[k] = v
            return out
        if isinstance(e, ast.Set):
            vals = [self.ev(x, f) for x in e.elts]
            if all(_concrete(v) and not isinstance(v, (list, dict)) for v in vals):
                return set(vals)
            raise NotEval("symbolic set element")
        if isinstance(e, ast.Dict):
            from collections import OrderedDict
            out = OrderedDict()
            for k, v in zip(e.keys, e.values):
                if k is None:
                    m = self.ev(v, f)
                    if not isinstance(m, dict):
                        raise NotEval("** of a non-mapping")
                    out.update(m)
                else:
                    kk = self.ev(k, f)
                    if not _concrete(kk) or isinstance(kk, (list, dict)):
                        raise NotEval("symbolic dict key")
                    out[kk] = self.ev(v, f)
            return out
        if isinstance(e, (ast.ListComp, ast.GeneratorExp, ast.SetComp)):
            out = []
            self._comp(e.generators, 0, e.elt, f, out)
            return out
        if isinstance(e, ast.Call):
            return self.call(e, f)
        if isinstance(e, ast.Starred):
            raise NotEval("starred")
        raise NotEval(f"expression {type(e).__name__}")

    @staticmethod
    def _raise(msg):
        raise NotEval(msg)

    def _comp(self, gens, i, elt, f: Frame, out):
        if i == len(gens):
            out.append(self.ev(elt, f))
            return
        g = gens[i]
        it = self.ev(g.iter, f)
        if isinstance(it, dict):
            it = list(it.keys())
        if not isinstance(it, (list, tuple, range)):
            raise NotEval("comprehension over a non-sequence")
        saved = dict(f.env)
        for x in list(it):
            self.assign(g.target, x, f)
            ok = True
            for c in g.ifs:
                t = self.ev(c, f)
                if not isinstance(t, (bool, int, type(None), list, tuple, str)):
                    raise NotEval("symbolic filter")
                ok = ok and bool(t)
            if ok:
                self._comp(gens, i + 1, elt, f, out)
        for n in [n.id for n in ast.walk(g.target) if isinstance(n, ast.Name)]:
            if n in saved:
                f.env[n] = saved[n]
            else:
                f.env.pop(n, None)

    def _resolve(self, e, f):
        if self.resolve is not None:
            v = self.resolve(e, self, f)
            if v is not None:
                return v
        raise NotEval(f"unresolved {ast.unparse(e)[:60]}")

    # ------------------------------------------------------------------ arithmetic
    def binop(self, a, op, b):
        if isinstance(op, (ast.Div, ast.FloorDiv, ast.Mod)) and (isinstance(b, (int, float, Fraction)) and not isinstance(b, bool) and b == 0 or isinstance(b, RF) and b.is_const() and b.const_value() == 0):
            self.zero_division = True  # the real code raises here: callers may treat the run as a loud failure
            raise NotEval("division by zero")
        if hasattr(a, "le_binop"):
            return a.le_binop(op, b, False)
        if hasattr(b, "le_binop"):
            return b.le_binop(op, a, True)
        if isinstance(a, Vec1) or isinstance(b, Vec1):
            if isinstance(a, Vec1) and isinstance(b, Vec1):
                if len(a) != len(b):
                    if len(a) == 1:
                        a = Vec1(a * len(b))
                    elif len(b) == 1:
                        b = Vec1(b * len(a))
                    else:
                        raise NotEval("element-wise op on different lengths")
                return Vec1(self.binop(x, op, y) for x, y in zip(a, b))
            if isinstance(a, Vec1) and scalar(b):
                return Vec1(self.binop(x, op, b) for x in a)
            if isinstance(b, Vec1) and scalar(a):
                return Vec1(self.binop(a, op, y) for y in b)
            raise NotEval("tensor with non-scalar")
        if isinstance(a, (set, frozenset, Keys)) and isinstance(b, (set, frozenset, Keys)):
            x, y = set(a), set(b)
            if isinstance(op, ast.BitAnd):
                return x & y
            if isinstance(op, ast.BitOr):
                return x | y
            if isinstance(op, ast.Sub):
                return x - y
            if isinstance(op, ast.BitXor):
                return x ^ y
        if isinstance(a, (list, tuple)) and isinstance(b, (list, tuple)) and isinstance(op, ast.Add):
            return (list(a) + list(b)) if isinstance(a, list) else tuple(a) + tuple(b)
        if isinstance(op, ast.Mult) and ((isinstance(a, (list, tuple)) and isinstance(b, int)) or (isinstance(b, (list, tuple)) and isinstance(a, int))):
            seq, k = (a, b) if isinstance(a, (list, tuple)) else (b, a)
            return type(seq)(list(seq) * k) if not isinstance(seq, Vec1) else Vec1(list(seq) * k)
        if all(isinstance(x, int) and not isinstance(x, bool) for x in (a, b)):
            if isinstance(op, ast.Add):
                return a + b
            if isinstance(op, ast.Sub):
                return a - b
            if isinstance(op, ast.Mult):
                return a * b
            if isinstance(op, ast.FloorDiv) and b != 0:
                return a // b
            if isinstance(op, ast.Mod) and b != 0:
                return a % b
            if isinstance(op, ast.Pow) and b >= 0:
                return a ** b
        if scalar(a) and scalar(b):
            x, y = _rf(a), _rf(b)
            try:
                if isinstance(op, ast.Add):
                    return x + y
                if isinstance(op, ast.Sub):
                    return x - y
                if isinstance(op, ast.Mult):
                    return x * y
                if isinstance(op, ast.Div):
                    return x / y
            except NotPoly as err:
                raise NotEval(str(err))
        raise NotEval(f"operator {type(op).__name__} on {type(a).__name__}, {type(b).__name__}")

    # ------------------------------------------------------------------ calls
    def call(self, e: ast.Call, f: Frame):
        fn = e.func
        name = ast.unparse(fn)
        args = None
        if isinstance(fn, ast.Name) and isinstance(f.env.get(fn.id), Obj):
            name = f.env[fn.id].tag  # a call of an object held in a local (for factor in (self.a, self.b): factor(..))

        def A():
            nonlocal args
            if args is None:
                args = []
                for x in e.args:
                    if isinstance(x, ast.Starred):
                        v = self.ev(x.value, f)
                        if not isinstance(v, (list, tuple)):
                            raise NotEval("starred non-sequence")
                        args.extend(v)
                    else:
                        args.append(self.ev(x, f))
            return args

        def kw(k, default=None):
            for q in e.keywords:
                if q.arg == k:
                    return self.ev(q.value, f)
            return default
        if isinstance(fn, ast.Name) and isinstance(f.env.get(fn.id), _LocalFn):
            lf = f.env[fn.id]
            a = lf.node.args
            if a.vararg or a.kwarg or a.kwonlyargs or a.posonlyargs or any(isinstance(x, ast.Nonlocal) for x in ast.walk(lf.node)):
                raise NotEval("local function signature")
            names = [x.arg for x in a.args]
            given = dict(zip(names, A()))
            if len(A()) > len(names):
                raise NotEval("too many arguments")
            for q in e.keywords:
                if q.arg is None or q.arg not in names or q.arg in given:
                    raise NotEval("keyword of a local function")
                given[q.arg] = self.ev(q.value, f)
            for nme, d in zip(names[len(names) - len(a.defaults):], a.defaults):
                if nme not in given:
                    given[nme] = self.ev(d, lf.frame)
            if set(given) != set(names):
                raise NotEval("missing argument of a local function")
            inner = Frame({**lf.frame.env, **given})
            inner.attrs = f.attrs  # attribute state is shared
            self.block(lf.node.body, inner)
            if inner.ret is UNKNOWN:
                raise NotEval("local function result unknown")
            return inner.ret
        if isinstance(fn, ast.Attribute) and not any(isinstance(x, ast.Call) for x in ast.walk(fn.value)):
            try:
                recv0 = self.ev(fn.value, f)
            except NotEval:
                recv0 = None
            if isinstance(recv0, Model):
                kws0 = {}
                for q in e.keywords:
                    if q.arg is None:
                        raise NotEval("** in a model call")
                    kws0[q.arg] = self.ev(q.value, f)
                return recv0.le_call(fn.attr, A(), kws0)
        # list methods
        if isinstance(fn, ast.Attribute):
            m = fn.attr
            if m in ("append", "extend", "insert") and not e.keywords:
                recv = self.ev(fn.value, f)
                if isinstance(recv, list) and not isinstance(recv, Vec1):
                    a = A()
                    if m == "append" and len(a) == 1:
                        recv.append(a[0])
                        return None
                    if m == "extend" and len(a) == 1 and isinstance(a[0], (list, tuple)):
                        recv.extend(a[0])
                        return None
                    if m == "insert" and len(a) == 2 and isinstance(a[0], int):
                        recv.insert(a[0], a[1])
                        return None
                raise NotEval("list method on a non-list")
            if m in ("flatten", "ravel") or (m in ("reshape", "view") and len(e.args) == 1 and isinstance(e.args[0], ast.UnaryOp)):
                v = self.ev(fn.value, f)
                if isinstance(v, Mat2) and (m in ("flatten", "ravel") and not e.args or m in ("reshape", "view") and ast.unparse(e.args[0]) == "-1"):
                    return Vec1(x for row in v for x in row)
                if isinstance(v, Vec1) and (not e.args or ast.unparse(e.args[0]) == "-1"):
                    return v
                raise NotEval("flatten of a non-matrix")
            if m in ("t",) and not e.args or (m == "transpose" and [ast.unparse(a) for a in e.args] in (["0", "1"], ["1", "0"], ["-1", "-2"], ["-2", "-1"])):
                v = self.ev(fn.value, f)
                if isinstance(v, Mat2):
                    return Mat2([Vec1(col) for col in zip(*v)])
                raise NotEval("transpose of a non-matrix")
            if m in ("tolist",) and not e.args:
                v = self.ev(fn.value, f)
                if isinstance(v, list):
                    return list(v)
                raise NotEval("tolist of a non-tensor")
            if m in ("item", "float", "double", "long", "int", "clone", "detach", "cpu", "contiguous") and not e.args:
                return self.ev(fn.value, f)
            if m == "to":
                return self.ev(fn.value, f)
            if m in ("update", "setdefault", "get", "pop") and not e.keywords:
                recv = self.ev(fn.value, f)
                if isinstance(recv, dict):
                    a = A()
                    if m == "update" and len(a) == 1 and isinstance(a[0], dict):
                        recv.update(a[0])
                        return None
                    if m == "setdefault" and len(a) == 2 and _concrete(a[0]) and not isinstance(a[0], (list, dict)):
                        return recv.setdefault(a[0], a[1])
                    if m == "get" and 1 <= len(a) <= 2 and _concrete(a[0]) and not isinstance(a[0], (list, dict)):
                        return recv.get(a[0], a[1] if len(a) == 2 else None)
                    if m == "pop" and 1 <= len(a) <= 2 and _concrete(a[0]) and not isinstance(a[0], (list, dict)):
                        if a[0] in recv or len(a) == 2:
                            return recv.pop(a[0], a[1] if len(a) == 2 else None)
                    raise NotEval(f"dict.{m} with these arguments")
            if m in ("isdisjoint", "issubset", "issuperset", "intersection", "union", "difference") and len(e.args) == 1 and not e.keywords:
                recv = self.ev(fn.value, f)
                arg = self.ev(e.args[0], f)
                if isinstance(recv, dict):
                    recv = set(recv.keys())
                if isinstance(arg, dict):
                    arg = set(arg.keys())
                if isinstance(recv, (set, frozenset, list, tuple)) and isinstance(arg, (set, frozenset, list, tuple)) and _concrete(list(recv)) and _concrete(list(arg)):
                    r, a2 = set(recv), set(arg)
                    return {"isdisjoint": r.isdisjoint(a2), "issubset": r <= a2, "issuperset": r >= a2, "intersection": r & a2, "union": r | a2, "difference": r - a2}[m]
                raise NotEval("set method on symbolic values")
            if m in ("keys", "values", "items") and not e.args:
                v = self.ev(fn.value, f)
                if isinstance(v, dict):
                    return Keys(v.keys()) if m == "keys" else (list(v.values()) if m == "values" else [tuple(kv) for kv in v.items()])
            if m == "index" and len(e.args) == 1 and not e.keywords:
                v = self.ev(fn.value, f)
                x = self.ev(e.args[0], f)
                if isinstance(v, (list, tuple)) and _concrete(x) and all(_concrete(y) for y in v):
                    if x in v:
                        return list(v).index(x)
                    raise NotEval("index of a missing element")
        if name == "isinstance" and len(e.args) == 2:
            v = self.ev(e.args[0], f)
            types = ast.unparse(e.args[1])
            kinds = {"int": int, "float": float, "list": list, "tuple": tuple, "str": str, "dict": dict, "bool": bool, "slice": slice, "torch.Tensor": Vec1, "Tensor": Vec1, "np.ndarray": Vec1, "numpy.ndarray": Vec1}
            if isinstance(v, slice):
                return "slice" in types
            if v is Ellipsis:
                return False if all(t in kinds for t in types.replace("(", " ").replace(")", " ").replace(",", " ").split()) else self._raise("isinstance of Ellipsis")
            toks = types.replace("(", " ").replace(")", " ").replace(",", " ").split()
            if isinstance(v, (RF, Term)) and toks and all(t in ("list", "tuple", "dict", "torch.Tensor", "Tensor", "str", "slice") for t in toks):
                return False  # a symbolic scalar is no container
            if isinstance(v, Vec1) and toks and all(t in kinds for t in toks):
                return any(t in ("torch.Tensor", "Tensor") for t in toks)
            named = [k for k in kinds if k in types.replace("(", " ").replace(")", " ").replace(",", " ").split()]
            if isinstance(v, (int, float, str, dict, bool)) or (isinstance(v, (list, tuple)) and not isinstance(v, Vec1)):
                if all(t in kinds for t in types.replace("(", " ").replace(")", " ").replace(",", " ").split()):
                    return any(isinstance(v, kinds[k]) and not (k == "int" and isinstance(v, bool)) for k in named)
            if self.resolve is not None:
                got = self.resolve(e, self, f)  # a class of the repository: the rule knows what its value models stand for
                if isinstance(got, bool):
                    return got
            raise NotEval("isinstance of a symbolic value")
        if name == "slice":
            a = A()
            if 1 <= len(a) <= 3 and all(x is None or _concrete(x) for x in a):
                return slice(*a)
            raise NotEval("symbolic slice")
        if name in ("range",):
            a = A()
            if all(isinstance(x, int) and not isinstance(x, bool) for x in a) and 1 <= len(a) <= 3:
                return list(range(*a))
            raise NotEval("symbolic range")
        if name == "len":
            v = A()[0]
            if isinstance(v, Model):
                return v.le_len()
            if isinstance(v, (list, tuple, dict)):
                return len(v)
            raise NotEval("len of a non-sequence")
        if name in ("list", "tuple", "reversed", "sorted"):
            a = A()
            if not a:
                return [] if name == "list" else ()
            v = a[0]
            if isinstance(v, dict):
                v = list(v.keys())
            if isinstance(v, (list, tuple, range)):
                if name == "reversed":
                    return list(reversed(list(v)))
                if name == "sorted":
                    raise NotEval("sorted")
                return list(v) if name == "list" else tuple(v)
            raise NotEval(f"{name} of a non-sequence")
        if name == "dict" and name not in f.env:
            from collections import OrderedDict
            a = A()
            out = OrderedDict()
            if len(a) > 1:
                raise NotEval("dict of several arguments")
            if a:
                src = a[0]
                if isinstance(src, dict):
                    out.update(src)
                elif isinstance(src, (list, tuple)) and all(isinstance(kv, (list, tuple)) and len(kv) == 2 and _concrete(kv[0]) and not isinstance(kv[0], (list, dict)) for kv in src):
                    for k, v in src:
                        out[k] = v
                else:
                    raise NotEval("dict of a non-mapping")
            for q in e.keywords:
                if q.arg is None:
                    m = self.ev(q.value, f)
                    if not isinstance(m, dict):
                        raise NotEval("** of a non-mapping")
                    out.update(m)
                else:
                    out[q.arg] = self.ev(q.value, f)
            return out
        if name == "iter" and len(e.args) == 1:
            v = A()[0]
            if isinstance(v, dict):
                v = list(v.keys())
            if isinstance(v, (list, tuple, range, Keys)):
                return _It(v)
            raise NotEval("iter of a non-sequence")
        if name == "next" and 1 <= len(e.args) <= 2:
            a = A()
            if isinstance(a[0], _It):
                if a[0].pos < len(a[0].items):
                    a[0].pos += 1
                    return a[0].items[a[0].pos - 1]
                if len(a) == 2:
                    return a[1]
                raise NotEval("next of an exhausted iterator")
            raise NotEval("next of a non-iterator")
        if name == "zip":
            a = A()
            if all(isinstance(x, (list, tuple, range)) for x in a):
                return [tuple(t) for t in zip(*a)]
            raise NotEval("zip of non-sequences")
        if name == "enumerate":
            a = A()
            if isinstance(a[0], (list, tuple, range)):
                return [(i + (a[1] if len(a) > 1 else 0), x) for i, x in enumerate(a[0])]
            raise NotEval("enumerate")
        if name in ("torch.minimum", "torch.maximum", "torch.min", "torch.max") and len(e.args) == 2:
            a = A()
            if isinstance(a[0], Vec1) and isinstance(a[1], Vec1) and len(a[0]) == len(a[1]):
                kind = "min" if "min" in name else "max"
                out = Vec1()
                for x, y in zip(a[0], a[1]):
                    t = Term(kind, [])
                    t.args = frozenset({repr(_rf(x)) if not isinstance(x, Term) else repr(x), repr(_rf(y)) if not isinstance(y, Term) else repr(y)})
                    out.append(t if len(t.args) > 1 else x)
                return out
        if name in ("torch.stack", "torch.vstack") and e.args:
            a = A()
            if isinstance(a[0], (list, tuple)) and a[0] and all(isinstance(r, Vec1) for r in a[0]) and len({len(r) for r in a[0]}) == 1:
                d = kw("dim", a[1] if len(a) > 1 else 0)
                rows = [Vec1(r) for r in a[0]]
                if d in (0, -2):
                    return Mat2(rows)
                if d in (1, -1) and name == "torch.stack":
                    return Mat2([Vec1(col) for col in zip(*rows)])
                raise NotEval("stack axis")
        if name in ("min", "max", "torch.min", "torch.max", "torch.minimum", "torch.maximum", "np.min", "np.max"):
            a = A()
            items = list(a[0]) if len(a) == 1 and isinstance(a[0], (list, tuple)) else a
            if not items or not all(scalar(x) for x in items):
                raise NotEval("min/max of non-scalars")
            kind = "min" if "min" in name else "max"
            if all(isinstance(x, int) for x in items):
                return min(items) if kind == "min" else max(items)
            flat = []
            for x in items:
                if isinstance(x, Term) and x.kind == kind:
                    flat.extend(sorted(x.args))
                else:
                    flat.append(repr(_rf(x)) if not isinstance(x, Term) else repr(x))
            t = Term(kind, [])
            t.args = frozenset(flat)
            return t if len(t.args) > 1 else self._single(items[0])
        if name in ("any", "all") and len(e.args) == 1:
            a = A()
            if isinstance(a[0], (list, tuple, set)) and all(isinstance(x, (bool, int, type(None), str, list, tuple, set, dict)) for x in a[0]):
                return any(a[0]) if name == "any" else all(a[0])
            raise NotEval(f"{name} of symbolic values")
        if name in ("set", "frozenset"):
            a = A()
            if not a:
                return set()
            v = a[0]
            if isinstance(v, dict):
                v = list(v.keys())
            if isinstance(v, (list, tuple, set, frozenset)) and _concrete(list(v)):
                return set(v)
            raise NotEval("set of symbolic values")
        if name == "sum":
            a = A()
            if isinstance(a[0], (list, tuple)):
                acc = a[1] if len(a) > 1 else 0
                for x in a[0]:
                    acc = self.binop(acc, ast.Add(), x)
                return acc
            raise NotEval("sum")
        if name in ("int", "float", "bool", "abs"):
            a = A()
            if name == "int" and len(a) == 1 and isinstance(a[0], (float, Fraction)) and not isinstance(a[0], bool):
                return int(a[0])  # truncation towards zero, as Python does
            if name == "int" and len(a) == 1 and isinstance(a[0], RF) and a[0].is_const():
                return int(a[0].const_value())
            if name in ("int", "float") and len(a) == 1 and scalar(a[0]):
                return a[0]
            if name == "bool" and len(a) == 1 and isinstance(a[0], (bool, int, type(None), list, tuple, str, set, frozenset, dict)):
                return bool(a[0])
            raise NotEval(name)
        if name in ("torch.tensor", "torch.as_tensor", "torch.Tensor", "torch.stack", "torch.hstack", "np.array", "torch.cat"):
            a = A()
            if a and isinstance(a[0], (list, tuple)) and not any(isinstance(x, Model) for x in a[0]):  # joins of rule-supplied value models are the rule's business (on_call)
                flat = []
                for x in a[0]:
                    if isinstance(x, Vec1) and name in ("torch.cat", "torch.hstack"):
                        flat.extend(x)
                    elif scalar(x):
                        flat.append(x)
                    elif isinstance(x, Vec1) and len(x) == 1 and name == "torch.stack":
                        flat.append(x[0])
                    else:
                        raise NotEval("tensor of non-scalars")
                return Vec1(flat)
            if not (self.on_call is not None and a and isinstance(a[0], (list, tuple)) and any(isinstance(x, Model) for x in a[0])):
                raise NotEval("tensor constructor")
        if name in ("torch.zeros", "torch.ones", "torch.empty"):
            a = A()
            n = a[0] if a else None
            if isinstance(n, (list, tuple)) and len(n) == 1:
                n = n[0]
            if isinstance(n, int) and not isinstance(n, bool) and len([x for x in a if isinstance(x, int)]) == 1:
                return Vec1([0 if name != "torch.ones" else 1] * n)
            if self.on_call is None:
                raise NotEval("tensor of symbolic / higher shape")
            # higher shapes: left to the rule's own tensor model (on_call below)
        if name == "torch.flip":
            a = A()
            if isinstance(a[0], Vec1):
                return Vec1(reversed(a[0]))
            raise NotEval("flip")
        if self.on_call is not None:
            try:
                ev_args = A()
            except NotEval:
                ev_args = None
            kws = {}
            for q in e.keywords:
                if q.arg is not None:
                    try:
                        kws[q.arg] = self.ev(q.value, f)
                    except NotEval:
                        kws[q.arg] = UNKNOWN
            v = self.on_call(e, name, ev_args, kws, self, f)
            if v is not None:
                return v
        return self._resolve(e, f)

    @staticmethod
    def _single(x):
        return x


def _load(t: ast.AST) -> ast.AST:
    import copy
    t2 = copy.deepcopy(t)
    for n in ast.walk(t2):
        if hasattr(n, "ctx"):
            n.ctx = ast.Load()
    return t2


def atoms(prefix: str, n: int) -> List[RF]:
    return [RF.atom(f"{prefix}{i}") for i in range(n)]

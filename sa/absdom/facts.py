"""Abstract interpreter for the sampling functions of the Boolean-operation domains.

Each abstract point set carries the *facts* established about every one of its
rows as a Boolean formula over in_a, in_b, on_a, on_b (plus anonymous atoms for
random / unknown masks).  Masks and indices remember which point set they were
computed on; selecting rows with an index computed on other points is a definite
error.  Helpers are interpreted under the call site's bindings (so `domain_a`,
`invert`, ... are the caller's operands/constants), alternatives of a branching
helper are merged (the obligation is per returned operand, so this is sound).
"""
from __future__ import annotations

import ast
import itertools
from dataclasses import dataclass, field
from typing import Dict, List, Optional, Tuple

from ..flow import attr_chain, dump
from ..repo import ClassInfo, FuncInfo, Module, Repo
from . import boolform as B

MAX_DEPTH = 5


class Undecided(Exception):
    pass


class Misuse(Exception):
    """definite error found while interpreting (e.g. index applied to foreign points)"""

    def __init__(self, msg, node=None):
        super().__init__(msg)
        self.node = node


_ids = itertools.count(1)


@dataclass
class Dom:  # operand designator
    name: str  # 'A' | 'B' | 'M'
    boundary: bool = False

    def atom(self):
        return None


@dataclass
class Choice:  # one of several designators (list indexed by a toggled flag)
    opts: List[Dom]


@dataclass
class Pts:
    facts: tuple
    ident: int = field(default_factory=lambda: next(_ids))
    origin: str = ""
    requested: Optional[str] = None  # text of the `n=` argument the set was sampled with
    paired: bool = False  # one row per parameter row (sampled with n=1 and the caller's whole parameter set): row k belongs to parameter row k
    packed: bool = False  # rows selected out of such a set: their position no longer tells the parameter row
    sel: object = None  # the index / mask that selected them


@dataclass
class PSet:  # union of operands (result of `|`, accumulation, merged alternatives)
    ops: List[Pts]


@dataclass
class Mask:
    f: tuple
    about: Optional[int]


@dataclass
class Index:
    f: tuple
    about: Optional[int]


@dataclass
class ZeroT:  # zero-initialised tensor receiving masked stores
    stores: List[Pts] = field(default_factory=list)


@dataclass
class Tup:
    elts: list


@dataclass
class Lst:
    elts: list


@dataclass
class Const:
    v: object


@dataclass
class Count:  # len(index): how many rows of `about` satisfy f
    idx: "Index"
    total: object = None  # the requested row count expression the sampled set was created with


class Opaque:
    def __repr__(self):
        return "?"


OPAQUE = Opaque()


class AllParams(Opaque):
    """the whole parameter set handed to the sampling function (every row), as opposed to one selected row"""

    def __repr__(self):
        return "?params"


class Sym(Opaque):
    """an opaque value that remembers the caller's expression it was bound from (row counts passed to helpers)"""

    def __init__(self, text):
        self.text = text

    def __repr__(self):
        return f"?{self.text}"


@dataclass
class LocalFn:  # a helper defined inside the sampling function; its free names are the enclosing bindings
    node: ast.FunctionDef
    env: dict


def operands(v) -> Optional[List[Pts]]:
    if isinstance(v, Pts):
        return [v]
    if isinstance(v, PSet):
        return list(v.ops)
    return None


def dedupe(ops: List[Pts]) -> List[Pts]:
    seen, out = set(), []
    for o in ops:
        k = (B.show(o.facts), o.origin)
        if k not in seen:
            seen.add(k)
            out.append(o)
    return out


class Interp:
    def __init__(self, repo: Repo, cls: ClassInfo, main_formula: tuple, main_is_boundary: bool):
        self.repo = repo
        self.cls = cls
        self.F = main_formula
        self.main_is_boundary = main_is_boundary
        self.fresh = itertools.count(1)
        self.visited: List[FuncInfo] = []
        self.misuse: List[Tuple[str, str]] = []

    # -------------------------------------------------------------- designators
    def dom_atom(self, d: Dom) -> tuple:
        if d.name == "M":
            return self.F
        base = d.name.lower()
        if d.boundary:
            return B.conj(B.var(f"on_{base}"), B.var(f"in_{base}"))
        return B.var(f"in_{base}")

    def dom_mask_atom(self, d: Dom) -> tuple:
        if d.name == "M":
            return self.F
        base = d.name.lower()
        return B.var(f"on_{base}") if d.boundary else B.var(f"in_{base}")

    def designator(self, node: ast.AST, env) -> Optional[object]:
        ch = attr_chain(node)
        if ch is not None:
            parts = ch.split(".")
            b = False
            if parts[-1] == "boundary":
                b = True
                parts = parts[:-1]
            head = ".".join(parts)
            if head in ("self.domain_a", "self.domain.domain_a"):
                return Dom("A", b)
            if head in ("self.domain_b", "self.domain.domain_b"):
                return Dom("B", b)
            if head == "self":
                if b:
                    return None
                return Dom("M", self.main_is_boundary)
            if head == "self.domain" and self.main_is_boundary and not b:
                return Dom("Minner")
            if len(parts) == 1 and parts[0] in env:
                v = env[parts[0]]
                if isinstance(v, Dom):
                    return Dom(v.name, v.boundary or b) if not (v.boundary and b) else None
                if isinstance(v, Choice) and b:
                    return Choice([Dom(o.name, True) for o in v.opts])
                if isinstance(v, Choice):
                    return v
        if isinstance(node, ast.Attribute) and node.attr == "boundary":
            inner = self.designator(node.value, env)
            if isinstance(inner, Dom) and not inner.boundary:
                return Dom(inner.name, True)
            if isinstance(inner, Choice):
                return Choice([Dom(o.name, True) for o in inner.opts])
        if isinstance(node, ast.Subscript):
            base = self.ev(node.value, env)
            if isinstance(base, (Lst, Tup)) and base.elts and all(isinstance(e, Dom) for e in base.elts):
                idx = self.ev(node.slice, env)
                if isinstance(idx, Const) and isinstance(idx.v, (int, bool)):
                    return base.elts[int(idx.v)]
                return Choice(list(base.elts))
        return None

    # ------------------------------------------------------------------ values
    def ev(self, node: ast.AST, env) -> object:
        if isinstance(node, ast.Constant):
            return Const(node.value)
        if isinstance(node, ast.Name):
            if node.id == "self" and "self" not in env:
                return Dom("M", self.main_is_boundary)
            return env.get(node.id, OPAQUE)
        d = self.designator(node, env)
        if d is not None:
            return d
        if isinstance(node, ast.Tuple):
            return Tup([self.ev(e, env) for e in node.elts])
        if isinstance(node, ast.List):
            return Lst([self.ev(e, env) for e in node.elts])
        if isinstance(node, (ast.ListComp, ast.GeneratorExp)) and len(node.generators) == 1 and not node.generators[0].ifs:
            g = node.generators[0]
            it = self.ev(g.iter, env)
            if isinstance(it, (Tup, Lst)):
                out = []
                for e in it.elts:
                    e2 = dict(env)
                    self.assign(g.target, e, e2)
                    out.append(self.ev(node.elt, e2))
                return Tup(out) if isinstance(node, ast.GeneratorExp) else Lst(out)
            if any(isinstance(n, ast.Call) and isinstance(n.func, ast.Attribute) and n.func.attr in ("sample_random_uniform", "sample_grid", "_contains") for n in ast.walk(node.elt)):
                raise Undecided(f"sampling inside a comprehension over a non-literal sequence: {dump(node)[:70]}")
            return OPAQUE
        if isinstance(node, ast.UnaryOp) and isinstance(node.op, ast.Not):
            v = self.ev(node.operand, env)
            if isinstance(v, Const):
                return Const(not v.v)
            if isinstance(v, Mask):
                return Mask(B.neg(v.f), v.about)
            return OPAQUE
        if isinstance(node, ast.UnaryOp) and isinstance(node.op, ast.Invert):
            v = self.ev(node.operand, env)
            if isinstance(v, Mask):
                return Mask(B.neg(v.f), v.about)
            return OPAQUE
        if isinstance(node, ast.BinOp) and isinstance(node.op, ast.BitOr):
            a, b = self.ev(node.left, env), self.ev(node.right, env)
            oa, ob = operands(a), operands(b)
            if oa is not None and ob is not None:
                return PSet(dedupe(oa + ob))
            if isinstance(a, Mask) and isinstance(b, Mask):
                return self.mask2(B.disj, a, b)
            if oa is not None or ob is not None:
                raise Undecided(f"`|` of a point set with {type(a if oa is None else b).__name__}: {dump(node)[:60]}")
            return OPAQUE
        if isinstance(node, ast.BinOp) and isinstance(node.op, ast.BitAnd):
            a, b = self.ev(node.left, env), self.ev(node.right, env)
            if isinstance(a, Mask) and isinstance(b, Mask):
                return self.mask2(B.conj, a, b)
            return OPAQUE
        if isinstance(node, ast.Attribute):
            v = self.ev(node.value, env)
            if node.attr in ("as_tensor", "_t") and isinstance(v, (Pts, PSet)):
                return v
            return OPAQUE
        if isinstance(node, ast.Subscript):
            return self.subscript(node, env)
        if isinstance(node, ast.Call):
            return self.call(node, env)
        if isinstance(node, ast.IfExp):
            t = self.ev(node.test, env)
            if isinstance(t, Const):
                return self.ev(node.body if t.v else node.orelse, env)
            a, b = self.ev(node.body, env), self.ev(node.orelse, env)
            return self.merge([a, b])
        if isinstance(node, ast.Compare):
            l = self.ev(node.left, env)
            r = self.ev(node.comparators[0], env) if len(node.comparators) == 1 else OPAQUE
            if isinstance(l, Const) and isinstance(r, Const) and len(node.ops) == 1:
                op = node.ops[0]
                try:
                    if isinstance(op, ast.Eq):
                        return Const(l.v == r.v)
                    if isinstance(op, ast.NotEq):
                        return Const(l.v != r.v)
                except Exception:
                    pass
            return OPAQUE
        return OPAQUE

    def mask2(self, op, a: Mask, b: Mask) -> Mask:
        about = a.about if a.about == b.about else (a.about if b.about is None else b.about if a.about is None else "mixed")
        if about == "mixed":
            raise Misuse("masks computed on different point sets are combined")
        return Mask(op(a.f, b.f), about)

    def unknown_mask(self) -> Mask:
        return Mask(B.var(f"u{next(self.fresh)}"), None)

    def subscript(self, node: ast.Subscript, env):
        base = self.ev(node.value, env)
        sl = node.slice
        elts = sl.elts if isinstance(sl, ast.Tuple) else [sl]
        if isinstance(base, Tup):
            i = self.ev(sl, env)
            if isinstance(i, Const) and isinstance(i.v, int) and i.v < len(base.elts):
                return base.elts[i.v]
            return OPAQUE
        if isinstance(base, Lst):
            i = self.ev(sl, env)
            if isinstance(i, Const) and isinstance(i.v, (int, bool)):
                return base.elts[int(i.v)]
            return OPAQUE
        if isinstance(base, Index):
            # idx[:n], idx[0] (tuple returned by torch.where)
            return base
        if isinstance(base, (Pts, PSet)):
            first = elts[0]
            if isinstance(first, ast.Slice):
                return base  # p[:n,] keeps facts
            iv = self.ev(first, env)
            if isinstance(iv, (Index, Mask)):
                ops = operands(base)
                if len(ops) != 1:
                    if iv.about is None:
                        return PSet([Pts(B.conj(o.facts, iv.f), origin=o.origin, packed=o.paired or o.packed, sel=iv) for o in ops])
                    raise Misuse(f"index applied to a union of point sets: {dump(node)[:70]}", node)
                p = ops[0]
                if iv.about is not None and iv.about != p.ident:
                    raise Misuse(f"rows of `{dump(node.value)}` selected with a mask/index computed on other points: {dump(node)[:80]}", node)
                return Pts(B.conj(p.facts, iv.f), origin=p.origin, packed=p.paired or p.packed, sel=iv)
            if isinstance(iv, Const):
                return base
            raise Undecided(f"selection `{dump(node)[:70]}` with an index the analysis does not understand")
        if isinstance(base, ZeroT):
            return OPAQUE
        return OPAQUE

    # ------------------------------------------------------------------- calls
    def call(self, node: ast.Call, env):
        fn = node.func
        ch = attr_chain(fn) or ""
        name = fn.attr if isinstance(fn, ast.Attribute) else (fn.id if isinstance(fn, ast.Name) else "")
        # sampling / membership on a designator
        if isinstance(fn, ast.Attribute) and name in ("sample_random_uniform", "sample_grid", "_contains"):
            d = self.designator(fn.value, env)
            if d is None:
                raise Undecided(f"receiver of `{dump(fn)}` is not an operand of the operation")
            if name == "_contains":
                p = self.arg(node, "points", 0, env)
                ops = operands(p)
                if ops is None:
                    raise Undecided(f"membership of something that is not a sampled point set: {dump(node)[:70]}")
                if len(ops) != 1:
                    raise Undecided(f"membership test on a union of point sets: {dump(node)[:70]}")
                if isinstance(d, Choice):
                    raise Undecided("membership in a dynamically chosen operand")
                if d.name == "Minner":
                    raise Undecided("membership in the inner domain of a boundary")
                return Mask(self.dom_mask_atom(d), ops[0].ident)
            if isinstance(d, Choice):
                f = B.FALSE
                for o in d.opts:
                    f = B.disj(f, self.dom_atom(o))
                return Pts(f, origin="|".join(("∂" if o.boundary else "") + o.name for o in d.opts))
            if d.name in ("M", "Minner"):
                raise Undecided("recursive sampling of the operation itself")
            nreq = next((k.value for k in node.keywords if k.arg == "n"), node.args[0] if node.args else None)
            pv = self.arg(node, "params", 2, env)
            req = self.symtext(nreq, env) if nreq is not None else None
            return Pts(self.dom_atom(d), origin=("∂" if d.boundary else "") + d.name, requested=req, paired=isinstance(pv, AllParams) and req == "1")
        if ch in ("torch.logical_not", "torch.bitwise_not") and len(node.args) == 1:
            v = self.ev(node.args[0], env)
            if isinstance(v, Mask):
                return Mask(B.neg(v.f), v.about)
            return self.unknown_mask()
        if ch in ("torch.logical_and", "torch.logical_or") and len(node.args) == 2:
            a, b = self.ev(node.args[0], env), self.ev(node.args[1], env)
            a = a if isinstance(a, Mask) else self.unknown_mask()
            b = b if isinstance(b, Mask) else self.unknown_mask()
            return self.mask2(B.conj if ch.endswith("and") else B.disj, a, b)
        if ch == "torch.where":
            if len(node.args) == 1:
                v = self.ev(node.args[0], env)
                if isinstance(v, Mask):
                    return Index(v.f, v.about)
                return Index(B.var(f"u{next(self.fresh)}"), None)
            if len(node.args) == 3:
                c, a, b = (self.ev(x, env) for x in node.args)
                oa, ob = operands(a), operands(b)
                if oa is not None and ob is not None and len(oa) == 1 and len(ob) == 1 and isinstance(c, Mask):
                    pa, pb = oa[0], ob[0]
                    fa = B.conj(pa.facts, c.f) if c.about == pa.ident else pa.facts
                    fb = B.conj(pb.facts, B.neg(c.f)) if c.about == pb.ident else pb.facts
                    return PSet([Pts(fa, origin=pa.origin), Pts(fb, origin=pb.origin)])
                if oa is not None or ob is not None:
                    raise Undecided(f"row-wise selection `{dump(node)[:70]}` not understood")
                return OPAQUE
        if (ch == "torch.nonzero" and len(node.args) == 1) or (name == "nonzero" and isinstance(fn, ast.Attribute) and not node.args and ch != "torch.nonzero"):
            # torch.nonzero(mask, as_tuple=True)[0] / torch.nonzero(mask)[:, 0]: the row numbers where the mask holds, like torch.where(mask)[0]
            v = self.ev(node.args[0] if node.args else fn.value, env)
            if isinstance(v, Mask):
                return Index(v.f, v.about)
            return Index(B.var(f"u{next(self.fresh)}"), None)
        if ch in ("torch.zeros", "torch.zeros_like", "torch.empty"):
            return ZeroT()
        if ch in ("Points.empty",):
            return PSet([])
        if ch == "Points" and node.args:
            v = self.ev(node.args[0], env)
            if isinstance(v, ZeroT):
                if not v.stores:
                    raise Undecided("Points built from a tensor that never received sampled rows")
                return PSet(dedupe(v.stores))
            if operands(v) is not None:
                return v
            return OPAQUE
        if ch == "len" and len(node.args) == 1:
            v = self.ev(node.args[0], env)
            if isinstance(v, Index):
                return Count(v)
            return OPAQUE
        if ch in ("len", "int", "max", "min", "all", "any", "float", "torch.ceil", "torch.rand", "torch.rand_like", "torch.divide", "warnings.warn", "range"):
            if ch == "torch.rand":
                return OPAQUE
            return OPAQUE
        if isinstance(fn, ast.Attribute) and name in ("_repeat_params", "volume", "_get_volume", "len_of_params", "compute_n_from_density", "join", "repeat"):
            return OPAQUE
        if ch == "torch.cat" and node.args and isinstance(node.args[0], (ast.List, ast.Tuple)):
            vals = [self.ev(e, env) for e in node.args[0].elts]
            if all(operands(v) is not None for v in vals):
                d = next((k.value for k in node.keywords if k.arg == "dim"), node.args[1] if len(node.args) > 1 else None)
                if d is None or dump(d) == "0":
                    return PSet(dedupe([o for v in vals for o in operands(v)]))
                raise Undecided("concatenation of point sets along a non-row axis")
            return OPAQUE
        # helper functions: methods of the class or module-level functions
        target = None
        if isinstance(fn, ast.Attribute) and attr_chain(fn.value) == "self":
            target = self.repo.resolve_method(self.cls, name)
            bind_self = True
        elif isinstance(fn, ast.Attribute) and attr_chain(fn.value) == "self.domain" and self.main_is_boundary:
            inner = self._inner_class()
            target = self.repo.resolve_method(inner, name) if inner else None
            bind_self = True
            if target is not None:
                return self.run_function(target, node, env, self_dom=Dom("Minner"))
        elif isinstance(fn, ast.Name) and isinstance(env.get(fn.id), LocalFn):
            lf = env[fn.id]
            fi = FuncInfo(name=lf.node.name, qual=f"{self.stack[-1].qual}.<locals>.{lf.node.name}", node=lf.node, module=self.cur_module, cls=None)
            return self.run_function(fi, node, env, closure=lf.env)
        elif isinstance(fn, ast.Name):
            got = self.repo.lookup(self.cur_module, fn.id)
            if isinstance(got, FuncInfo):
                target = got
            bind_self = False
        if target is not None:
            return self.run_function(target, node, env)
        # comparison-like tensor expressions produce unknown masks
        return OPAQUE

    def _inner_class(self) -> Optional[ClassInfo]:
        from ..props.c05 import _domain_class_of
        init = self.cls.methods.get("__init__")
        if init is None:
            return None
        for a in init.node.args.args:
            if a.annotation is not None:
                got = self.repo.lookup(self.cls.module, dump(a.annotation))
                if isinstance(got, ClassInfo):
                    return got
        return None

    def symtext(self, node: ast.AST, env) -> str:
        """text of an expression with every name that stands for a caller's / earlier expression replaced by it"""
        import copy

        class Sub(ast.NodeTransformer):
            def visit_Name(s, n):
                v = env.get(n.id)
                if isinstance(v, Sym):
                    return ast.parse(v.text, mode="eval").body
                if isinstance(v, Const) and isinstance(v.v, (int, float, bool, str, type(None))):
                    return ast.Constant(v.v)
                return n
        return dump(Sub().visit(copy.deepcopy(node)))

    def arg(self, call: ast.Call, name: str, pos: int, env):
        for k in call.keywords:
            if k.arg == name:
                return self.ev(k.value, env)
        if pos < len(call.args):
            return self.ev(call.args[pos], env)
        return OPAQUE

    def merge(self, vals: list):
        vals = [v for v in vals if v is not None]
        if not vals:
            return OPAQUE
        if len(vals) == 1:
            return vals[0]
        if all(isinstance(v, (Dom, Choice)) for v in vals):
            # a helper / conditional expression that hands back one of several operands: whichever was chosen
            opts = []
            for v in vals:
                for o in (v.opts if isinstance(v, Choice) else [v]):
                    if o not in opts:
                        opts.append(o)
            return opts[0] if len(opts) == 1 else Choice(opts)
        if all(operands(v) is not None for v in vals):
            return PSet(dedupe([o for v in vals for o in operands(v)]))
        if all(isinstance(v, Tup) for v in vals) and len({len(v.elts) for v in vals}) == 1:
            return Tup([self.merge([v.elts[i] for v in vals]) for i in range(len(vals[0].elts))])
        if all(isinstance(v, Index) for v in vals) and len({(B.show(v.f), v.about) for v in vals}) == 1:
            return vals[0]
        if all(isinstance(v, Const) for v in vals) and len({repr(v.v) for v in vals}) == 1:
            return vals[0]
        if any(operands(v) for v in vals):  # non-empty point sets mixed with something else
            raise Undecided("a value is a sampled point set on some paths and something else on others")
        return OPAQUE

    # --------------------------------------------------------------- functions
    def run_function(self, fi: FuncInfo, call: Optional[ast.Call], env, depth_guard=None, self_dom=None, closure=None):
        if len(self.stack) >= MAX_DEPTH:
            raise Undecided(f"helper nesting deeper than {MAX_DEPTH} at {fi.fq}")
        if fi in self.stack:
            raise Undecided(f"recursion through {fi.fq}")
        self.visited.append(fi)
        a = fi.node.args
        params = [x.arg for x in a.posonlyargs + a.args]
        new_env: Dict[str, object] = dict(closure) if closure is not None else {}
        if fi.cls is not None and params and params[0] == "self":
            params = params[1:]
        given: Dict[str, object] = {}
        if call is not None:
            def bound(v):
                got = self.ev(v, env)
                return Sym("(" + self.symtext(v, env) + ")") if got is OPAQUE else got
            for p, v in zip(params, call.args):
                given[p] = bound(v)
            for k in call.keywords:
                if k.arg in params:
                    given[k.arg] = bound(k.value)
        defaults = dict(zip(params[len(params) - len(a.defaults):], a.defaults)) if a.defaults else {}
        for p in params:
            if p in given:
                new_env[p] = given[p]
            else:
                new_env[p] = self.ev(defaults[p], {}) if p in defaults and isinstance(defaults[p], ast.Constant) else OPAQUE
        self.stack.append(fi)
        prev_mod = self.cur_module
        self.cur_module = fi.module
        try:
            rets: List[object] = []
            self.block(fi.node.body, new_env, rets)
        finally:
            self.stack.pop()
            self.cur_module = prev_mod
        return self.merge(rets)

    def entry(self, fi: FuncInfo, bindings: Dict[str, object]):
        """interpret an entry point; returns the list of values of its `return`s (not merged) with line numbers"""
        self.stack: List[FuncInfo] = [fi]
        self.cur_module: Module = fi.module
        self.visited.append(fi)
        env = dict(bindings)
        rets: List[object] = []
        self.ret_sites: List[ast.AST] = []
        self.block(fi.node.body, env, rets, record_sites=True)
        return rets

    def block(self, stmts, env, rets, record_sites=False) -> bool:
        """returns True when every path through the block has returned/raised"""
        for s in stmts:
            if self.stmt(s, env, rets, record_sites):
                return True
        return False

    def assign(self, target, val, env):
        if isinstance(target, ast.Name):
            env[target.id] = val
        elif isinstance(target, (ast.Tuple, ast.List)):
            if isinstance(val, (Tup, Lst)) and len(val.elts) == len(target.elts):
                for t, v in zip(target.elts, val.elts):
                    self.assign(t, v, env)
            else:
                for t in target.elts:
                    self.assign(t, OPAQUE, env)
        elif isinstance(target, ast.Subscript) and isinstance(target.value, ast.Name):
            base = env.get(target.value.id)
            if isinstance(base, ZeroT):
                # final[idx] = new.as_tensor[idx]
                ops = operands(val)
                if ops is None:
                    return
                idx = self.ev(target.slice, env)
                for o in ops:
                    if o.packed and isinstance(idx, (Index, Mask)) and isinstance(o.sel, (Index, Mask)) and idx.about == o.sel.about and B.show(idx.f) == B.show(o.sel.f):
                        # buffer[idx] = rows[idx]: every accepted row goes to its own slot
                        o = Pts(o.facts, origin=o.origin, paired=True)
                    base.stores.append(o)
            elif operands(base) is not None and operands(val) is not None:
                raise Undecided("rows of a sampled point set are overwritten")

    def refine_all_valid(self, test, e_true, env):
        """`if len(index) == n:` where the indexed set was sampled with n rows: in the true branch every row of
        that set satisfies the index formula (assumes the operand sampler returns exactly the requested n rows: C02)"""
        if not (isinstance(test, ast.Compare) and len(test.ops) == 1 and isinstance(test.ops[0], ast.Eq)):
            return
        l, r = self.ev(test.left, env), self.ev(test.comparators[0], env)
        cnt, other_node = (l, test.comparators[0]) if isinstance(l, Count) else (r, test.left) if isinstance(r, Count) else (None, None)
        if cnt is None or cnt.idx.about is None:
            return
        for k, v in list(e_true.items()):
            if isinstance(v, Pts) and v.ident == cnt.idx.about:
                # the comparison partner must be the row count the set was requested with
                if v.requested is not None and self.symtext(other_node, env) == v.requested:
                    nv = Pts(B.conj(v.facts, cnt.idx.f), ident=v.ident, origin=v.origin)
                    nv.requested = v.requested
                    e_true[k] = nv

    def stmt(self, s, env, rets, record_sites) -> bool:
        if isinstance(s, ast.Return):
            v = self.ev(s.value, env) if s.value is not None else OPAQUE
            rets.append(v)
            if record_sites:
                self.ret_sites.append(s)
            return True
        if isinstance(s, ast.Raise):
            return True
        if isinstance(s, ast.FunctionDef) and not s.decorator_list:
            env[s.name] = LocalFn(s, env)  # late binding of the enclosing names, as in Python
            return False
        if isinstance(s, ast.Assign):
            v = self.ev(s.value, env)
            if v is OPAQUE and all(isinstance(t, ast.Name) for t in s.targets):
                v = Sym("(" + self.symtext(s.value, env) + ")")
            for t in s.targets:
                self.assign(t, v, env)
            return False
        if isinstance(s, ast.AugAssign):
            if isinstance(s.target, ast.Name):
                cur = env.get(s.target.id, OPAQUE)
                if operands(cur) is not None:
                    if isinstance(s.op, ast.BitOr):
                        v = self.ev(s.value, env)
                        if operands(v) is not None:
                            env[s.target.id] = PSet(dedupe(operands(cur) + operands(v)))
                            return False
                    raise Undecided(f"in-place arithmetic on a sampled point set: {dump(s)[:60]}")
                env[s.target.id] = Sym(f"_aug{next(self.fresh)}")
            return False
        if isinstance(s, ast.Expr):
            if isinstance(s.value, ast.Call):
                self.ev(s.value, env)
            return False
        if isinstance(s, ast.If):
            t = self.ev(s.test, env)
            if isinstance(t, Const):
                return self.block(s.body if t.v else s.orelse, env, rets, record_sites)
            e1, e2 = dict(env), dict(env)
            self.refine_all_valid(s.test, e1, env)
            d1 = self.block(s.body, e1, rets, record_sites)
            d2 = self.block(s.orelse, e2, rets, record_sites)
            if d1 and d2:
                return True
            if d1:
                env.clear(), env.update(e2)
            elif d2:
                env.clear(), env.update(e1)
            else:
                merged = {}
                for k in set(e1) | set(e2):
                    a, b = e1.get(k), e2.get(k)
                    if a is b:
                        merged[k] = a
                    else:
                        try:
                            merged[k] = self.merge([a if a is not None else OPAQUE, b if b is not None else OPAQUE])
                        except Undecided:
                            merged[k] = OPAQUE
                env.clear(), env.update(merged)
            return False
        if isinstance(s, (ast.For, ast.While)):
            if isinstance(s, ast.For):
                for n in ast.walk(s.target):
                    if isinstance(n, ast.Name):
                        env[n.id] = OPAQUE
            for _ in range(2):  # accumulators reach their fix-point (sets of facts) after one round
                if self.block(s.body, env, rets, record_sites):
                    break
            return False
        if isinstance(s, (ast.Assert, ast.Pass, ast.Import, ast.ImportFrom)):
            return False
        if isinstance(s, ast.With):
            return self.block(s.body, env, rets, record_sites)
        if isinstance(s, ast.Try):
            return self.block(s.body, env, rets, record_sites)
        raise Undecided(f"statement {type(s).__name__} in a sampling function")

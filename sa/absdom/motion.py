"""Vector terms under rigid motions: formal linear combinations  Σ c · W·v  where v is a
vector atom and W a word over operator symbols (matrix `M`, its solve-inverse `S`)
reduced by S·M = M·S = ε.  Shape-only operations (reshape / squeeze / unsqueeze /
as_tensor) are transparent.  Used to prove pull-back ∘ push-forward = id."""
from __future__ import annotations

import ast
from fractions import Fraction
from typing import Callable, Dict, Optional, Tuple

from ..flow import attr_chain, dump

Term = Dict[Tuple[str, str], Fraction]  # (operator word, atom) -> coefficient


class NotMotion(Exception):
    pass


def _reduce(word: str) -> str:
    prev = None
    while prev != word:
        prev = word
        word = word.replace("SM", "").replace("MS", "")
    return word


def t_atom(name: str) -> Term:
    return {("", name): Fraction(1)}


def t_add(a: Term, b: Term, sign=1) -> Term:
    out = dict(a)
    for k, c in b.items():
        out[k] = out.get(k, Fraction(0)) + sign * c
    return {k: c for k, c in out.items() if c != 0}


def t_apply(op: str, a: Term) -> Term:
    out: Term = {}
    for (w, v), c in a.items():
        k = (_reduce(op + w), v)
        out[k] = out.get(k, Fraction(0)) + c
    return {k: c for k, c in out.items() if c != 0}


def t_subst(a: Term, name: str, b: Term) -> Term:
    out: Term = {}
    for (w, v), c in a.items():
        if v == name:
            for (w2, v2), c2 in b.items():
                k = (_reduce(w + w2), v2)
                out[k] = out.get(k, Fraction(0)) + c * c2
        else:
            out[(w, v)] = out.get((w, v), Fraction(0)) + c
    return {k: c for k, c in out.items() if c != 0}


def t_show(a: Term) -> str:
    if not a:
        return "0"
    parts = []
    for (w, v), c in sorted(a.items()):
        s = ("" if c == 1 else "-" if c == -1 else f"{c}*") + (w + "·" if w else "") + v
        parts.append(s)
    return " + ".join(parts).replace("+ -", "- ")


TRANSPARENT_METHODS = ("reshape", "view", "squeeze", "unsqueeze", "float", "to", "clone", "contiguous", "expand_as")


def to_term(expr: ast.AST, atom: Callable[[ast.AST], Optional[object]]) -> Term:
    """atom(node) -> Term for a vector atom, ('matrix',) marker string 'M' for the rotation
    matrix, or None."""
    got = atom(expr)
    if isinstance(got, dict):
        return got
    if isinstance(expr, ast.BinOp) and isinstance(expr.op, (ast.Add, ast.Sub)):
        return t_add(to_term(expr.left, atom), to_term(expr.right, atom), 1 if isinstance(expr.op, ast.Add) else -1)
    if isinstance(expr, ast.UnaryOp) and isinstance(expr.op, ast.USub):
        return t_add({}, to_term(expr.operand, atom), -1)
    if isinstance(expr, ast.Attribute) and expr.attr in ("as_tensor", "_t", "T") and expr.attr != "T":
        return to_term(expr.value, atom)
    if isinstance(expr, ast.Call):
        fn = expr.func
        ch = attr_chain(fn)
        if isinstance(fn, ast.Attribute) and fn.attr in TRANSPARENT_METHODS and atom(fn.value) != "M":
            return to_term(fn.value, atom)
        name = fn.attr if isinstance(fn, ast.Attribute) else None
        if name in ("matmul", "bmm", "solve") and len(expr.args) == 2 and ch and ch.split(".")[0] == "torch":
            if atom(_strip_shape(expr.args[0])) == "M":
                return t_apply("M" if name != "solve" else "S", to_term(expr.args[1], atom))
            a0 = _strip_shape(expr.args[0])
            if isinstance(a0, ast.Call) and isinstance(a0.func, ast.Attribute) and a0.func.attr in ("transpose", "permute", "t") and atom(_strip_shape(a0.func.value)) == "M" and name != "solve":
                # the transposed matrix: the inverse only of an orthogonal matrix — an operator of its own (no cancellation with M)
                return t_apply("T", to_term(expr.args[1], atom))
            if isinstance(a0, ast.Call) and attr_chain(a0.func) in ("torch.linalg.inv", "torch.inverse", "torch.linalg.pinv") and a0.args and atom(_strip_shape(a0.args[0])) == "M" and name != "solve":
                return t_apply("S", to_term(expr.args[1], atom))
        if name in ("add", "sub", "subtract") and len(expr.args) == 2 and ch and ch.split(".")[0] == "torch":
            return t_add(to_term(expr.args[0], atom), to_term(expr.args[1], atom), 1 if name == "add" else -1)
    if isinstance(expr, ast.Subscript) and isinstance(expr.slice, ast.Tuple) and expr.slice.elts and isinstance(expr.slice.elts[-1], ast.Constant) and expr.slice.elts[-1].value == 0 \
            and all((isinstance(e, ast.Constant) and e.value is Ellipsis) or (isinstance(e, ast.Slice) and e.lower is None and e.upper is None and e.step is None) for e in expr.slice.elts[:-1]):
        # X[..., 0] of a product with a column vector v.unsqueeze(-1): the same as .squeeze(-1)
        inner = expr.value
        if isinstance(inner, ast.Call) and attr_chain(inner.func) in ("torch.matmul", "torch.bmm", "torch.linalg.solve") and len(inner.args) == 2:
            col = inner.args[1]
            if isinstance(col, ast.Call) and isinstance(col.func, ast.Attribute) and col.func.attr == "unsqueeze" and col.args and dump(col.args[0]) in ("-1", "2"):
                return to_term(inner, atom)
    if isinstance(expr, ast.BinOp) and isinstance(expr.op, ast.MatMult):
        if atom(_strip_shape(expr.left)) == "M":
            return t_apply("M", to_term(expr.right, atom))
    raise NotMotion(f"not a rigid-motion term: {dump(expr)[:100]}")


def _strip_shape(e: ast.AST) -> ast.AST:
    while isinstance(e, ast.Call) and isinstance(e.func, ast.Attribute) and e.func.attr in TRANSPARENT_METHODS:
        e = e.func.value
    return e

"""Axis-role interpretation of tensor re-arrangements.  A tensor is a list of axes; an
axis is a tuple of role names in row-major order (('F',) a function axis, ('P','N')
an axis of size P*N whose index is p*N + n, ('1',) a singleton).  Supported:
unsqueeze / squeeze / repeat / expand / repeat_interleave / transpose / permute /
reshape / matmul / elementwise broadcasting / sum.  A reshape whose requested sizes
do not fall on role boundaries scrambles the layout (Scrambled)."""
from __future__ import annotations

import ast
from typing import Callable, Dict, List, Optional, Tuple

from ..flow import attr_chain, dump

Axis = Tuple[str, ...]
ONE: Axis = ("1",)


class NotAxes(Exception):
    pass


class Scrambled(Exception):
    pass


def _norm(ax: Axis) -> Axis:
    r = tuple(x for x in ax if x != "1")
    return r if r else ONE


class AxesEval:
    def __init__(self, atom: Callable[[ast.AST], Optional[List[Axis]]], size_role: Callable[[ast.AST, "AxesEval"], Optional[str]]):
        self.atom = atom
        self.size_role = size_role

    def role_of_size(self, e: ast.AST) -> Optional[str]:
        if isinstance(e, ast.Constant) and e.value == 1:
            return "1"
        if isinstance(e, ast.Constant) and e.value == -1:
            return "-1"
        if isinstance(e, ast.UnaryOp) and isinstance(e.op, ast.USub) and isinstance(e.operand, ast.Constant) and e.operand.value == 1:
            return "-1"
        if isinstance(e, ast.Name) and e.id.startswith("__role_"):
            return e.id[7:]
        r = self.size_role(e, self)
        if r is not None:
            return r
        # X.shape[k]
        if isinstance(e, ast.Subscript) and isinstance(e.value, ast.Attribute) and e.value.attr == "shape" and isinstance(e.slice, ast.Constant):
            base = self.ev(e.value.value)
            ax = base[e.slice.value]
            if len(ax) == 1:
                return ax[0]
        return None

    def ev(self, e: ast.AST) -> List[Axis]:
        got = self.atom(e)
        if got is not None:
            return list(got)
        if isinstance(e, ast.Attribute) and e.attr in ("as_tensor", "_t"):
            return self.ev(e.value)
        if isinstance(e, ast.BinOp) and isinstance(e.op, (ast.Mult, ast.Add, ast.Sub, ast.Div)):
            return self.broadcast(self.ev(e.left), self.ev(e.right))
        if isinstance(e, ast.Call):
            fn = e.func
            ch = attr_chain(fn) or ""
            name = fn.attr if isinstance(fn, ast.Attribute) else ""
            is_mod = ch.startswith("torch.")
            if is_mod:
                args = list(e.args)
                recv = None
            else:
                recv = fn.value if isinstance(fn, ast.Attribute) else None
                args = list(e.args)
            kw = {k.arg: k.value for k in e.keywords}

            def dimarg(pos, key="dim"):
                d = kw.get(key, args[pos] if len(args) > pos else None)
                if isinstance(d, ast.UnaryOp) and isinstance(d.op, ast.USub) and isinstance(d.operand, ast.Constant):
                    return -d.operand.value
                if isinstance(d, ast.Constant) and isinstance(d.value, int):
                    return d.value
                raise NotAxes("non-constant dim")
            if name == "unsqueeze":
                base = self.ev(args[0] if is_mod else recv)
                k = dimarg(1 if is_mod else 0)
                if k < 0:
                    k += len(base) + 1
                return base[:k] + [ONE] + base[k:]
            if name == "squeeze":
                base = self.ev(args[0] if is_mod else recv)
                k = dimarg(1 if is_mod else 0)
                if k < 0:
                    k += len(base)
                if base[k] != ONE:
                    return base
                return base[:k] + base[k + 1:]
            if name in ("repeat", "tile") and recv is not None:
                base = self.ev(recv)
                reps = args
                if len(reps) == 1 and isinstance(reps[0], (ast.Tuple, ast.List)):
                    reps = reps[0].elts
                roles = [self.role_of_size(r) for r in reps]
                if any(r is None or r == "-1" for r in roles):
                    raise NotAxes(f"repeat count {[dump(r) for r in reps]}")
                base = [ONE] * (len(roles) - len(base)) + base
                out = []
                for ax, r in zip(base, roles):
                    out.append(ax if r == "1" else _norm((r,) + ax))
                return out
            if name == "expand" and recv is not None:
                base = self.ev(recv)
                roles = [self.role_of_size(r) for r in args]
                base = [ONE] * (len(roles) - len(base)) + base
                out = []
                for ax, r in zip(base, roles):
                    if r in ("-1", None) or ax != ONE:
                        out.append(ax)
                    else:
                        out.append((r,) if r != "1" else ONE)
                return out
            if name == "repeat_interleave":
                base = self.ev(args[0] if is_mod else recv)
                cnt = args[1] if is_mod else args[0]
                r = self.role_of_size(cnt)
                if r is None:
                    raise NotAxes("repeat_interleave count")
                k = dimarg(2 if is_mod else 1)
                if k < 0:
                    k += len(base)
                base = list(base)
                base[k] = base[k] if r == "1" else _norm(base[k] + (r,))
                return base
            if name in ("transpose", "swapaxes", "swapdims"):
                base = list(self.ev(args[0] if is_mod else recv))
                a, b = dimarg(1 if is_mod else 0, "dim0"), dimarg(2 if is_mod else 1, "dim1")
                base[a], base[b] = base[b], base[a]
                return base
            if name == "permute":
                base = self.ev(args[0] if is_mod else recv)
                order = args[1:] if is_mod else args
                if len(order) == 1 and isinstance(order[0], (ast.Tuple, ast.List)):
                    order = order[0].elts
                idx = [o.value if isinstance(o, ast.Constant) else -o.operand.value for o in order]
                return [base[i] for i in idx]
            if name in ("reshape", "view") and recv is not None:
                base = self.ev(recv)
                sizes = args
                if len(sizes) == 1 and isinstance(sizes[0], (ast.Tuple, ast.List)):
                    sizes = sizes[0].elts
                sizes = self._expand_starred(sizes)
                seq: List[str] = [r for ax in base for r in ax if r != "1"]
                roles = [self.role_of_size(s) for s in sizes]
                if any(r is None for r in roles):
                    raise NotAxes(f"reshape sizes {[dump(s) for s in sizes]}")
                out: List[Axis] = []
                # consume from the left up to the -1, then from the right
                left = []
                i = 0
                while i < len(roles) and roles[i] != "-1":
                    left.append(roles[i])
                    i += 1
                right = roles[i + 1:] if i < len(roles) else []
                pos = 0
                for r in left:
                    if r == "1":
                        out.append(ONE)
                        continue
                    if pos >= len(seq) or seq[pos] != r:
                        raise Scrambled(f"reshape to {[dump(s) for s in sizes]} splits the flattened layout {seq} at `{r}` where `{seq[pos] if pos < len(seq) else 'end'}` comes next")
                    out.append((r,))
                    pos += 1
                end = len(seq)
                tail: List[Axis] = []
                for r in reversed(right):
                    if r == "1":
                        tail.insert(0, ONE)
                        continue
                    if end - 1 < pos or seq[end - 1] != r:
                        raise Scrambled(f"reshape to {[dump(s) for s in sizes]} ends the flattened layout {seq} with `{r}` where `{seq[end - 1] if end - 1 >= 0 else 'start'}` is last")
                    tail.insert(0, (r,))
                    end -= 1
                if i < len(roles):
                    mid = tuple(seq[pos:end])
                    out.append(mid if mid else ONE)
                elif pos != end:
                    raise Scrambled(f"reshape to {[dump(s) for s in sizes]} does not cover the layout {seq}")
                return out + tail
            if name in ("matmul", "bmm") :
                a, b = (self.ev(args[0]), self.ev(args[1])) if is_mod else (self.ev(recv), self.ev(args[0]))
                if len(a) < 2 or len(b) < 2:
                    raise NotAxes("matmul rank")
                if _norm(a[-1]) != _norm(b[-2]):
                    raise Scrambled(f"matmul contracts axis {a[-1]} with axis {b[-2]}")
                batch = self.broadcast(a[:-2], b[:-2])
                return batch + [a[-2], b[-1]]
            if name == "sum":
                base = self.ev(args[0] if is_mod else recv)
                k = dimarg(1 if is_mod else 0)
                if k < 0:
                    k += len(base)
                keep = kw.get("keepdim")
                if keep is not None and dump(keep) == "True":
                    return base[:k] + [ONE] + base[k + 1:]
                return base[:k] + base[k + 1:]
            if name in ("float", "to", "clone", "contiguous", "double") and recv is not None:
                return self.ev(recv)
            if name in ("cos", "sin", "tanh", "exp", "relu", "sigmoid", "abs", "sqrt", "square", "neg") and (args or recv is not None):
                return self.ev(args[0] if is_mod else recv)
            if name in ("cat", "concat") and args and isinstance(args[0], (ast.List, ast.Tuple)):
                vals = [self.ev(x) for x in args[0].elts]
                k = dimarg(1)
                n = len(vals[0])
                if k < 0:
                    k += n
                if any(len(v) != n for v in vals):
                    raise Scrambled("concatenation of tensors of different rank")
                out = []
                for i in range(n):
                    if i == k:
                        roles = tuple(r for v in vals for r in v[i] if r != "1")
                        out.append(("cat:" + "+".join(roles),) if len(vals) > 1 else vals[0][i])
                    else:
                        col = {v[i] for v in vals}
                        if len(col) != 1:
                            raise Scrambled(f"concatenated tensors disagree on axis {i}: {sorted(col)}")
                        out.append(vals[0][i])
                return out
        raise NotAxes(f"not an axis re-arrangement: {dump(e)[:70]}")

    def _expand_starred(self, sizes):
        """*X.shape[a:b] -> the sizes of those axes; *([1] * X.dim()) -> that many ones"""
        out = []
        for sz in sizes:
            if not isinstance(sz, ast.Starred):
                out.append(sz)
                continue
            v = sz.value
            if isinstance(v, ast.Subscript) and isinstance(v.value, ast.Attribute) and v.value.attr == "shape" and isinstance(v.slice, ast.Slice):
                base = self.ev(v.value.value)
                lo = v.slice.lower.value if isinstance(v.slice.lower, ast.Constant) else (None if v.slice.lower is None else -v.slice.lower.operand.value)
                hi = v.slice.upper.value if isinstance(v.slice.upper, ast.Constant) else (None if v.slice.upper is None else -v.slice.upper.operand.value)
                for ax in base[lo:hi]:
                    if len(ax) != 1:
                        raise NotAxes("composite axis used as a size")
                    out.append(ast.Name(id=f"__role_{ax[0]}", ctx=ast.Load()))
                continue
            if isinstance(v, ast.BinOp) and isinstance(v.op, ast.Mult) and isinstance(v.left, ast.List) and len(v.left.elts) == 1 and dump(v.left.elts[0]) == "1" \
                    and isinstance(v.right, ast.Call) and isinstance(v.right.func, ast.Attribute) and v.right.func.attr in ("dim", "ndimension"):
                rank = len(self.ev(v.right.func.value))
                out.extend([ast.Constant(value=1)] * rank)
                continue
            if isinstance(v, ast.BinOp) and isinstance(v.op, ast.Mult) and isinstance(v.left, ast.List) and len(v.left.elts) == 1 and dump(v.left.elts[0]) == "1" \
                    and isinstance(v.right, ast.Call) and attr_chain(v.right.func) == "len" and len(v.right.args) == 1 and isinstance(v.right.args[0], ast.Attribute) and v.right.args[0].attr == "shape":
                rank = len(self.ev(v.right.args[0].value))  # canonical form of X.dim()
                out.extend([ast.Constant(value=1)] * rank)
                continue
            raise NotAxes(f"starred size {dump(v)[:50]}")
        return out

    @staticmethod
    def broadcast(a: List[Axis], b: List[Axis]) -> List[Axis]:
        n = max(len(a), len(b))
        a = [ONE] * (n - len(a)) + list(a)
        b = [ONE] * (n - len(b)) + list(b)
        out = []
        for x, y in zip(a, b):
            if x == y or y == ONE:
                out.append(x)
            elif x == ONE:
                out.append(y)
            else:
                raise Scrambled(f"elementwise operation pairs axis {x} with axis {y}")
        return out

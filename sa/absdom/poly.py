"""Rational functions over named atoms with Fraction coefficients and rational
exponents on monomials.  Equality is decided by normal form (cross
multiplication), so any algebraically equivalent rewriting compares equal."""
from __future__ import annotations

import ast
from fractions import Fraction
from typing import Callable, Dict, Optional, Tuple

Mono = Tuple[Tuple[str, Fraction], ...]


class NotPoly(Exception):
    pass


def _mono_mul(a: Mono, b: Mono) -> Mono:
    d: Dict[str, Fraction] = dict(a)
    for k, e in b:
        d[k] = d.get(k, Fraction(0)) + e
    return tuple(sorted((k, e) for k, e in d.items() if e != 0))


class Poly:
    __slots__ = ("t",)

    def __init__(self, terms: Dict[Mono, Fraction] = None):
        self.t = {m: c for m, c in (terms or {}).items() if c != 0}

    @staticmethod
    def const(c) -> "Poly":
        return Poly({(): Fraction(c)})

    @staticmethod
    def atom(name: str, exp=1) -> "Poly":
        return Poly({((name, Fraction(exp)),): Fraction(1)})

    def __add__(self, o):
        d = dict(self.t)
        for m, c in o.t.items():
            d[m] = d.get(m, Fraction(0)) + c
        return Poly(d)

    def __neg__(self):
        return Poly({m: -c for m, c in self.t.items()})

    def __sub__(self, o):
        return self + (-o)

    def __mul__(self, o):
        d: Dict[Mono, Fraction] = {}
        for m1, c1 in self.t.items():
            for m2, c2 in o.t.items():
                m = _mono_mul(m1, m2)
                d[m] = d.get(m, Fraction(0)) + c1 * c2
        return Poly(d)

    def is_zero(self):
        return not self.t

    def is_monomial(self):
        return len(self.t) == 1

    def __eq__(self, o):
        return isinstance(o, Poly) and self.t == o.t

    def __hash__(self):
        return hash(tuple(sorted(self.t.items())))

    def pow_frac(self, e: Fraction) -> "Poly":
        if e.denominator == 1 and e >= 0:
            r = Poly.const(1)
            for _ in range(int(e)):
                r = r * self
            return r
        if not self.is_monomial():
            raise NotPoly("fractional/negative power of a sum")
        (m, c), = self.t.items()
        if c < 0 and e.denominator != 1:
            raise NotPoly("root of negative coefficient")
        if e.denominator == 1:
            cc = Fraction(c) ** int(e)
            return Poly({tuple((k, x * e) for k, x in m): cc})
        # c^(p/q): keep exact only if c is a perfect power, else symbolic atom
        num, den = c.numerator, c.denominator
        rn, rd = _iroot(num, e.denominator), _iroot(den, e.denominator)
        mono = tuple((k, x * e) for k, x in m)
        if rn is not None and rd is not None:
            cc = Fraction(rn, rd) ** e.numerator
            return Poly({mono: cc})
        mono = _mono_mul(mono, ((f"#{c}", e),))
        return Poly({mono: Fraction(1)})

    def atoms(self):
        return {k for m in self.t for k, _ in m}

    def __repr__(self):
        if not self.t:
            return "0"
        parts = []
        for m, c in sorted(self.t.items(), key=lambda x: repr(x[0])):
            ms = "*".join(k if e == 1 else f"{k}^{e}" for k, e in m)
            if not ms:
                parts.append(str(c))
            elif c == 1:
                parts.append(ms)
            else:
                parts.append(f"{c}*{ms}")
        return " + ".join(parts)


def _iroot(n: int, k: int) -> Optional[int]:
    if n < 0:
        return None
    r = round(n ** (1.0 / k))
    for c in (r - 1, r, r + 1):
        if c >= 0 and c ** k == n:
            return c
    return None


class RF:
    """num/den"""
    __slots__ = ("n", "d")

    def __init__(self, n: Poly, d: Poly = None):
        self.n = n
        self.d = d if d is not None else Poly.const(1)
        if self.d.is_zero():
            raise NotPoly("division by zero")
        # normalise monomial denominators into the numerator
        if self.d.is_monomial():
            inv = self.d.pow_frac(Fraction(-1))
            self.n = self.n * inv
            self.d = Poly.const(1)

    @staticmethod
    def const(c):
        return RF(Poly.const(c))

    @staticmethod
    def atom(name, exp=1):
        return RF(Poly.atom(name, exp))

    def __add__(self, o):
        return RF(self.n * o.d + o.n * self.d, self.d * o.d)

    def __sub__(self, o):
        return RF(self.n * o.d - o.n * self.d, self.d * o.d)

    def __neg__(self):
        return RF(-self.n, self.d)

    def __mul__(self, o):
        return RF(self.n * o.n, self.d * o.d)

    def __truediv__(self, o):
        if o.n.is_zero():
            raise NotPoly("division by zero")
        return RF(self.n * o.d, self.d * o.n)

    def pow(self, e: Fraction):
        if e.denominator == 1 and e >= 0:
            return RF(self.n.pow_frac(e), self.d.pow_frac(e))
        if e.denominator == 1 and e < 0:
            return RF(self.d.pow_frac(-e), self.n.pow_frac(-e))
        return RF(self.n.pow_frac(e), self.d.pow_frac(e))

    def __eq__(self, o):
        return isinstance(o, RF) and (self.n * o.d) == (o.n * self.d)

    def __hash__(self):
        return hash((self.n, self.d))

    def is_const(self):
        return self.d == Poly.const(1) and all(m == () for m in self.n.t)

    def const_value(self) -> Optional[Fraction]:
        if self.is_const():
            return self.n.t.get((), Fraction(0))
        return None

    def atoms(self):
        return self.n.atoms() | self.d.atoms()

    def coeff_of(self, atom: str) -> "RF":
        """coefficient polynomial of atom^1 when the numerator is linear in it and
        the denominator does not contain it."""
        if atom in self.d.atoms():
            raise NotPoly("atom in denominator")
        out: Dict[Mono, Fraction] = {}
        for m, c in self.n.t.items():
            d = dict(m)
            if atom in d:
                if d[atom] != 1:
                    raise NotPoly("non-linear in atom")
                del d[atom]
                mm = tuple(sorted(d.items()))
                out[mm] = out.get(mm, Fraction(0)) + c
        return RF(Poly(out), self.d)

    def __repr__(self):
        if self.d == Poly.const(1):
            return repr(self.n)
        return f"({self.n!r}) / ({self.d!r})"


ARITH_FUNCS = {
    "add": "+", "sub": "-", "subtract": "-", "mul": "*", "multiply": "*", "div": "/", "divide": "/",
    "true_divide": "/",
}
MATH_MODS = ("torch", "np", "numpy", "math")


def to_rf(expr: ast.AST, atom: Callable[[ast.AST], Optional[RF]]) -> RF:
    """Convert an (expanded) expression to a rational function.  `atom(node)` is
    consulted first for every node; it returns an RF for leaves it recognises
    (names, attributes, opaque calls) or None to let the arithmetic rules apply.
    Raises NotPoly for anything else."""
    got = atom(expr)
    if got is not None:
        return got
    if isinstance(expr, ast.Constant) and isinstance(expr.value, (int, float)) and not isinstance(expr.value, bool):
        return RF.const(Fraction(str(expr.value)) if isinstance(expr.value, float) else Fraction(expr.value))
    if isinstance(expr, ast.UnaryOp) and isinstance(expr.op, ast.USub):
        return -to_rf(expr.operand, atom)
    if isinstance(expr, ast.UnaryOp) and isinstance(expr.op, ast.UAdd):
        return to_rf(expr.operand, atom)
    if isinstance(expr, ast.BinOp):
        if isinstance(expr.op, ast.Pow):
            e = _const_frac(expr.right, atom)
            if e is None:
                raise NotPoly("non-constant exponent")
            return to_rf(expr.left, atom).pow(e)
        a, b = to_rf(expr.left, atom), to_rf(expr.right, atom)
        if isinstance(expr.op, ast.Add):
            return a + b
        if isinstance(expr.op, ast.Sub):
            return a - b
        if isinstance(expr.op, ast.Mult):
            return a * b
        if isinstance(expr.op, ast.Div):
            return a / b
        raise NotPoly(f"operator {type(expr.op).__name__}")
    if isinstance(expr, ast.Call):
        fn = expr.func
        name = None
        recv = None
        if isinstance(fn, ast.Attribute):
            name = fn.attr
            if isinstance(fn.value, ast.Name) and fn.value.id in MATH_MODS:
                recv = None
                args = list(expr.args)
            else:
                recv = fn.value
                args = [recv] + list(expr.args)
        elif isinstance(fn, ast.Name):
            name = fn.id
            args = list(expr.args)
        if name in ARITH_FUNCS and len(args) == 2:
            a, b = to_rf(args[0], atom), to_rf(args[1], atom)
            return {"+": a + b, "-": a - b, "*": a * b}.get(ARITH_FUNCS[name]) or (a / b)
        if name == "sqrt" and len(args) == 1:
            return to_rf(args[0], atom).pow(Fraction(1, 2))
        if name == "square" and len(args) == 1:
            return to_rf(args[0], atom).pow(Fraction(2))
        if name in ("pow", "float_power") and len(args) == 2:
            e = _const_frac(args[1], atom)
            if e is None:
                raise NotPoly("non-constant exponent")
            return to_rf(args[0], atom).pow(e)
        if name in ("neg", "negative") and len(args) == 1:
            return -to_rf(args[0], atom)
        if name in ("float", "double", "clone", "to") and len(args) >= 1 and recv is not None:
            return to_rf(recv, atom)
    raise NotPoly(f"not arithmetic: {ast.unparse(expr)[:80]}")


def _const_frac(node: ast.AST, atom) -> Optional[Fraction]:
    try:
        rf = to_rf(node, atom)
    except NotPoly:
        return None
    return rf.const_value()


def component_of(node: ast.AST):
    """`v[:, :1]` / `v[:, 0]` / `v[:, 0:1]` / `v[..., 0]` -> (v, 0);  `v[:, 1:]` (2-vectors) / `v[:, 1]` -> (v, 1);
    `v[:, 2:]`/`v[:, 2]` -> (v, 2).  None when `node` is not a single-column selection."""
    if not isinstance(node, ast.Subscript):
        return None
    sl = node.slice
    elts = sl.elts if isinstance(sl, ast.Tuple) else None
    if not elts or len(elts) < 2:
        return None
    lead, last = elts[:-1], elts[-1]
    for e in lead:
        full = isinstance(e, ast.Slice) and e.lower is None and e.upper is None and e.step is None
        if not (full or (isinstance(e, ast.Constant) and e.value is Ellipsis) or (isinstance(e, ast.Constant) and e.value is None)):
            return None

    def const(x):
        return x.value if isinstance(x, ast.Constant) and isinstance(x.value, int) else None
    if isinstance(last, ast.Constant) and isinstance(last.value, int):
        return node.value, last.value
    if isinstance(last, ast.Slice) and last.step is None:
        lo = 0 if last.lower is None else const(last.lower)
        hi = None if last.upper is None else const(last.upper)
        if lo is None:
            return None
        if hi is not None and hi == lo + 1:
            return node.value, lo
        if hi is None and last.lower is not None:
            return node.value, ("from", lo)  # open-ended: the last column of an (lo+1)-vector
    return None

"""Row-count evaluation of (expanded) tensor expressions for concrete values of the
symbols n (requested points), k (parameter rows), m (rows of a given point set).
Equality of count terms is decided by finite instantiation on a fixed grid — reported
as such in the evidence ("finite instantiation", not a proof for all integers)."""
from __future__ import annotations

import ast
import math
from typing import Dict, List, Optional, Tuple

from ..flow import attr_chain, dump

GRID_N = (1, 2, 3, 4, 5, 8)
GRID_K = (0, 1, 2, 3)


class Unknown(Exception):
    pass


class RowEval:
    """rows(expr) / val(expr) under a symbol table.
    syms: {'rows': {name: int}, 'ints': {name: number}}"""

    def __init__(self, rows: Dict[str, int], ints: Dict[str, float], shape_fn_attrs=()):
        self.rows_of_name = rows
        self.ints = ints
        self.mismatch: List[str] = []
        self.shape_fn_attrs = set(shape_fn_attrs)

    # ---------------------------------------------------------------- ints
    def val(self, e: ast.AST):
        key = dump(e)
        if key in self.ints:
            return self.ints[key]
        if isinstance(e, ast.Constant) and isinstance(e.value, (int, float)) and not isinstance(e.value, bool):
            return e.value
        if isinstance(e, ast.Name):
            if e.id in self.ints:
                return self.ints[e.id]
            raise Unknown(e.id)
        if isinstance(e, ast.BinOp):
            a, b = self.val(e.left), self.val(e.right)
            if isinstance(e.op, ast.Add):
                return a + b
            if isinstance(e.op, ast.Sub):
                return a - b
            if isinstance(e.op, ast.Mult):
                return a * b
            if isinstance(e.op, ast.Div):
                if b == 0:
                    raise Unknown("division by zero")
                return a / b
            if isinstance(e.op, ast.FloorDiv):
                if b == 0:
                    raise Unknown("division by zero")
                return a // b
            if isinstance(e.op, ast.Pow):
                return a ** b
            raise Unknown(type(e.op).__name__)
        if isinstance(e, ast.UnaryOp) and isinstance(e.op, ast.USub):
            return -self.val(e.operand)
        if isinstance(e, ast.Call):
            ch = attr_chain(e.func) or ""
            if ch == "len" and len(e.args) == 1:
                return self.rows(e.args[0])
            if ch == "int" and len(e.args) == 1:
                return int(self.val(e.args[0]))
            if ch in ("max", "min") and len(e.args) >= 2:
                vals = [self.val(a) for a in e.args]
                return max(vals) if ch == "max" else min(vals)
            if ch in ("math.ceil", "np.ceil", "torch.ceil"):
                return math.ceil(self.val(e.args[0]))
            if ch.endswith(".len_of_params") and len(e.args) == 1:
                return max(self.rows(e.args[0]), 1)
        if isinstance(e, ast.Subscript) and getattr(e, "_tuple_elt", False) and isinstance(e.value, ast.Call) and (attr_chain(e.value.func) or "").endswith("._repeat_params") and e.slice.value == 0:
            n, p = self._repeat_args(e.value)
            r = self.val(n) * self.rows(p)
            return 1 if r else self.val(n)
        raise Unknown(dump(e)[:50])

    def _repeat_args(self, call: ast.Call):
        """(count expr, params expr) for both argument orders of the two _repeat_params helpers"""
        args = list(call.args) + [None, None]
        kw = {k.arg: k.value for k in call.keywords}
        a0 = kw.get("n", None)
        a1 = kw.get("params", None)
        pos = [a for a in call.args]
        if a0 is not None and a1 is not None:
            return a0, a1
        if a0 is not None:
            return a0, pos[0]
        if a1 is not None:
            return pos[0], a1
        if len(pos) == 2:
            # decide by which one evaluates as an integer
            try:
                self.val(pos[0])
                return pos[0], pos[1]
            except Unknown:
                return pos[1], pos[0]
        raise Unknown("_repeat_params arguments")

    # ---------------------------------------------------------------- rows
    def rows(self, e: ast.AST) -> int:
        if isinstance(e, ast.Name):
            if e.id in self.rows_of_name:
                return self.rows_of_name[e.id]
            raise Unknown(e.id)
        if isinstance(e, ast.Attribute):
            if e.attr in ("as_tensor", "_t"):
                return self.rows(e.value)
            raise Unknown(dump(e)[:40])
        if isinstance(e, ast.Subscript):
            if getattr(e, "_tuple_elt", False) and isinstance(e.value, ast.Call) and (attr_chain(e.value.func) or "").endswith("._repeat_params"):
                if e.slice.value == 1:
                    n, p = self._repeat_args(e.value)
                    return int(self.val(n)) * self.rows(p)
                raise Unknown("count part of _repeat_params used as rows")
            elts = e.slice.elts if isinstance(e.slice, ast.Tuple) else [e.slice]
            first = elts[0]
            if self._is_where_index(first):
                return self.rows_of_name["<where>"]  # number of rows selected by a mask: symbol j
            if self._is_where_index(e):
                return self.rows_of_name["<where>"]
            base = self.rows(e.value)
            if isinstance(first, ast.Slice):
                if first.lower is None and first.upper is None:
                    return base
                if first.lower is None and first.upper is not None:
                    return min(base, int(self.val(first.upper)))
                raise Unknown("slice")
            if isinstance(first, ast.Constant) and first.value is None:
                return base
            if isinstance(first, (ast.Name, ast.Constant)) and not (isinstance(first, ast.Name) and first.id in self.rows_of_name):
                return 1  # one row selected by an integer index (params[i,])
            raise Unknown("index")
        if isinstance(e, ast.BinOp) and isinstance(e.op, ast.BitOr):
            return self.rows(e.left) + self.rows(e.right)  # Points.__or__: row concatenation
        if isinstance(e, ast.BinOp) and isinstance(e.op, (ast.Add, ast.Sub, ast.Mult, ast.Div)):
            a, b = self._rows_or_scalar(e.left), self._rows_or_scalar(e.right)
            return self._broadcast(a, b, e)
        if isinstance(e, ast.IfExp):
            raise Unknown("conditional value")
        if isinstance(e, ast.Call):
            fn = e.func
            ch = attr_chain(fn) or ""
            name = fn.attr if isinstance(fn, ast.Attribute) else ""
            if name in ("sample_random_uniform", "sample_grid"):
                kw = {k.arg: k.value for k in e.keywords}
                n = kw.get("n", e.args[0] if e.args else None)
                p = kw.get("params", e.args[2] if len(e.args) > 2 else None)
                if n is None:
                    raise Unknown("density sampling")
                k = self.rows(p) if p is not None else 0
                return int(self.val(n)) * max(k, 1)
            if ch == "Points" and e.args:
                return self.rows(e.args[0])
            if ch in ("torch.zeros", "torch.ones", "torch.empty", "torch.rand") and e.args:
                shp = e.args[0]
                if isinstance(shp, (ast.Tuple, ast.List)) and shp.elts:
                    return int(self.val(shp.elts[0]))
                raise Unknown("shape")
            if name in ("squeeze", "unsqueeze", "reshape", "view", "float", "to", "clone") and isinstance(fn, ast.Attribute):
                if name in ("reshape", "view"):
                    # reshape(-1, d): rows preserved when the trailing size is unchanged (assumed for (-1, dim))
                    if not e.args or dump(e.args[0]) != "-1":
                        raise Unknown("reshape")
                return self.rows(fn.value)
            if name == "repeat" and isinstance(fn, ast.Attribute) and e.args:
                return self.rows(fn.value) * int(self.val(e.args[0]))
            if name == "join" and isinstance(fn, ast.Attribute) and len(e.args) == 1:
                a, b = self.rows(fn.value), self.rows(e.args[0])
                if a == 0:
                    return b
                if b == 0:
                    return a
                if a != b:
                    self.mismatch.append(f"join of {a} rows with {b} rows: {dump(e)[:70]}")
                return a
            if isinstance(fn, ast.Attribute) and attr_chain(fn) and attr_chain(fn).startswith("self.") and fn.attr in self.shape_fn_attrs:
                r = self.rows(e.args[0]) if e.args else 0
                return r if r > 0 else 1
            if ch in ("torch.matmul", "torch.linalg.solve", "torch.add", "torch.sub", "torch.multiply", "torch.mul") and len(e.args) == 2:
                a, b = self._rows_or_scalar(e.args[0]), self._rows_or_scalar(e.args[1])
                return self._broadcast(a, b, e)
            if ch == "torch.repeat_interleave" and len(e.args) >= 2:
                return self.rows(e.args[0]) * int(self.val(e.args[1]))
            if name == "repeat_interleave" and isinstance(fn, ast.Attribute) and e.args:
                return self.rows(fn.value) * int(self.val(e.args[0]))
        raise Unknown(dump(e)[:50])

    @staticmethod
    def _is_where_index(e) -> bool:
        return (isinstance(e, ast.Subscript) and isinstance(e.value, ast.Call) and attr_chain(e.value.func) == "torch.where"
                and isinstance(e.slice, ast.Constant) and e.slice.value == 0)

    def _rows_or_scalar(self, e):
        try:
            return self.rows(e)
        except Unknown:
            try:
                self.val(e)
                return None  # python scalar: broadcasts
            except Unknown:
                raise

    def _broadcast(self, a, b, e):
        if a is None:
            return b if b is not None else 1
        if b is None:
            return a
        if a == b or b == 1:
            return a
        if a == 1:
            return b
        self.mismatch.append(f"{a} rows combined with {b} rows: {dump(e)[:80]}")
        return a

"""Boolean formulas over named atoms; equivalence / implication by truth table
under side constraints."""
from __future__ import annotations

import ast
import itertools
from typing import Callable, Dict, Iterable, List, Optional, Tuple

from ..flow import attr_chain, dump

# formula := ('var', name) | ('const', bool) | ('not', f) | ('and', f, g) | ('or', f, g)
TRUE = ("const", True)
FALSE = ("const", False)


class NotBool(Exception):
    pass


def var(n):
    return ("var", n)


def neg(f):
    if f[0] == "const":
        return ("const", not f[1])
    if f[0] == "not":
        return f[1]
    return ("not", f)


def conj(a, b):
    if a == TRUE:
        return b
    if b == TRUE:
        return a
    if a == FALSE or b == FALSE:
        return FALSE
    return ("and", a, b)


def disj(a, b):
    if a == FALSE:
        return b
    if b == FALSE:
        return a
    if a == TRUE or b == TRUE:
        return TRUE
    return ("or", a, b)


def atoms(f) -> set:
    if f[0] == "var":
        return {f[1]}
    if f[0] == "const":
        return set()
    out = set()
    for x in f[1:]:
        out |= atoms(x)
    return out


def ev(f, a: Dict[str, bool]) -> bool:
    t = f[0]
    if t == "var":
        return a[f[1]]
    if t == "const":
        return f[1]
    if t == "not":
        return not ev(f[1], a)
    if t == "and":
        return ev(f[1], a) and ev(f[2], a)
    if t == "or":
        return ev(f[1], a) or ev(f[2], a)
    raise NotBool(t)


def show(f) -> str:
    t = f[0]
    if t == "var":
        return f[1]
    if t == "const":
        return "T" if f[1] else "F"
    if t == "not":
        return "¬" + (show(f[1]) if f[1][0] in ("var", "const", "not") else f"({show(f[1])})")
    op = " ∧ " if t == "and" else " ∨ "
    return "(" + op.join(show(x) for x in f[1:]) + ")"


def assignments(names: Iterable[str], constraint: Callable[[Dict[str, bool]], bool] = None):
    names = sorted(names)
    for vals in itertools.product([False, True], repeat=len(names)):
        a = dict(zip(names, vals))
        if constraint is None or constraint(a):
            yield a


def equivalent(f, g, constraint=None, extra_atoms=()) -> Tuple[bool, Optional[Dict[str, bool]], int]:
    names = atoms(f) | atoms(g) | set(extra_atoms)
    n = 0
    for a in assignments(names, constraint):
        n += 1
        if ev(f, a) != ev(g, a):
            return False, a, n
    return True, None, n


def implies(f, g, constraint=None, extra_atoms=()) -> Tuple[bool, Optional[Dict[str, bool]], int]:
    names = atoms(f) | atoms(g) | set(extra_atoms)
    n = 0
    for a in assignments(names, constraint):
        n += 1
        if ev(f, a) and not ev(g, a):
            return False, a, n
    return True, None, n


def satisfiable(f, constraint=None, extra_atoms=()) -> bool:
    names = atoms(f) | set(extra_atoms)
    return any(ev(f, a) for a in assignments(names, constraint))


FUNCS_2 = {"logical_or": disj, "logical_and": conj, "bitwise_or": disj, "bitwise_and": conj}


def from_ast(expr: ast.AST, atom: Callable[[ast.AST], Optional[tuple]]) -> tuple:
    """`atom(node)` returns a formula for leaves (membership calls), None otherwise."""
    got = atom(expr)
    if got is not None:
        return got
    if isinstance(expr, ast.Constant) and isinstance(expr.value, bool):
        return ("const", expr.value)
    if isinstance(expr, ast.UnaryOp) and isinstance(expr.op, (ast.Not, ast.Invert)):
        return neg(from_ast(expr.operand, atom))
    if isinstance(expr, ast.BoolOp):
        fs = [from_ast(v, atom) for v in expr.values]
        r = fs[0]
        for f in fs[1:]:
            r = conj(r, f) if isinstance(expr.op, ast.And) else disj(r, f)
        return r
    if isinstance(expr, ast.BinOp) and isinstance(expr.op, (ast.BitOr, ast.BitAnd)):
        a, b = from_ast(expr.left, atom), from_ast(expr.right, atom)
        return disj(a, b) if isinstance(expr.op, ast.BitOr) else conj(a, b)
    if isinstance(expr, ast.BinOp) and isinstance(expr.op, ast.Mult):
        # product of masks == conjunction
        return conj(from_ast(expr.left, atom), from_ast(expr.right, atom))
    if isinstance(expr, ast.Call):
        fn = expr.func
        name = fn.attr if isinstance(fn, ast.Attribute) else (fn.id if isinstance(fn, ast.Name) else None)
        is_mod = isinstance(fn, ast.Attribute) and isinstance(fn.value, ast.Name) and fn.value.id in ("torch", "np", "numpy")
        args = list(expr.args)
        if isinstance(fn, ast.Attribute) and not is_mod:
            args = [fn.value] + args
        if name in FUNCS_2 and len(args) == 2:
            return FUNCS_2[name](from_ast(args[0], atom), from_ast(args[1], atom))
        if name in ("logical_not", "bitwise_not") and len(args) == 1:
            return neg(from_ast(args[0], atom))
        if name == "logical_xor" and len(args) == 2:
            a, b = from_ast(args[0], atom), from_ast(args[1], atom)
            return disj(conj(a, neg(b)), conj(neg(a), b))
        if name == "where" and len(args) == 3:
            c, a, b = (from_ast(x, atom) for x in args)
            return disj(conj(c, a), conj(neg(c), b))
    raise NotBool(f"not a Boolean combination: {dump(expr)[:100]}")

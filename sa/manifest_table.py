"""What MANIFEST.json claims (tools/gen_manifest.py renders it)."""
CHECKS = [
    dict(
        property_id="C07",
        text="Static decision of necessary structural conditions of the Solver step: loss polynomial == sum weight_i*loss_i, "
             "whole-range loop, step index, counter, ModuleList wrapping, optimizer over self.parameters(), registration of every "
             "condition-held Parameter, gradient-reversal sign, effect-free validation. Trajectory equality is NOT decided.",
        note="Assumes Lightning optimises the returned loss with the returned optimizer and nn.Module registration semantics; "
             "loops run at least once. Trusted: CPython ast, the rule tables of sa/props/c07.py.",
        technique="static analysis: path enumeration + def-use expansion, polynomial normal form, class-hierarchy queries",
    ),
]
_PENDING = "check under construction in this round (static rule not yet armed); see DESIGN.md §4"
NOT_APPLICABLE = [
    dict(property_id=f"C{i:02d}", reason=_PENDING) for i in range(1, 21) if f"C{i:02d}" not in {c["property_id"] for c in CHECKS}
]

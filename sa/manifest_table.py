"""What MANIFEST.json claims (tools/gen_manifest.py renders it)."""
_T = "Trusted: CPython ast; the reference tables of the rule module (DESIGN.md §4). Assumes loops run at least once. "
_SA = "static analysis: "
CHECKS = [
    dict(property_id="C01",
         text="Decides, for every sampling function of union/cut/intersection domains and boundaries, that the facts established about each "
              "returned point set propositionally imply the class's own membership formula on every path (abstract interpretation, helpers under "
              "call-site bindings); filtering samplers return only rows accepted on those rows; Translate/Rotate push-forward inverts the "
              "pull-back; the dependent product samples A at the B points it returns. Geometry of primitives, tolerances and termination are NOT decided.",
         note=_T + "Operand samplers/membership tests are correct (induction over the expression).",
         technique=_SA + "abstract interpretation over fact formulas + truth tables; operator-word term algebra for motions"),
    dict(property_id="C02",
         text="Decides the row-layout discipline of the sampler layer: parameter-major replication primitive, admissible layout pairs at every join, "
              "per-row loops (params[i] only, loop order, cut to n, guards re-initialised), sampler algebra, definite assignment on all paths, and "
              "row-count agreement of the domain operations by finite instantiation over (n, k). Run-time shapes depending on user functions/data are NOT decided.",
         note=_T + "Count equalities by finite instantiation on a fixed grid (reported as such).",
         technique=_SA + "layout classification at join sites, loop-carried-state rule, definite assignment, row-count evaluation of expanded expressions"),
    dict(property_id="C04",
         text="Decides the dataflow shape of every sampler-driven Condition.forward: one draw per sampler, model/data/residual share one tracked draw, "
              "residual mapping complete and name-keyed, reduce(error(residual)), documented (error, reduce) per class, SquaredError axis, data-condition "
              "norms with the root last, sibling initialisation. Loss values and user callables are NOT decided.",
         note=_T + "User residual/data functions are opaque.",
         technique=_SA + "path enumeration with evaluation identities (same-origin provenance), structural matching of expanded expressions"),
    dict(property_id="C05",
         text="Decides exactly the Boolean structure of _contains of union/cut/intersection/product and their boundaries (truth table vs set algebra under "
              "closedness/genericity), the pull-back structure of Translate/Rotate, row-wise evaluation of shape functions, the Cramer identity of the "
              "barycentric solve, purity of membership tests and the name-based column selection. Primitive predicates and tolerances are NOT decided.",
         note=_T,
         technique=_SA + "Boolean formula extraction + truth tables, free-module term algebra, rational-function identities"),
    dict(property_id="C07",
         text="Static decision of necessary structural conditions of the Solver step: loss polynomial == sum weight_i*loss_i, whole-range loop, step "
              "index, counter, ModuleList wrapping, optimizer over self.parameters(), registration of every condition-held Parameter, "
              "gradient-reversal sign, effect-free validation. Trajectory equality is NOT decided.",
         note=_T + "Lightning optimises the returned loss with the returned optimizer; nn.Module registration semantics.",
         technique=_SA + "path enumeration + def-use expansion, polynomial normal form, class-hierarchy queries"),
    dict(property_id="C08",
         text="Decides that every point-wise model routes its input through the name-based re-ordering before any use (taint/must-pass-through), the "
              "sanitiser itself, Parallel/Sequential composition structure, input-derived state, output labelling and the selection primitive. Row "
              "independence of arbitrary tensor code is NOT decided (re-arranging ops are reported UNDECIDED).",
         note=_T + "Sub-models handed to compositions are torchphysics Models.",
         technique=_SA + "taint analysis on expanded path expressions, class-hierarchy attribute typing"),
    dict(property_id="C12",
         text="Decides the pairing rules of Points/Space: column order == space order at every concatenation, cumulative variable offsets, index and "
              "space from one _compute_slice evaluation iterating the returned sub-space, space-preserving arithmetic, order-sensitive equality, "
              "batch-axis-only repeat/unsqueeze. Tensor contents are NOT decided.",
         note=_T + "Counter/OrderedDict key-order semantics of CPython.",
         technique=_SA + "order pairing on expanded expressions, affine normal forms"),
    dict(property_id="C13",
         text="Decides the calling convention of UserFunction/DomainUserFunction: keyword-only invocation through one mapping, mapping = given ∪ default "
              "selections over self.args, dominating required-name check, tail alignment of defaults, copy-on-partial-evaluation, no aliasing of "
              "mutable defaults. What the user's function computes is NOT decided.",
         note=_T + "Positional-or-keyword signatures (the property's quantifier).",
         technique=_SA + "structural matching of expanded mappings, dominance on paths, alias/effect rules"),
    dict(property_id="C15",
         text="Decides the StaticSampler counter automaton in closed form (uses per drawn set == interval for every interval), cache/return discipline, "
              "make_static, and for adaptive samplers the mask polarity/threshold polynomial, in-place same-mask row replacement and first-call adoption. "
              "Randomness of the retained set is NOT decided.",
         note=_T,
         technique=_SA + "automaton extraction from path conditions, polynomial normal form of the threshold"),
    dict(property_id="C16",
         text="Decides the index algebra of the data sets: one permutation value on all coupled tensors/axes, identical windows on coupled tensors, "
              "independent digits of the joint batch index with matching __len__, and exactly-once aggregation over the loader. Batches for concrete sizes "
              "beyond the index algebra are NOT decided.",
         note=_T + "torch DataLoader visits indices 0..len-1 once.",
         technique=_SA + "evaluation identities for permutations, window descriptors, digit classification, helper inlining with conditional variants"),
]
_PENDING = "check under construction in this round (static rule not yet armed); see DESIGN.md §4"
NOT_APPLICABLE = [
    dict(property_id=f"C{i:02d}", reason=_PENDING) for i in range(1, 21) if f"C{i:02d}" not in {c["property_id"] for c in CHECKS}
]

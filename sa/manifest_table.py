"""What MANIFEST.json claims (tools/gen_manifest.py renders it)."""
_T = "Trusted: CPython ast; the reference tables of the rule module (DESIGN.md §4). Assumes loops run at least once. "
_SA = "static analysis (ast only; canonical-form rewriting of the parsed sources, syntax-directed path enumeration with atomic guards, def-use expansion and loop/comprehension normal forms): "
CHECKS = [
    dict(property_id="C01",
         text="Decides, for every sampling function of union/cut/intersection domains and boundaries, that the facts established about each "
              "returned point set propositionally imply the class's own membership formula on every path (abstract interpretation, helpers under "
              "call-site bindings); filtering samplers return only rows accepted on those rows; Translate/Rotate push-forward inverts the "
              "pull-back; the dependent product samples A at the B points it returns. Geometry of primitives, tolerances and termination are NOT decided. Also: slot-wise return of one-point-per-parameter-row proposals, positive proposal counts, and the rules shared from C02/C05/C10/C13/C15/C17 on which sampling correctness rests. Shared in addition: membership tests leave the proposals untouched and read their own columns (C05), evaluated domains carry every constructor argument over (C17). Wave 9: no 0/0 for any requested count, quota loops end only on their quota, membership closeness tests name exactly the polygon's own sides, moved boundaries keep the pivot. Wave 10: the polygon perimeter walk evaluated on rings of 3 and 4 sides (every arc-length position placed, closing side included); fused forms (addcmul / lerp) of the interval formula. Wave 11: polygon rejection by the polygon's own membership test and a top-up triangle within the polygon; union samples mixed row-wise (C11).",
         note=_T + "Operand samplers/membership tests are correct (induction over the expression).",
         technique=_SA + "abstract interpretation over fact formulas + truth tables; operator-word term algebra for motions; abstract interpretation of sampling helpers with local closures and symbolic row counts"),
    dict(property_id="C02",
         text="Decides the row-layout discipline of the sampler layer: parameter-major replication primitive, admissible layout pairs at every join, "
              "per-row loops (params[i] only, loop order, cut to n, guards re-initialised), sampler algebra, definite assignment on all paths, and "
              "row-count agreement of the domain operations by finite instantiation over (n, k). Run-time shapes depending on user functions/data are NOT decided. Also: constructor data never rewritten from call parameters, upper bound of topped-up counts, interval boundary grid for n = 1..8 by partial evaluation. Also: the grid helpers of the domain operations return n rows for every outcome of every membership test (evaluated on row-count models, n = 2..4), the data sampler's n is its first-axis length, quota loops end only on their quota. Wave 10: no non-static sampler stores a draw (C15); points copied for parameter rows as whole blocks in moved domains. Wave 11: attached parameter columns unchanged (C12); clamped-up grid side counts (C10); masked rows replaced by the candidates of the same rows.",
         note=_T + "Count equalities by finite instantiation on a fixed grid (reported as such).",
         technique=_SA + "layout classification at join sites, loop-carried-state rule, definite assignment, row-count evaluation of expanded expressions; partial evaluation of small list/mask code; evaluation of helper functions on row-count value models over all membership outcomes"),
    dict(property_id="C04",
         text="Decides the dataflow shape of every sampler-driven Condition.forward: one draw per sampler, model/data/residual share one tracked draw, "
              "residual mapping complete and name-keyed, reduce(error(residual)), documented (error, reduce) per class, SquaredError axis, data-condition "
              "norms with the root last, sibling initialisation, and - shared from C03/C08/C13 - the input re-ordering of models, the by-name argument mapping of residual/data functions and the structure of the differential operators. Loss values and user callables are NOT decided. Also: the data loader permutes inputs and targets alike (C16), DeepONet conditions decide from all residual parameters whether the input functions are supplied. Periodic sides sampled on their own interval end; data-condition targets paired with the model output by name; branch-cache protocol and operator axis rules shared from C09 / C03. Wave 10: positional base-constructor arguments arrive in the parameter they are named after (G-POS); periodic sides evaluate their own data (C14).",
         note=_T + "User residual/data functions are opaque.",
         technique=_SA + "path enumeration with evaluation identities (same-origin provenance), structural matching of expanded expressions"),
    dict(property_id="C05",
         text="Decides exactly the Boolean structure of _contains of union/cut/intersection/product and their boundaries (truth table vs set algebra under "
              "closedness/genericity), the pull-back structure of Translate/Rotate, row-wise evaluation of shape functions, the Cramer identity of the "
              "barycentric solve, purity of membership tests, the name-based column selection and that the absolute slack of boundary side tests on computed "
              "barycentric coordinates (isclose atol + rtol*|c|, widened unit range) is not below float32 resolution. Primitive predicates and the sufficiency of tolerances are NOT decided. Also: sides of polygon boundaries are segments (no assignment true with all range tests false), orientation invariance of the interior tests (exchange of the spanning directions permutes the tested rational functions), linear radius bound of ball-shaped primitives, chunk loops cover every row. Also: answers are combined with torch.logical_* while a float-mask domain exists; polygon / mesh domains read their own columns. Wave 10: scale of tolerances (relative part against size-bearing quantities, lower bound of computed tolerances, the user's mesh tolerance).",
         note=_T,
         technique=_SA + "Boolean formula extraction + truth tables, free-module term algebra, rational-function identities, constant propagation of tolerance arguments through helper call sites; truth-table satisfiability with range atoms forced false, rational-function set comparison under a substitution"),
    dict(property_id="C07",
         text="Static decision of necessary structural conditions of the Solver step: loss polynomial == sum weight_i*loss_i, whole-range loop, step "
              "index, counter, ModuleList wrapping, optimizer over self.parameters(), registration of every condition-held Parameter, "
              "gradient-reversal sign, effect-free validation. Trajectory equality is NOT decided. Also: every path of training_step returns the summed loss. Also: optimizer / scheduler settings stored unfiltered. Wave 10: the solver replaces no step of the optimisation loop; gradients are freed, not zeroed.",
         note=_T + "Lightning optimises the returned loss with the returned optimizer; nn.Module registration semantics.",
         technique=_SA + "path enumeration + def-use expansion, polynomial normal form, class-hierarchy queries"),
    dict(property_id="C08",
         text="Decides that every point-wise model routes its input through the name-based re-ordering before any use (taint/must-pass-through), the "
              "sanitiser itself, Parallel/Sequential composition structure, input-derived state, output labelling, the selection and join primitives "
              "(requested order of Space[[names]], column pairing of Points.joined) and the absence of size-dependent axis removal. Row "
              "independence of arbitrary tensor code is NOT decided (re-arranging ops are reported UNDECIDED). Also: inputs whose variable names differ from the model's are rejected on every path. Also: Parallel's spaces by partial evaluation on overlapping parts; forward never writes into tensors that may alias the caller's. Wave 10: rank-bound matrix products on input-derived tensors; the sanitiser evaluated on rank-2 and rank-3 raw tensors. Wave 11: value-free control flow, rows in the given order, batch axes restored after a flattening reshape.",
         note=_T + "Sub-models handed to compositions are torchphysics Models.",
         technique=_SA + "taint analysis on expanded path expressions, class-hierarchy attribute typing, axis-role interpretation, partial evaluation of the sanitiser on a table model over all orders of three variables"),
    dict(property_id="C12",
         text="Decides the pairing rules of Points/Space: column order == space order at every concatenation, cumulative variable offsets, index and "
              "space from one _compute_slice evaluation iterating the returned sub-space, space-preserving arithmetic, order-sensitive equality, "
              "batch-axis-only repeat/unsqueeze. Tensor contents are NOT decided. Also: _compute_slice evaluated for 17 keys (names, lists, name slices with steps, Ellipsis, row picks); no receiver-changing in-place operator on Space / Points. Also: tuple keys reach the tensor as tuples, list keys stay untouched; no derived state on Points; Counter's `&` kept; joined refuses shared names; Space.dim by evaluation. Wave 11: iteration yields self[i]; Space equality evaluated on ordered mappings.",
         note=_T + "Counter/OrderedDict key-order semantics of CPython.",
         technique=_SA + "order pairing on expanded expressions, affine normal forms, partial evaluation of Space slicing on a four-variable space"),
    dict(property_id="C13",
         text="Decides the calling convention of UserFunction/DomainUserFunction: keyword-only invocation through one mapping, mapping = given ∪ default "
              "selections over self.args, dominating required-name check, tail alignment of defaults, copy-on-partial-evaluation, no aliasing of "
              "mutable defaults. What the user's function computes is NOT decided. Also, by partial evaluation: defaults alignment for six signatures read from self.fun itself, necessary_args for five settings, order-free batch split; user containers are only read (C14). Also: call purity and unfiltered forwarding for every subclass of UserFunction. Wave 10: parameters are identified by their declared names whatever they are called; Points keep no derived state (C12). Wave 11: a wrapper method taking the user's names as ** declares no keyword-addressable parameter of its own (one finding).",
         note=_T + "Positional-or-keyword signatures (the property's quantifier).",
         technique=_SA + "entry families of argument mappings (iterable, key, membership condition, value) with merge order, dominance on paths, outcome typestate of partial evaluation, alias/effect rules"),
    dict(property_id="C15",
         text="Decides the StaticSampler counter automaton in closed form (uses per drawn set == interval for every interval), cache/return discipline, "
              "make_static, and for adaptive samplers the mask polarity/threshold polynomial, in-place same-mask row replacement and first-call adoption. "
              "Randomness of the retained set is NOT decided. Also: next() serves the cached set without counting a use; every make_static override forwards the interval. Also: the cache is tested by identity with None (an empty draw is a draw). Wave 10: one stored set only - created_points is None, a fresh draw or itself moved to a device.",
         note=_T,
         technique=_SA + "automaton extraction from path conditions, polynomial normal form of the threshold, IEEE-exactness of the threshold at equal losses"),
    dict(property_id="C16",
         text="Decides the index algebra of the data sets: one permutation value on all coupled tensors/axes, identical windows on coupled tensors, "
              "independent digits of the joint batch index with matching __len__, and exactly-once aggregation over the loader. Batches for concrete sizes "
              "beyond the index algebra are NOT decided. Also: coverage of the wrap-around windows over one pass for batch sizes below and above the data-set size by finite instantiation of the window bounds. Also: the batch error is computed out of place (C04). Also: transparent loaders (data handed on as given, shape-only layout choice, no cached batches). Wave 10: constructor arguments of data conditions and loaders reach the base class (G-ARG). Wave 11: independent index digits need the product length; the full-data loss is a pass over the loader; no stored loss (C14).",
         note=_T + "torch DataLoader visits indices 0..len-1 once.",
         technique=_SA + "evaluation identities for permutations, window descriptors, digit classification, helper inlining with conditional variants; numeric instantiation of extracted window-bound expressions"),
    dict(property_id="C03",
         text="Decides the autograd call discipline (sum-then-grad, create_graph), the affine component/offset pairing of div / laplacian / jac (incl. precomputed "
              "offset lists), the index tables of rot / sym_grad / convective / normal_derivative / matrix_div, zero short-circuits and accumulator dtype/device. "
              "Numerical agreement with analytic derivatives is NOT decided. Also: control flow free of tensor values, no memoisation, graph test dominating every second derivative. Also: operators that accept any batch rank never reach one that addresses axis 1 from the front; custom autograd Functions save only (views of) their own arguments. Backward passes contain no power of a rectified value with a variable exponent. Wave 10: the graph test precedes the derivative of the same iteration; the join of per-variable gradients is row-wise for flat, 2-D and higher-rank batches (evaluated); the custom autograd Function of the DeepONet layers (C09). Wave 11: helpers that evaluate a model and a user function hand over the tensors the model saw; per-function tracked copies (C04).",
         note=_T + "Rows of the model output depend only on the same input rows.",
         technique=_SA + "recurrences of loop-carried symbols (offset' = offset + dim, acc' = acc + term), affine index forms in polynomial normal form, last-axis vs axis-1 selection, symbolic list evaluation; guard dominance on paths"),
    dict(property_id="C06",
         text="Decides operand selection and sign of normals on Boolean boundaries, unit length and perpendicularity of edge normals as polynomial identities "
              "(in-place column updates modelled), radial normals, sign-definiteness of n·(opposite vertex - edge start) under vertex orientation, and the "
              "direction constants of interval end points, and that the side lookup of polygon normals uses a slack above float32 resolution. Outwardness as geometry, NaNs in general and meshes are NOT decided. Also: an explicit orientation factor is the sign of the determinant of the spanning directions. Also: exact linear solve for triangles of every size (no clamped determinant), side table of the membership. Wave 10: tolerances of the operand selection (C05); normal() keeps all variables of its points.",
         note=_T + "Points passed to normal() lie on the boundary; operands' own normals are outward (induction).",
         technique=_SA + "symbolic vector evaluation in rational normal form, sibling agreement of edge tests between membership and normal, uniform-mask short cuts"),
    dict(property_id="C09",
         text="Decides the contraction axis of the DeepONet output and the parameter/point meshgrid by an axis-role interpretation of reshape/transpose/matmul/"
              "repeat, the branch/trunk reshape agreement, autograd hygiene of the custom linear Function (only inputs saved, gradients from the required "
              "operands) and the branch-cache protocol. Numerical equivalence is NOT decided. Also: forward passes neither change stored tensors in place nor flatten caller data with view; layer builders compared by partial evaluation. Also: collection batches by partial evaluation on unequal set sizes; per-function copies before tracking (C04). Wave 10: no part evaluates a network with gradient recording off. Wave 11: branch input layout (width, conv transposition by the axis domain, no size-guessed transposition).",
         note=_T,
         technique=_SA + "axis-role abstract interpretation, effect/ownership rules, sibling equivalence of the two layer builders by partial evaluation for 1-3 hidden layers"),
    dict(property_id="C10",
         text="Decides every primitive measure against the analytic table in rational normal form, non-negativity in a sign domain, the composition rules of "
              "union/cut/product/translate/rotate through public volume(), the user override, density-to-count conversion, absence of parameter-dependent "
              "caching, and that flags survive partial evaluation. Documented estimates and third-party measures are NOT decided. Also: exclusive operand contributions of Boolean boundary density samplers, user-declared flags, truncated grid side counts, evaluated setter state. Wave 10: delivered rows lie in the combination (facts, C01); box readers use the interleaved layout (C18); topped-up counts cut to n (C02). Wave 11: measures combine per-row shape quantities by broadcasting only; motion wrappers hand the density on.",
         note=_T + "radius > 0, upper >= lower.",
         technique=_SA + "symbolic tensor evaluation to rational functions, sign domain, taint of cached values; abstract fact sets of sampler contributions checked for joint satisfiability"),
    dict(property_id="C11",
         text="NARROW: decides only the construction named by the mechanism anchors (radial exponent 1/dim, azimuth, polar law, arclength walk with paired "
              "side lengths, triangle mirror, union mixture ratio, dependent-product acceptance, LHS strata and per-axis permutation, Normal proposals). "
              "No distributional statement is decided; an algorithm replacement is UNDECIDED, never a violation. Also: signed / analytic measures used as mixture weights (C10), second grid request of cut / intersection == int(n^2 / kept) on row-count models. Also: lattice layout of meshgrid-built grids (coordinate axis last), lattice aspect ratio, per-round boundary requests in the ratio of the measures, random operand choice for one-point proposals (two recorded findings). Wave 10: the spiral lattice of the sphere is evenly spaced in height and on the unit sphere (polynomial identities); filtering samplers (C01).",
         note=_T + "torch.rand / randperm / Normal are the named laws.",
         technique=_SA + "rational normal forms with rational exponents, symbolic stratum formula, finite instantiation of the dependency classification, index provenance"),
    dict(property_id="C14",
         text="Decides by interprocedural effect analysis that no condition constructor writes into user containers or mutable defaults, that constructors call "
              "no state-changing method on user objects, that no module-level cache is written, that the periodic condition keeps left/right data apart and "
              "does not pollute the static side samplers, and that forward writes only allow-listed state. Numerical repeatability is NOT decided. Also: constructing a domain expression never extends a sub-domain's variable set in place (C17). Also: no dtype cast of user-held Points; shuffles work on copies (C16). Wave 10: sampler builders (make_static, *, +, append) write nothing on their receiver; no stored draws on shared samplers (C15).",
         note=_T + "Unresolvable receivers (user objects) are assumed not to write their arguments.",
         technique=_SA + "parameter-write effect summaries closed over the resolved call graph, typestate of static samplers"),
    dict(property_id="C17",
         text="Decides the constructor round-trip of every Domain.__call__ (every constructor argument forwarded from its evaluated counterpart), survival of "
              "setter state, registration and fresh-set union of necessary variables (incl. order), purity of __call__ and copy-on-partial-evaluation. "
              "Equality of sampled values is NOT decided. Also: copy-and-patch instead of re-construction is a violation; ** mappings are never pre-filtered by necessary names; boundaries of moved domains keep every argument. Wave 10: plot / animation samplers store their domains evaluated at the data for the other variables.",
         note=_T,
         technique=_SA + "constructor round-trip dataflow (operators resolved to their dunder constructors), alias/effect rules, partial evaluation of the point-data order"),
    dict(property_id="C18",
         text="Decides box layout and corner completeness of primitives as min/max reductions over symbolic coordinates, the lattice rules of "
              "union/intersection/cut/product/translate, all-corner images under linear maps, reduction over parameter rows, consumer layout "
              "(NormalizationLayer affine map, LHS strata) and call-site/override signature compatibility. Tightness is NOT decided. Also: Boolean operations require identical operand spaces (order-sensitive), boxes never inherit a dtype from shape data, a user-set box is stored in space order. Also: one scale / shift per box axis in the normalisation layer, Point boxes by partial evaluation, Latin-hypercube box per row and permutation per axis. Wave 10: every reader of a box uses the interleaved layout; delegating boxes hand the parameter rows on; geometry-object domains read the live mesh / polygon.",
         note=_T + "Third-party bounds are correct.",
         technique=_SA + "symbolic reductions over corner sets with sound bound arithmetic, partial evaluation of box-building code for 1-3 axes, affine index forms, call-site binding simulation"),
    dict(property_id="C19",
         text="NARROW: decides that learnable state is registered (complete state_dict), that the callbacks save the right object at the right hook under "
              "distinct names without buffering, that solver hooks leave optimizer/scheduler state alone and restore the step counter, and inventories "
              "step-written plain state that no checkpoint captures. Everything Lightning does and bit-exact resume are NOT decided. Also: restore protocol passed through unchanged (no assign=True, nothing removed from checkpoints), no persistent buffer used as a cache, no parameter-data writes in hooks, callbacks restore the train/eval mode. Also: every checkpoint of the callback carries the configured content; saved weight mappings are not edited. Wave 10: checkpoint hooks remove nothing also through aliases of the mapping; strict loading stays on. Wave 11: checkpoint entries are not rewritten; no in-place change of module tensors outside constructors.",
         note=_T + "Lightning restores module/optimizer/scheduler state.",
         technique=_SA + "ownership and effect inventory, hook-order rules (state restored between on_fit_start and on_train_start), state layout fixed by constructors; override / hook inventory over the class table"),
    dict(property_id="C20",
         text="Decides that a Fourier layer never writes to (an alias/view of) its input, that between the paired rfftn/irfftn (same axes, norm, s = input shape) "
              "the spectrum is only padded/truncated and multiplied by the kernel (no re-indexing, no constant mode offsets), and the point-wise structure "
              "of FNO. Equivariance and resolution consistency as numbers are NOT decided. Also: the spectrum is multiplied by the kernel itself (no re-indexing). Wave 10: the common input sanitiser addresses the last axis for rank-3 batches (C08).",
         note=_T,
         technique=_SA + "may-alias effect analysis, operation whitelist on a def-use slice, partial evaluation of the padding vector and axis list for 1-3 spatial axes"),
]
_PENDING = "not claimed"
NOT_APPLICABLE = [
    dict(property_id=f"C{i:02d}", reason=_PENDING) for i in range(1, 21) if f"C{i:02d}" not in {c["property_id"] for c in CHECKS}
]

"""C04 — a condition's loss is reduce(error(residual)) on exactly its sampled points."""
from __future__ import annotations

import ast
from typing import Dict, List, Optional, Set

from ..flow import RAISE, attr_chain, def_id, dump, kwarg, paths
from ..repo import AnalysisError, ClassInfo, Repo
from ..util import ends

EXPLANATION = (
    "Same-origin dataflow of every sampler-driven Condition.forward decided on expanded path expressions with evaluation "
    "identities: one draw per sampler per call; the model input is the Points rebuilt by track_coord_gradients() of that draw; "
    "data functions and the residual's coordinate entries use the coordinate dictionary of the very same track call; the residual "
    "argument is assembled only from name-keyed mappings and contains model outputs, coordinates, learnable parameters and data; "
    "loss = reduce_fn(error_fn(residual_fn(.))); the documented (error, reduce) pair per condition class; SquaredError sums squares "
    "over axis 1; data conditions use |model - target| with max / mean(a**norm) and the root applied last."
)
ASSUMPTIONS = [
    "what the user's residual / data functions compute is not analysed (C13 decides how they are called)",
    "torch.autograd tracks derivatives w.r.t. the tensors whose requires_grad was set before the model evaluation",
]
COND = "problem.conditions.condition"
SCOPE = [
    (COND, "SingleModuleCondition"), (COND, "PeriodicCondition"), (COND, "IntegroPINNCondition"),
    ("problem.conditions.deeponet_condition", "DeepONetSingleModuleCondition"),
    ("problem.conditions.variational_condition", "VariationalPINNCondition"),
    (COND, "HPM_EquationLoss_at_Sampler"),
]
NO_MODEL = {"HPM_EquationLoss_at_Sampler": "by design the residual closes over the networks; self.module is never evaluated"}
MODEL_ATTRS = ("self.module", "self.net")


def _calls(expr):
    return [c for c in ast.walk(expr) if isinstance(c, ast.Call)]


def _unique_calls(p, pred):
    out = {}
    for e in p.events:
        if e.value is None:
            continue
        for c in ast.walk(e.value):
            if isinstance(c, ast.Call) and pred(c):
                out.setdefault(def_id(c) or id(c), c)
    return list(out.values())


def _is_draw(c):
    return isinstance(c.func, ast.Attribute) and c.func.attr == "sample_points" and (attr_chain(c.func.value) or "").startswith("self.")


def _is_track(c):
    return isinstance(c.func, ast.Attribute) and c.func.attr == "track_coord_gradients"


def _draw_ids(expr) -> Set[object]:
    return {def_id(c) for c in _calls(expr) if _is_draw(c)}


def _track_parts(expr):
    """[(track call, index)] for tuple elements of track calls in expr"""
    out = []
    for n in ast.walk(expr):
        if isinstance(n, ast.Subscript) and getattr(n, "_tuple_elt", False) and isinstance(n.value, ast.Call) and _is_track(n.value):
            out.append((n.value, n.slice.value))
    return out


def _raw_draw_outside_track(expr) -> bool:
    """a drawn Points used without passing through track_coord_gradients"""
    tracked = set()
    for n in ast.walk(expr):
        if isinstance(n, ast.Call) and (_is_track(n) or attr_chain(n.func) == "len"):  # len(draw) is a count, not the points
            for m in ast.walk(n):
                tracked.add(id(m))
    return any(isinstance(c, ast.Call) and _is_draw(c) and id(c) not in tracked for c in ast.walk(expr))


def r1234_forward(repo: Repo, rep):
    R1 = rep.rule("R-C04-1", "one draw per sampler per forward call, on every path", floor=6,
                  why="two draws evaluate model, data functions and residual on different points")
    R2 = rep.rule("R-C04-2", "model input, data-function inputs and the residual's coordinate entries stem from ONE track_coord_gradients() of that draw; "
                  "the model receives the rebuilt Points (second result)", floor=6,
                  why="feeding the original Points cuts the graph between outputs and the named coordinates (derivatives become unavailable/wrong)")
    R3 = rep.rule("R-C04-3", "the residual argument is a merge of name-keyed mappings containing model outputs, coordinates, "
                  "self.parameter.coordinates and the data functions", floor=6,
                  why="a missing entry makes the residual fail or silently use a default; positional assembly would depend on variable order")
    R4 = rep.rule("R-C04-4", "loss = reduce_fn(error_fn(residual_fn(.))), each applied once", floor=6,
                  why="the documented loss is the reduction of the error of the residual")
    for modname, cname in SCOPE:
        ci = repo.cls(f"{modname}.{cname}")
        fi = ci.methods.get("forward")
        if fi is None:
            raise AnalysisError(f"{cname}.forward vanished")
        rep.saw(fi)
        for p in paths(fi.node, track_stores=True):
            if p.ret is RAISE:
                continue
            site = fi.site(p.ret_node)
            # ---- R1
            draws = _unique_calls(p, _is_draw)
            per = {}
            for c in draws:
                per.setdefault(dump(c.func.value), []).append(c)
            multi = {k: len(v) for k, v in per.items() if len(v) != 1}
            rep.check(R1, bool(per) and not multi, site, fi.fq, "each sampler is drawn exactly once on this path",
                      f"draws per sampler: { {k: len(v) for k, v in per.items()} }", str(sorted(multi.items())))
            # ---- R4
            r = p.ret
            comp = (isinstance(r, ast.Call) and dump(r.func) == "self.reduce_fn" and len(r.args) == 1 and isinstance(r.args[0], ast.Call)
                    and dump(r.args[0].func) == "self.error_fn" and len(r.args[0].args) == 1 and isinstance(r.args[0].args[0], ast.Call)
                    and dump(r.args[0].args[0].func) == "self.residual_fn" and len(r.args[0].args[0].args) == 1)
            rep.check(R4, comp, site, fi.fq, "returns self.reduce_fn(self.error_fn(self.residual_fn(<mapping>)))", dump(r)[:100], _shape(r))
            if not comp:
                continue
            res_arg = r.args[0].args[0].args[0]
            # ---- R3: mapping merge
            if not (isinstance(res_arg, ast.Dict) and all(k is None for k in res_arg.keys)):
                rep.violation(R3, site, fi.fq, "residual argument is {**m1, **m2, ...}", dump(res_arg)[:120], dump(res_arg)[:120])
                continue
            parts = res_arg.values
            kinds = [_mapping_kind(v) for v in parts]
            stale = [dump(v)[:60] for v, k in zip(parts, kinds) if k is None and _self_state(v)]
            if stale:
                rep.violation(R2, site, fi.fq, "the residual's entries stem from this call's draw", f"entries read from state stored on the condition: {stale}", f"state on self: {stale}")
                continue
            unknown = [dump(v)[:60] for v, k in zip(parts, kinds) if k is None]
            if unknown:
                rep.undecided(R3, site, fi.fq, "every merged part is a recognised name-keyed mapping", str(unknown))
                continue
            have = {k[0] for k in kinds}
            need = {"coords", "param", "data"} | (set() if cname in NO_MODEL else {"model"})
            missing = need - have
            rep.check(R3, not missing, site, fi.fq, f"residual mapping contains {sorted(need)}", f"has {sorted(have)}; missing {sorted(missing)}", "missing " + ",".join(sorted(missing)))
            # ---- R2: same origin
            model_calls = [c for c in _calls(res_arg) if attr_chain(c.func) in MODEL_ATTRS]
            tracks_model = {}
            problems = []
            for mc in model_calls:
                if not mc.args:
                    problems.append(f"{dump(mc.func)} called without points")
                    continue
                arg = mc.args[0]
                if _raw_draw_outside_track(arg):
                    problems.append(f"{dump(mc.func)} receives the untracked draw")
                tps = _track_parts(arg)
                if not tps or any(i != 1 for _, i in tps):
                    problems.append(f"{dump(mc.func)} input is not the rebuilt Points of track_coord_gradients()")
                for t, i in tps:
                    tracks_model[def_id(t)] = t
            coord_tracks = {}
            for v, k in zip(parts, kinds):
                if k[0] == "coords":
                    for t, i in _track_parts(v):
                        if i != 0:
                            problems.append("coordinate entry is not the coordinate dictionary of the track call")
                        coord_tracks[def_id(t)] = t
            if cname not in NO_MODEL:
                if set(tracks_model) - set(coord_tracks):
                    problems.append("a tracked model input has no coordinate entry in the residual")
                if set(coord_tracks) - set(tracks_model):
                    problems.append("residual coordinates come from a track call the model input does not come from")
            # data functions
            for v, k in zip(parts, kinds):
                if k[0] != "data":
                    continue
                for dc in [c for c in _calls(v) if isinstance(c.func, ast.Subscript) and "data_functions" in dump(c.func.value)]:
                    a = dc.args[0] if dc.args else None
                    tps = _track_parts(a) if a is not None else []
                    if a is None or not tps or any(i != 0 for _, i in tps) or _raw_draw_outside_track(a):
                        problems.append(f"data function input `{dump(a)[:50]}` is not the tracked coordinate dictionary")
                    elif any(def_id(t) not in coord_tracks for t, _ in tps):
                        problems.append("data functions evaluated on other points than the residual coordinates")
            # every track call wraps exactly a draw (possibly reshaped)
            for t in list(tracks_model.values()) + list(coord_tracks.values()):
                if not _draw_ids(t):
                    problems.append("track_coord_gradients() applied to something that is not this call's draw")
            problems = sorted(set(problems))
            rep.check(R2, not problems, site, fi.fq, "model / data functions / residual coordinates share one tracked draw", "; ".join(problems[:3]), "; ".join(problems[:3]))


def _shape(r):
    """abstract shape of the returned composition for the offending digest"""
    names = []
    e = r
    while isinstance(e, ast.Call) and len(e.args) >= 1:
        names.append(dump(e.func))
        e = e.args[0]
    return " ∘ ".join(names) or dump(r)[:60]


def _self_state(v: ast.AST) -> bool:
    """an element of an attribute of self (no call involved): something an earlier call stored on the condition"""
    x = v
    while isinstance(x, ast.Subscript):
        x = x.value
    ch = attr_chain(x)
    return isinstance(v, ast.Subscript) and ch is not None and ch.startswith("self.") and ch.count(".") == 1 and ch not in ("self.parameter", "self.data_functions")


def _mapping_kind(v: ast.AST):
    """classify one `**part` of the residual mapping"""
    t = dump(v)
    # renaming comprehension {f'{k}_suffix': M[k] for k in M}
    if isinstance(v, ast.DictComp) and len(v.generators) == 1:
        g = v.generators[0]
        if isinstance(v.key, ast.JoinedStr) and isinstance(v.value, ast.Subscript) and dump(v.value.slice) == dump(g.target) and dump(g.iter) == dump(v.value.value) and not g.ifs:
            inner = _mapping_kind(v.value.value)
            return inner
        return None
    if isinstance(v, ast.Attribute) and v.attr == "coordinates":
        if dump(v.value) == "self.parameter":
            return ("param",)
        if isinstance(v.value, ast.Call) and attr_chain(v.value.func) in MODEL_ATTRS:
            return ("model",)
        if isinstance(v.value, ast.Call) and isinstance(v.value.func, ast.Attribute) and v.value.func.attr == "create_function_batch":
            return ("functionset",)
        if isinstance(v.value, ast.Call) and dump(v.value.func) == "self.test_fn_set":
            return ("testfn",)
        return None
    if isinstance(v, ast.Subscript) and getattr(v, "_tuple_elt", False) and isinstance(v.value, ast.Call) and _is_track(v.value):
        return ("coords",)
    if isinstance(v, ast.Dict):
        if not v.keys:
            # data dict filled in a loop: {} plus stores — represented by the literal; look at it as data when empty literal
            return ("data",)
        if all(isinstance(k, ast.Constant) for k in v.keys):
            return ("const",)
        if all(k is None for k in v.keys):
            kinds = [_mapping_kind(x) for x in v.values]
            if all(k is not None for k in kinds) and len({k[0] for k in kinds}) == 1:
                return kinds[0]
            return None
        if len(v.keys) == 1:
            # one-iteration form of a loop-/comprehension-built mapping
            k, val = v.keys[0], v.values[0]
            if isinstance(val, ast.Call) and isinstance(val.func, ast.Subscript) and "data_functions" in dump(val.func.value):
                return ("data",)
            if isinstance(k, ast.JoinedStr) and isinstance(val, ast.Subscript) and any(isinstance(x, ast.FormattedValue) and dump(x.value) == dump(val.slice) for x in k.values):
                return _mapping_kind(val.value)  # renaming {f'{k}_suffix': M[k]} over the keys of M
    if isinstance(v, ast.IfExp):
        return _mapping_kind(v.body) or _mapping_kind(v.orelse)
    if isinstance(v, ast.Call) and dump(v.func) == "__store__" and len(v.args) == 3:
        # d = {}; d[fun] = self.<data_functions>[fun](coords)
        val = v.args[2]
        if isinstance(val, ast.Call) and isinstance(val.func, ast.Subscript) and "data_functions" in dump(val.func.value):
            return ("data",)
        return None
    return None


def _data_entries(expr):
    """(key, value call) of every `{k: <data_functions>[..](..)}` entry inside expr"""
    out = []
    for n in ast.walk(expr):
        if isinstance(n, ast.Dict):
            for k, v in zip(n.keys, n.values):
                if k is not None and isinstance(v, ast.Call) and isinstance(v.func, ast.Subscript) and "data_functions" in dump(v.func.value):
                    out.append((k, v))
        if isinstance(n, ast.Call) and dump(n.func) == "__store__" and len(n.args) == 3:
            v = n.args[2]
            if isinstance(v, ast.Call) and isinstance(v.func, ast.Subscript) and "data_functions" in dump(v.func.value):
                out.append((n.args[1], v))
    return out


def r3b_data_loop(repo: Repo, rep):
    R = rep.rule("R-C04-3b", "data dictionary: data[fun] = self.<data_functions>[fun](coordinates) for every fun of the same mapping, key == subscript", floor=6,
                 why="a data function stored under another name, or skipped, reaches the residual under the wrong argument")
    for modname, cname in SCOPE:
        ci = repo.cls(f"{modname}.{cname}")
        fi = ci.methods.get("forward")
        if fi is None:
            continue
        rep.saw(fi)
        for p in paths(fi.node, track_stores=True):
            if p.ret is RAISE or p.ret is None:
                continue
            res = [c for c in _calls(p.ret) if dump(c.func) == "self.residual_fn"]
            if not res or not res[0].args:
                continue  # R-C04-4 reports the missing composition
            entries = _data_entries(res[0].args[0])
            if not entries:
                rep.violation(R, fi.site(p.ret_node), fi.fq, "the data functions are evaluated and passed to the residual", "no entry `name: data_function(coords)` in the residual argument", "no data entries")
                continue
            for k, v in entries:
                key, idx, mp = dump(k), dump(v.func.slice), dump(v.func.value)
                over = getattr(v, "_iter_src", None) or (p.loopvars.get(key) if isinstance(k, ast.Name) else None)
                same_key = key == idx
                if isinstance(k, ast.JoinedStr):
                    # renamed on the fly: f'{name}_left' — the name part is the subscript, the suffix names the same side as the mapping
                    fv = [x for x in k.values if isinstance(x, ast.FormattedValue)]
                    lit = "".join(x.value for x in k.values if isinstance(x, ast.Constant) and isinstance(x.value, str))
                    side = [w for w in ("left", "right") if w in mp]
                    same_key = len(fv) == 1 and dump(fv[0].value) == idx and (not side or side[0] in lit) and not any(w in lit for w in ("left", "right") if w not in side)
                good = same_key and over is not None and dump(over) in (mp, f"{mp}.keys()", f"{mp}.items()")
                rep.check(R, good, fi.site(p.ret_node), fi.fq, f"for f in {mp}: data[f] = {mp}[f](coords)", f"data[{key}] = {mp}[{idx}](..), {key} over {dump(over)}", f"data[{key}] = {mp}[{idx}] over {dump(over)}")


REDUCTIONS = {
    # class: (module, expected error_fn ctor, expected reduce_fn)
    "PINNCondition": (COND, "SquaredError()", "torch.mean"),
    "MeanCondition": (COND, "torch.nn.Identity()", "torch.mean"),
    "PIDeepONetCondition": ("problem.conditions.deeponet_condition", "SquaredError()", "torch.mean"),
    "VariationalPINNCondition": ("problem.conditions.variational_condition", "SquaredError()", "torch.mean"),
}


def r5_reductions(repo: Repo, rep):
    R = rep.rule("R-C04-5", "documented reductions: PINN-type = mean of SquaredError, mean/Deep-Ritz = mean of identity; SquaredError = sum of squares over the last axis; "
                 "data conditions = |model - target|, max for 'inf', mean(a**norm) else, root last", floor=9,
                 why="the loss a user reads in the documentation is what the optimiser must minimise")
    for cname, (mod, err, red) in REDUCTIONS.items():
        ci = repo.cls(f"{mod}.{cname}")
        init = ci.methods.get("__init__")
        if init is None:
            raise AnalysisError(f"{cname}.__init__ vanished")
        rep.saw(init)
        sup = [c for c in ast.walk(init.node) if isinstance(c, ast.Call) and dump(c.func) == "super().__init__"]
        if len(sup) != 1:
            rep.undecided(R, init.site(), init.fq, "one super().__init__ call", f"{len(sup)}")
            continue
        e, r = kwarg(sup[0], "error_fn"), kwarg(sup[0], "reduce_fn")
        txt = f"error_fn={dump(e)}, reduce_fn={dump(r)}"
        good = e is not None and r is not None and dump(e).replace("nn.Identity", "torch.nn.Identity").replace("torch.torch.", "torch.") == err and dump(r) == red
        rep.check(R, good, init.site(sup[0]), init.fq, f"error_fn={err}, reduce_fn={red}", txt, txt)
    # adaptive point weights: reduce = mean(weight layer(error)), the layer sized by the sampler and registered on the condition
    aw = repo.cls(f"{COND}.AdaptiveWeightsCondition")
    init = aw.methods.get("__init__")
    if init is None:
        raise AnalysisError("AdaptiveWeightsCondition.__init__ vanished")
    rep.saw(init)
    sup = [c for c in ast.walk(init.node) if isinstance(c, ast.Call) and dump(c.func) == "super().__init__"]
    red = kwarg(sup[0], "reduce_fn") if len(sup) == 1 else None
    body = None
    if isinstance(red, ast.Lambda) and len(red.args.args) == 1:
        body, arg = red.body, red.args.args[0].arg
    elif isinstance(red, ast.Name):
        for n in ast.walk(init.node):
            if isinstance(n, ast.FunctionDef) and n.name == red.id and len(n.args.args) == 1:
                ps_ = [q for q in paths(n) if q.ret is not RAISE and q.ret is not None]
                if len(ps_) == 1:
                    body, arg = ps_[0].ret, n.args.args[0].arg
    layers = [dump(t) for n in ast.walk(init.node) if isinstance(n, ast.Assign) and isinstance(n.value, ast.Call) and ends(attr_chain(n.value.func), "AdaptiveWeightLayer") for t in n.targets]
    good = body is not None and bool(layers) and dump(body).replace(" ", "") in tuple(f"torch.mean({l}({arg}))" for l in layers)
    rep.check(R, good, init.site(), init.fq, "reduce_fn = mean(adaptive_layer(point-wise error))", dump(body)[:100] if body is not None else dump(red)[:60], dump(body)[:100] if body is not None else "reduce_fn")
    # DeepRitz inherits MeanCondition's pair
    dr = repo.cls(f"{COND}.DeepRitzCondition")
    rep.check(R, [b.name for b in dr.bases] == ["MeanCondition"] and not any(k in ast.unparse(dr.methods["__init__"].node) for k in ("error_fn", "reduce_fn")) if "__init__" in dr.methods else True,
              dr.module.relpath, dr.fq, "DeepRitzCondition uses MeanCondition's reduction unchanged", str([b.name for b in dr.bases]), "DeepRitz")
    # forward is inherited (no override changes the pipeline)
    for cname in ("PINNCondition", "MeanCondition", "DeepRitzCondition", "AdaptiveWeightsCondition"):
        ci = repo.cls(f"{COND}.{cname}")
        rep.check(R, "forward" not in ci.methods, ci.module.relpath, ci.fq, "forward inherited from SingleModuleCondition", "overrides forward", "override")
    se = repo.cls(f"{COND}.SquaredError")
    fw = se.methods.get("forward")
    if fw is None:
        raise AnalysisError("SquaredError.forward vanished")
    rep.saw(fw)
    x = fw.params[1]
    for p in paths(fw.node):
        if p.ret is RAISE:
            continue
        t = dump(p.ret).replace(" ", "")
        # structural: a sum over ONE axis of the element-wise square of the input, and that axis is the last one (the components) -
        # axis 1 is the component axis only for (points, components) residuals; DeepONet / integro residuals are (functions, points, components)
        r = p.ret
        ok_sum = isinstance(r, ast.Call) and attr_chain(r.func) == "torch.sum" and r.args
        axis = kwarg(r, "dim", 1) if ok_sum else None
        if ok_sum and axis is None:
            axis = kwarg(r, "axis")
        sq = r.args[0] if ok_sum else None
        squared = sq is not None and ((isinstance(sq, ast.BinOp) and isinstance(sq.op, ast.Pow) and dump(sq.left) == x and dump(sq.right) == "2")
                                      or (isinstance(sq, ast.BinOp) and isinstance(sq.op, ast.Mult) and dump(sq.left) == dump(sq.right) == x)
                                      or (isinstance(sq, ast.Call) and attr_chain(sq.func) in ("torch.square", "torch.pow") and sq.args and dump(sq.args[0]) == x))
        rep.check(R, bool(ok_sum and squared and axis is not None), fw.site(), fw.fq, "SquaredError.forward = sum(x**2, dim=<one axis>)", t, t)
        if ok_sum and squared and axis is not None:
            rep.check(R, dump(axis) == "-1", fw.site(), fw.fq, "the squares are summed over the last axis (components), whatever the number of batch axes",
                      f"dim={dump(axis)}: for (functions, points, components) residuals axis 1 are the points", f"SquaredError over axis {dump(axis)}")
    # data conditions
    cond = repo.cls(f"{COND}.Condition")
    for ci in repo.subclasses(cond):
        cd = ci.methods.get("_compute_dist")
        if cd is not None and ci.name in ("DataCondition", "DeepONetDataCondition"):
            rep.saw(cd)
            for p in paths(cd.node):
                if p.ret is RAISE:
                    continue
                r = p.ret
                good = isinstance(r, ast.Call) and ends(attr_chain(r.func), "abs") and len(r.args) == 1 and isinstance(r.args[0], ast.BinOp) and isinstance(r.args[0].op, ast.Sub)
                if good:
                    l, rr = r.args[0].left, r.args[0].right
                    good = "self.module(" in dump(l) and dump(rr).endswith(".as_tensor") and "batch" in dump(rr)
                    # model evaluated on the batch's own input, target is the batch's own output
                    good = good and _batch_index(l) != _batch_index(rr)
                rep.check(R, good, cd.site(p.ret_node), cd.fq, "|model(batch input) - batch target|", dump(r)[:140], dump(r)[:140])
                constrained = [pol for g, pol, k in p.guards if dump(g) == "self.constrain_fn"]
                if good and constrained and not constrained[0]:
                    # without a constrain function the model output is a Points object: the target columns are paired with it by NAME
                    tgt = r.args[0].right
                    sel = [c for c in ast.walk(tgt) if isinstance(c, ast.Subscript) and any(isinstance(x, ast.Call) and attr_chain(x.func) == "list" and x.args and
                                                                                         ("self.module(" in dump(x.args[0]) or "output_space" in dump(x.args[0])) for x in ast.walk(c.slice))]
                    rep.check(R, bool(sel), cd.site(p.ret_node), cd.fq, "the target's columns are selected by the model's output variables (list(<output>.space.keys())) before the subtraction",
                              f"target used as stored: {dump(tgt)[:80]}", f"target not aligned by name: {dump(tgt)[:80]}")
    from .c16 import data_loss_rules
    R2 = rep.rule("R-C04-5b", "data conditions over the full data set: max / mean of per-batch means, root applied last", floor=3,
                  why="the documented norm of model-minus-target over the data set")
    data_loss_rules(repo, rep, R2, R)


def _batch_index(e):
    for n in ast.walk(e):
        if isinstance(n, ast.Subscript) and getattr(n, "_tuple_elt", False) and dump(n.value) == "batch":
            return n.slice.value
    return None


def r6_track(repo: Repo, rep):
    R = rep.rule("R-C04-6", "track_coord_gradients sets requires_grad on every coordinate view and returns (coords, Points.from_coordinates(coords)) of the same tensors",
                 floor=2, why="derivatives w.r.t. a named coordinate exist only if the model input is rebuilt from the very tensors handed to the residual")
    P = repo.cls("problem.spaces.points.Points")
    fi = P.methods.get("track_coord_gradients")
    if fi is None:
        raise AnalysisError("Points.track_coord_gradients vanished")
    rep.saw(fi)
    for p in paths(fi.node):
        if p.ret is RAISE:
            continue
        r = p.ret
        good = isinstance(r, ast.Tuple) and len(r.elts) == 2 and dump(r.elts[0]) == "self.coordinates" and dump(r.elts[1]) in ("Points.from_coordinates(self.coordinates)", "self.from_coordinates(self.coordinates)")
        same = good and def_id(r.elts[0]) is not None and def_id(r.elts[0]) == def_id(r.elts[1].args[0])
        rep.check(R, good and same, fi.site(p.ret_node), fi.fq, "returns (c, Points.from_coordinates(c)) with ONE coordinates evaluation c", dump(r), dump(r))
        stores = [e for e in p.events if e.kind == "attr" and dump(e.target).endswith(".requires_grad")]
        lv = [k for k, it in p.loopvars.items() if dump(it) == "self.coordinates"]
        ok = len(stores) == 1 and bool(lv) and dump(stores[0].target) == f"self.coordinates[{lv[0]}].requires_grad" and dump(stores[0].value) == "True"
        rep.check(R, ok, fi.site(), fi.fq, "coords[v].requires_grad = True for every variable", f"{[dump(s.node) for s in stores]}", "requires_grad")


def r7_sibling_init(repo: Repo, rep):
    R = rep.rule("R-C04-7", "a condition whose forward reads self.last_unreduced_loss assigns it in its constructor chain (adaptive samplers)", floor=4,
                 why="otherwise the first forward with an adaptive sampler raises AttributeError instead of returning the loss")
    cond = repo.cls(f"{COND}.Condition")
    for ci in repo.subclasses(cond):
        fw = ci.methods.get("forward")
        if fw is None:
            continue
        reads = any(isinstance(n, ast.Attribute) and n.attr == "last_unreduced_loss" and isinstance(n.ctx, ast.Load) for n in ast.walk(fw.node))
        if not reads:
            continue
        rep.saw(fw)
        assigned = False
        for c in repo.mro(ci):
            init = c.methods.get("__init__")
            if init is None:
                continue
            for n in ast.walk(init.node):
                if isinstance(n, ast.Assign) and any(dump(t) == "self.last_unreduced_loss" for t in n.targets):
                    assigned = True
            if "__init__" in c.methods:
                # stop at the first constructor that does not chain to super().__init__
                if not any(isinstance(x, ast.Call) and dump(x.func) == "super().__init__" for x in ast.walk(init.node)):
                    break
        rep.check(R, assigned, fw.site(), ci.fq, "self.last_unreduced_loss initialised in __init__ (chain)", "read in forward, never assigned by a constructor", "last_unreduced_loss uninitialised")


def r8_per_function_points(repo: Repo, rep):
    R = rep.rule("R-C04-8", "operator conditions: the trunk points are copied once per input function BEFORE their coordinates are tracked (every function differentiates its own copy)", floor=1,
                 why="coordinates shared by all functions receive the gradient of every function: a derivative w.r.t. them is the sum over the batch of functions")
    n = 0
    for modname, cname in SCOPE:
        if "deeponet" not in modname:
            continue
        ci = repo.cls(f"{modname}.{cname}")
        fi = ci.methods.get("forward")
        if fi is None:
            continue
        for p in paths(fi.node):
            if p.ret is RAISE or p.ret is None:
                continue
            tracks = [c for c in _calls(p.ret) if _is_track(c)]
            seen = set()
            for t in tracks:
                if def_id(t) in seen or not isinstance(t.func, ast.Attribute):
                    continue
                seen.add(def_id(t))
                recv = t.func.value
                reps = [c for c in ast.walk(recv) if isinstance(c, ast.Call) and isinstance(c.func, ast.Attribute) and c.func.attr in ("repeat", "tile", "repeat_interleave", "expand")
                        or (isinstance(c, ast.Call) and attr_chain(c.func) in ("torch.repeat_interleave", "torch.tile"))]
                per_fn = [c for c in reps if any("function_set" in dump(a) and "len(" in dump(a) for a in list(c.args) + [k.value for k in c.keywords])]
                views = [c for c in per_fn if isinstance(c.func, ast.Attribute) and c.func.attr == "expand"]
                n += 1
                rep.check(R, bool(per_fn) and not views, fi.site(p.ret_node), fi.fq, "tracked points = draw replicated len(function_set) times (a copy, not a broadcast view)",
                          f"tracked `{dump(recv)[:120]}`", f"tracked {dump(recv)[:100]}")
            break
    if n == 0:
        rep.undecided(R, "src/torchphysics/problem/conditions/deeponet_condition.py", "DeepONet conditions", "a tracked draw in an operator condition", "none found")


def r9_function_set_flag(repo: Repo, rep):
    R = rep.rule("R-C04-9", "DeepONet conditions decide whether to hand the input functions to the residual from ALL declared residual parameters (residual_fn.args), "
                 "not only from those without a default", floor=1,
                 why="a residual `def r(u, t, f=0.0)` names the function-space output too: deciding by necessary_args silently evaluates it with f = 0.0 instead of the sampled functions")
    ci = repo.cls("problem.conditions.deeponet_condition.DeepONetSingleModuleCondition")
    init = ci.methods.get("__init__")
    if init is None:
        raise AnalysisError("DeepONetSingleModuleCondition.__init__ vanished")
    rep.saw(init)
    from ..util import deref, single_defs
    tmp = single_defs(init.node)
    stores = [n for n in ast.walk(init.node) if isinstance(n, ast.Assign) and any(dump(t) == "self.eval_function_set" for t in n.targets)]
    if not stores:
        rep.undecided(R, init.site(), init.fq, "self.eval_function_set assigned", "not found")
        return
    for st in stores:
        v = deref(st.value, tmp)
        names = {x.attr for x in ast.walk(v) if isinstance(x, ast.Attribute) and dump(x.value).endswith("residual_fn")}
        if not names:
            rep.undecided(R, init.site(st), init.fq, "the flag is derived from the residual's parameters", dump(v)[:100])
            continue
        rep.check(R, names == {"args"}, init.site(st), init.fq, "derived from residual_fn.args", f"derived from residual_fn.{sorted(names)}", f"flag from {sorted(names)}")


def r10_periodic_sides(repo: Repo, rep):
    R = rep.rule("R-C04-10", "PeriodicCondition samples its LEFT points on the interval's left end and its RIGHT points on the right end", floor=2,
                 why="with the two boundary samplers exchanged u_left / x_left / f_left are the values at the right end: every residual that is not symmetric in the two sides changes")
    ci = repo.cls("problem.conditions.condition.PeriodicCondition")
    init = ci.methods.get("__init__")
    if init is None:
        raise AnalysisError("PeriodicCondition.__init__ vanished")
    rep.saw(init)
    seen = 0
    for p in paths(init.node, expand_self=False):
        if p.ret is RAISE:
            continue
        for side, other in (("left", "right"), ("right", "left")):
            v = p.attrs.get(f"self.{side}_sampler")
            if v is None:
                continue
            t = dump(v)
            seen += 1
            own, foreign = f"boundary_{side}" in t, f"boundary_{other}" in t
            if own == foreign:
                rep.undecided(R, init.site(), init.fq, f"self.{side}_sampler recognisable as a sampler on one end of the periodic interval", t[:100])
            else:
                rep.check(R, own, init.site(), init.fq, f"self.{side}_sampler samples periodic_interval.boundary_{side}", t[:100], f"{side}_sampler on boundary_{other}")
        break
    if seen < 2:
        rep.undecided(R, init.site(), init.fq, "both side samplers assigned on the first path", f"{seen} found")


def r11_preevaluated_data_shape(repo: Repo, rep):
    R = rep.rule("R-C04-11", "data pre-evaluated at construction (static samplers) has the batch axes of the data evaluated in forward: a condition that inserts a NON-leading axis into "
                 "its points before it evaluates the data functions inserts the same axis into the pre-evaluated values", floor=1,
                 why="IntegroPINNCondition evaluates on points of shape (n, 1, d); values pre-evaluated on (n, d) points have shape (n, k) and broadcast against (n, 1, k) to (n, n, k): "
                     "the loss with a static sampler differs from the loss with the same points drawn afresh (0.74 instead of 0.54)")
    cond = repo.cls(f"{COND}.Condition")
    n = 0
    for ci in repo.subclasses(cond, strict=True):
        fw = ci.methods.get("forward")
        init = ci.methods.get("__init__")
        if fw is None or init is None:
            continue
        if not any(isinstance(c, ast.Call) and dump(c.func) == "self._setup_data_functions" for c in ast.walk(init.node)):
            continue
        # axes inserted into the drawn points before the data functions see them
        inserted = []
        for p in paths(fw.node):
            if p.ret is RAISE or p.ret is None:
                continue
            for e in p.events:
                if e.value is None:
                    continue
                for c in ast.walk(e.value):
                    if isinstance(c, ast.Subscript) and dump(c.value) == "self.data_functions" or (isinstance(c, ast.Call) and isinstance(c.func, ast.Subscript) and dump(c.func.value) == "self.data_functions"):
                        call = c if isinstance(c, ast.Call) else None
                        if call is None or not call.args:
                            continue
                        arg = call.args[0]
                        for u in ast.walk(arg):
                            if isinstance(u, ast.Call) and isinstance(u.func, ast.Attribute) and u.func.attr == "unsqueeze":
                                d = kwarg(u, "dim", 0)
                                if d is not None and dump(d) not in ("0",):
                                    inserted.append(dump(d))
            break
        if not inserted:
            continue
        n += 1
        rep.saw(init), rep.saw(fw)
        # the constructor must give the pre-evaluated values the same axis
        fixes = [c for c in ast.walk(init.node) if isinstance(c, ast.Call) and isinstance(c.func, ast.Attribute) and c.func.attr == "unsqueeze" and ("data_functions" in dump(c) or "fun" in dump(c.func.value))]
        # the same with the value held in a temporary or the function form torch.unsqueeze(v, 1): what is stored back into `<wrapper>.fun` is an unsqueezed tensor
        fixes += [a for a in ast.walk(init.node) if isinstance(a, ast.Assign) and any(isinstance(t, ast.Attribute) and t.attr == "fun" for t in a.targets)
                  and isinstance(a.value, ast.Call) and isinstance(a.value.func, ast.Attribute) and a.value.func.attr == "unsqueeze"]
        own_setup = ci.methods.get("_setup_data_functions")
        rep.check(R, bool(fixes) or own_setup is not None, init.site(), init.fq, f"pre-evaluated data gets the axis forward inserts (unsqueeze(dim={inserted[0]}))",
                  "values pre-evaluated on the un-expanded points are used as they are", f"{ci.name}: pre-evaluated data lacks axis {inserted[0]}")
    if n == 0:
        rep.undecided(R, "src/torchphysics/problem/conditions", "-", "a condition that expands its points before the data functions", "none found")


def run(repo: Repo, rep):
    from .c14 import r3_periodic  # a periodic condition evaluates each side's data functions on that side's coordinates
    r3_periodic(repo, rep)
    from .c09 import r3_fast_path  # derivatives of a DeepONet output w.r.t. the trunk coordinates run through the library's own autograd Function
    r3_fast_path(repo, rep)
    r9_function_set_flag(repo, rep)
    r11_preevaluated_data_shape(repo, rep)
    r10_periodic_sides(repo, rep)
    from .generic import g_arg_constructor_parameters
    g_arg_constructor_parameters(repo, rep, lambda m: ".conditions." in m, floor=10,
                                 why="a condition that ignores a constructor argument (weight, norm, root, data functions, parameter) computes another loss than documented")
    from .generic import g_pos_base_constructor_arguments
    g_pos_base_constructor_arguments(repo, rep, lambda m: ".conditions." in m, floor=10,
                                     why="a weight that arrives as constrain_fn (or a norm as root) computes another loss; the pinned tests construct conditions with defaults, where a swap is invisible")
    r8_per_function_points(repo, rep)
    r1234_forward(repo, rep)
    r3b_data_loop(repo, rep)
    r5_reductions(repo, rep)
    r6_track(repo, rep)
    r7_sibling_init(repo, rep)
    from .c14 import r1b_setup  # data functions may be pre-evaluated only for samplers whose points never change
    r1b_setup(repo, rep)
    from .c12 import r3_selection  # name-based selection used by every model's input re-ordering
    r3_selection(repo, rep)
    from .c16 import r1_points_dataset  # a data condition's rows are (input_i, target_i): the loader must permute and window inputs and targets alike
    r1_points_dataset(repo, rep)
    from .c08 import r2_fix_points_order  # "the model outputs at those rows", whatever the variable order of the sampler's space
    r2_fix_points_order(repo, rep)
    from .c13 import r6_no_alias  # conditions re-wrap residual and data functions: values bound with set_default must survive the re-wrap
    r6_no_alias(repo, rep)
    from .c13 import r2_r3_mapping, r4_defaults_alignment  # residual and data functions receive their arguments by name; declared defaults belong to their own parameter
    r2_r3_mapping(repo, rep)
    r4_defaults_alignment(repo, rep)
    from .c03 import r2_pairing, r5_accumulators, r6_value_free_control  # "derivatives of outputs with respect to the named coordinates are available and correct"
    r2_pairing(repo, rep)
    r5_accumulators(repo, rep)
    r6_value_free_control(repo, rep)
    from .c03 import r3_tables, r8_batch_rank  # conditions hand (functions, points, components) coordinates to the operators: they must address components from the end
    r3_tables(repo, rep)
    r8_batch_rank(repo, rep)
    from .c09 import r4_branch_cache  # "the model outputs at those rows": a DeepONet condition's branch features belong to the function set of that condition
    r4_branch_cache(repo, rep)


_C = "src/torchphysics/problem/conditions/condition.py"
_P = "src/torchphysics/problem/spaces/points.py"
_FW = "        x_coordinates, x = x.track_coord_gradients()\n\n        data = {}\n        for fun in self.data_functions:\n            data[fun] = self.data_functions[fun](x_coordinates)\n\n        y = self.module(x)\n\n        unreduced_loss = self.error_fn(\n            self.residual_fn(\n                {**y.coordinates, **x_coordinates, **self.parameter.coordinates, **data}"
MUTANTS = [
    dict(id="C04-M61", file=_C, old="                    fn.fun = fn.fun.unsqueeze(1)\n", new="                    pass\n", rule="R-C04-11", what="pre-evaluated integro data without the points' middle axis (the repaired defect)"),
    dict(id="C04-M60", file=_C, old="            y = y[..., list(model_out.space.keys())]\n", new="", rule="R-C04-5", what="target columns paired by position (the repaired defect)"),
    dict(id="C04-M1", file=_C, old="        return torch.sum(torch.square(x), dim=-1)", new="        return torch.mean(torch.square(x), dim=-1)", rule="R-C04-5", what="mean over components"),
    dict(id="C04-M2", file=_C, old="        return torch.sum(torch.square(x), dim=-1)", new="        return torch.sum(torch.square(x), dim=0)", rule="R-C04-5", what="sum over points"),
    dict(id="C04-M3", file=_C, old=_FW, new=_FW.replace("**self.parameter.coordinates, ", ""), rule="R-C04-3", what="parameters dropped from the residual"),
    dict(id="C04-M4", file=_C, old=_FW, new=_FW.replace("        y = self.module(x)\n", "        y = self.module(self.sampler.sample_points(device=device))\n"), rule=None, rules=["R-C04-1", "R-C04-2"], what="model evaluated on a second draw"),
    dict(id="C04-M5", file=_C, old=_FW, new=_FW.replace("x_coordinates, x = x.track_coord_gradients()", "x_original = x\n        x_coordinates, x = x.track_coord_gradients()").replace("y = self.module(x)", "y = self.module(x_original)"), rule="R-C04-2", what="model gets the untracked points"),
    dict(id="C04-M6", file=_C, old=_FW, new=_FW.replace(", **data}", "}"), rule="R-C04-3", what="data dropped"),
    dict(id="C04-M7", file=_C, old="            error_fn=SquaredError(),\n            reduce_fn=torch.mean,\n            name=name,\n            track_gradients=track_gradients,\n            data_functions=data_functions,\n            parameter=parameter,\n            weight=weight,\n        )\n\n\nclass PeriodicCondition",
         new="            error_fn=SquaredError(),\n            reduce_fn=torch.sum,\n            name=name,\n            track_gradients=track_gradients,\n            data_functions=data_functions,\n            parameter=parameter,\n            weight=weight,\n        )\n\n\nclass PeriodicCondition", rule="R-C04-5", what="PINNCondition sums"),
    dict(id="C04-M8", file=_P, old="        return points_coordinates, Points.from_coordinates(points_coordinates)", new="        return points_coordinates, self", rule="R-C04-6", what="original points returned"),
    dict(id="C04-M9", file=_C, old="            data_left[fun] = self.left_data_functions[fun](", new="            data_left[fun] = self.right_data_functions[fun](", rule="R-C04-3b", what="left data from the right functions"),
]
TWINS = [
    dict(id="C04-T1", file=_C, old=_FW, new=_FW.replace("        unreduced_loss = self.error_fn(\n            self.residual_fn(\n                {**y.coordinates, **x_coordinates, **self.parameter.coordinates, **data}",
                                                         "        inputs = {**x_coordinates, **y.coordinates, **data, **self.parameter.coordinates}\n        unreduced_loss = self.error_fn(\n            self.residual_fn(\n                inputs"), what="mapping built in a local first, reordered"),
]

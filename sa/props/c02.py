"""C02 — samplers return exactly n points per parameter row, paired in order."""
from __future__ import annotations

import ast
from typing import List, Optional, Tuple

from ..absdom.count import GRID_K, GRID_N, RowEval, Unknown
from ..defassign import unassigned_reads
from ..flow import RAISE, attr_chain, def_id, dump, kwarg, paths
from ..inline import expand_helpers
from ..repo import AnalysisError, Repo
from ..util import ends

EXPLANATION = (
    "Row-layout discipline of the sampler layer decided statically: the replication primitive is parameter-major "
    "(repeat_interleave along axis 0); at every join of points with replicated parameters the pair of layouts is admissible "
    "(tile x interleave, parameter-major domain result x interleave, single row x interleave); per-parameter-row loops use params[i] "
    "only, accumulate in loop order, cut to n and re-initialise their rejection-loop guards per row; the sampler algebra "
    "(product / concat / append / len) has the documented shape; definite assignment holds on all paths (loops run >= once); "
    "row-count terms of the domain operations are evaluated on a grid of (n, k) and must agree wherever tensors are combined."
)
ASSUMPTIONS = [
    "loops run at least once",
    "a domain's sample_* called with n and k parameter rows returns n*max(k,1) rows, parameter-major (induction hypothesis for composite callers)",
    "count equalities are decided by finite instantiation over n in %s, k in %s (reported, not a proof for all integers)" % (GRID_N, GRID_K),
]
SB = "problem.samplers.sampler_base"
SAMPLER_MODS = ("sampler_base", "random_samplers", "grid_samplers", "data_samplers", "plot_samplers")
OPS = "problem.domains.domainoperations"


def _sampler_funcs(repo: Repo):
    for name, m in repo.modules.items():
        if name.split(".")[-1] in SAMPLER_MODS and ".samplers." in name:
            for ci in m.classes.values():
                for fi in ci.methods.values():
                    yield ci, fi


# ------------------------------------------------------------------ R-C02-1
def r1_replication(repo: Repo, rep):
    R = rep.rule("R-C02-1", "both _repeat_params replicate parameter-major: repeat_interleave(params, n, dim=0) in the parameters' space", floor=2,
                 why="rows i*n..(i+1)*n-1 must carry parameter row i; a tiled replication pairs row j with parameter j mod k")
    for spec in (f"{SB}.PointSampler", "problem.domains.domain.Domain"):
        ci = repo.cls(spec)
        fi = ci.methods.get("_repeat_params")
        if fi is None:
            raise AnalysisError(f"{spec}._repeat_params vanished")
        rep.saw(fi)
        pn = "params"
        cnt = [p for p in fi.params[1:] if p != pn]
        for p in paths(fi.node):
            if p.ret is RAISE:
                continue
            r = p.ret
            val = r.elts[1] if isinstance(r, ast.Tuple) and len(r.elts) == 2 else r
            good = isinstance(val, ast.Call) and attr_chain(val.func) == "Points" and len(val.args) >= 2 and dump(val.args[1]) == f"{pn}.space"
            if good:
                t = val.args[0]
                good = False
                if isinstance(t, ast.Call) and ends(attr_chain(t.func), "repeat_interleave"):
                    args = list(t.args)
                    if isinstance(t.func, ast.Attribute) and attr_chain(t.func.value) not in ("torch",):
                        args = [t.func.value] + args
                    d = kwarg(t, "dim", 2 if attr_chain(t.func) == "torch.repeat_interleave" else 1)
                    good = len(args) >= 2 and dump(args[0]) in (pn, f"{pn}.as_tensor", f"{pn}._t") and cnt and dump(args[1]) == cnt[0] and d is not None and dump(d) == "0"
            rep.check(R, good, fi.site(), fi.fq, "Points(repeat_interleave(params, n, dim=0), params.space)", dump(val)[:120], dump(val)[:120])


# ------------------------------------------------------------------ R-C02-2
def _layout(e: ast.AST) -> Tuple[str, Optional[ast.AST], Optional[ast.AST]]:
    """-> (kind, base, count)"""
    x = e
    while isinstance(x, ast.Call) and attr_chain(x.func) == "Points" and x.args:
        x = x.args[0]
    if isinstance(x, ast.Subscript) and isinstance(x.value, ast.Call) and (attr_chain(x.value.func) or "").endswith("._repeat_params") \
            and isinstance(x.slice, ast.Constant) and x.slice.value == 1:
        x = x.value  # the second element of (count, repeated parameters), unpacked or indexed
    if isinstance(x, ast.Call):
        ch = attr_chain(x.func) or ""
        if ch.endswith("._repeat_params") and len(x.args) == 2:
            return "interleave", x.args[0], x.args[1]
        if ends(ch, "repeat_interleave"):
            args = list(x.args)
            if isinstance(x.func, ast.Attribute) and attr_chain(x.func.value) != "torch":
                args = [x.func.value] + args
            if len(args) >= 2:
                return "interleave", args[0], args[1]
        if isinstance(x.func, ast.Attribute) and x.func.attr in ("repeat", "tile") and x.args:
            return "tile", x.func.value, x.args[0]
        if isinstance(x.func, ast.Attribute) and x.func.attr in ("sample_random_uniform", "sample_grid") or ch in ("sample_function", "sample_func"):
            p = kwarg(x, "params", 2)
            return "domaincall", p, kwarg(x, "n", 0)
    return "other", x, None


def _single_row(e: Optional[ast.AST]) -> bool:
    if e is None:
        return False
    t = dump(e)
    if t == "Points.empty()":
        return True  # no parameters at all: the replication is trivially aligned
    if isinstance(e, ast.IfExp):
        return _single_row(e.body) and ("Points.empty()" in dump(e.orelse))
    if isinstance(e, ast.Subscript) and isinstance(e.slice, ast.Tuple) and len(e.slice.elts) == 1 and isinstance(e.slice.elts[0], ast.Name):
        return True
    return t in ("ith_params", "current_params", "ith_ani_points")


def r2_layout_pairing(repo: Repo, rep):
    R = rep.rule("R-C02-2", "at every join of points with replicated parameters the layouts pair up: (tile, interleave), "
                 "(parameter-major domain result for the same params, interleave) or (single parameter row, interleave)", floor=7,
                 why="(interleave, interleave) or (tile, tile) pairs row i with the wrong parameter row")
    n = 0
    for ci, fi in _sampler_funcs(repo):
        src = ast.unparse(fi.node)
        if ".join(" not in src or ("_repeat_params" not in src and "repeat_interleave" not in src):
            continue
        rep.saw(fi)
        seen = set()
        for p in paths(fi.node):
            for e in p.events:
                if e.value is None:
                    continue
                for c in ast.walk(e.value):
                    if not (isinstance(c, ast.Call) and isinstance(c.func, ast.Attribute) and c.func.attr == "join" and len(c.args) == 1):
                        continue
                    key = dump(c)
                    if key in seen:
                        continue
                    a, b = _layout(c.func.value), _layout(c.args[0])
                    kinds = (a[0], b[0])
                    if "interleave" not in kinds and "tile" not in kinds:
                        continue
                    seen.add(key)
                    n += 1
                    pts, par = (a, b) if b[0] == "interleave" or (a[0] != "interleave" and b[0] == "tile") else (b, a)
                    detail = f"{pts[0]}({dump(pts[1])[:40] if pts[1] is not None else ''}) ⨝ {par[0]}({dump(par[1])[:40] if par[1] is not None else ''}, {dump(par[2])[:30] if par[2] is not None else ''})"
                    if par[0] != "interleave":
                        rep.violation(R, fi.site(e.node), fi.fq, "the parameter side is replicated parameter-major (interleave)", detail, detail)
                        continue
                    P, N = par[1], par[2]
                    single = _single_row(P) or _single_row(_orig(P))
                    if pts[0] == "interleave":
                        good = single and False
                        rep.violation(R, fi.site(e.node), fi.fq, "points tiled (or parameter-major) against interleaved parameters", detail, detail)
                    elif pts[0] == "tile":
                        # tile count == number of parameter rows; interleave count == rows of the tiled base
                        K = dump(pts[2]).replace(" ", "")
                        pk = dump(P)
                        okK = K in (f"max(1,len({pk}))", f"len({pk})", f"max(len({pk}),1)") or K in ("max(1,len(params))", "len(params)")
                        Nn = dump(N).replace(" ", "")
                        base = dump(pts[1])
                        okN = Nn in (f"len({base})".replace(" ", ""), "len(self)") or (base.replace(" ", "") in Nn)
                        rep.check(R, okK and okN, fi.site(e.node), fi.fq, "tile(points, #param rows) ⨝ interleave(params, #points)", detail, detail)
                    elif pts[0] == "domaincall":
                        same = pts[1] is not None and dump(pts[1]) == dump(P)
                        rep.check(R, same or single, fi.site(e.node), fi.fq, "domain result computed for the same params as the interleaved ones", detail, detail)
                    else:
                        rep.check(R, single or _is_static_data(par), fi.site(e.node), fi.fq, "un-replicated points joined only with a single replicated parameter row", detail, detail)
    rep.extra["join_sites"] = n


def _orig(e):
    return e


def _is_static_data(par) -> bool:
    return "data_for_other_variables" in dump(par[1])


# ------------------------------------------------------------------ R-C02-3
def _local_defs(fn: ast.FunctionDef):
    """name -> value for locals assigned exactly once by a plain assignment (used to see through temporaries)"""
    defs, count = {}, {}
    for n in ast.walk(fn):
        if isinstance(n, ast.Assign) and len(n.targets) == 1 and isinstance(n.targets[0], ast.Name):
            defs[n.targets[0].id] = n.value
            count[n.targets[0].id] = count.get(n.targets[0].id, 0) + 1
        elif isinstance(n, (ast.AugAssign,)) and isinstance(n.target, ast.Name):
            count[n.target.id] = count.get(n.target.id, 0) + 2
    return {k: v for k, v in defs.items() if count.get(k) == 1}


def _subst_names(e: ast.AST, defs) -> ast.AST:
    import copy

    class S(ast.NodeTransformer):
        def visit_Name(self, n):
            return copy.deepcopy(defs[n.id]) if isinstance(n.ctx, ast.Load) and n.id in defs else n
    return S().visit(copy.deepcopy(e))


def _per_row_loops(fn: ast.FunctionDef) -> List[ast.For]:
    out = []
    defs = _local_defs(fn)
    for l in ast.walk(fn):
        if isinstance(l, ast.For) and isinstance(l.iter, ast.Call) and attr_chain(l.iter.func) == "range" and len(l.iter.args) == 1:
            arg = l.iter.args[0]
            for _ in range(4):  # see through temporaries (count = max(1, m); m = len(params))
                arg = _subst_names(arg, defs)
            a = dump(arg).replace(" ", "")
            if a in ("max(1,len(params))", "max(len(params),1)"):
                out.append(l)
    return out


CUT_OK = ("_cut_tensor_to_length_n", "_sample_for_ith_param", "_append_random_points")


def r3_per_row_loops(repo: Repo, rep, rule_id="R-C02-3"):
    R = rep.rule(rule_id, "per-parameter-row loops: only params[i] is used, results accumulate in loop order, each contribution is cut to n, "
                 "and the guards of the inner rejection loop are re-initialised for every row", floor=12,
                 why="stale guard state skips the rejection loop for later rows (they receive row 0's points); un-cut contributions break n per row")
    funcs = [fi for _, fi in _sampler_funcs(repo)]
    helper = repo.module(f"{OPS}.sampler_helper")
    funcs += list(helper.functions.values())
    n = 0
    for fi in funcs:
        loops = _per_row_loops(fi.node)
        if not loops:
            continue
        rep.saw(fi)
        for l in loops:
            n += 1
            i = dump(l.target)
            # (a) params only through params[i,]
            bad = []
            for node in ast.walk(l):
                if isinstance(node, ast.Name) and node.id == "params" and isinstance(node.ctx, ast.Load):
                    par = _parent(l, node)
                    ok = isinstance(par, ast.Subscript) and par.value is node and dump(par.slice) in (f"({i},)", i)
                    ok = ok or (isinstance(par, ast.Call) and attr_chain(par.func) == "len")
                    ok = ok or (isinstance(par, ast.Call) and dump(par.func) in ("self._sample_for_ith_param",) and any(dump(a) == i for a in par.args))
                    if not ok:
                        bad.append(dump(par)[:60] if par is not None else "params")
            rep.check(R, not bad, fi.site(l), fi.fq, f"inside the row loop `params` is only used as params[{i},]", f"{bad[:2]}", str(bad[:2]))
            # (b)+(c) accumulation
            accs = []
            for s in l.body:
                if isinstance(s, ast.Assign) and isinstance(s.targets[0], ast.Name):
                    t = s.targets[0].id
                    v = s.value
                    if isinstance(v, ast.Call) and dump(v.func) == "self._set_sampled_points" and len(v.args) == 2 and dump(v.args[0]) == t:
                        accs.append((s, t, v.args[1]))
                    elif isinstance(v, ast.BinOp) and isinstance(v.op, ast.BitOr) and dump(v.left) == t:
                        accs.append((s, t, v.right))
                    elif isinstance(v, ast.BinOp) and isinstance(v.op, ast.BitOr) and dump(v.right) == t:
                        rep.violation(R, fi.site(s), fi.fq, "contributions appended in loop order (accumulator on the left)", dump(s), dump(s))
            if len(accs) != 1:
                rep.undecided(R, fi.site(l), fi.fq, "exactly one accumulation per row", f"{len(accs)} found")
                continue
            s, acc, contrib = accs[0]
            ok, why = _contribution_has_n_rows(l, contrib)
            rep.check(R, ok, fi.site(s), fi.fq, "each row contributes exactly n points (cut / direct n-point call / proven top-up)", why, dump(contrib)[:100])
            # (d) guards of inner while loops re-initialised in this iteration
            for w in [x for x in ast.walk(l) if isinstance(x, ast.While)]:
                guard_names = {n_.id for n_ in ast.walk(w.test) if isinstance(n_, ast.Name)}
                assigned_in_while = {t.id for x in ast.walk(w) for t in _targets(x) if isinstance(t, ast.Name)}
                carried = guard_names & assigned_in_while
                init = set()
                for st in l.body:
                    if st is w or any(x is w for x in ast.walk(st)):
                        break
                    for t in _targets(st):
                        if isinstance(t, ast.Name):
                            init.add(t.id)
                missing = sorted(carried - init)
                rep.check(R, not missing, fi.site(w), fi.fq, "every loop-carried guard variable of the inner `while` is assigned in the row loop before it",
                          f"not re-initialised per row: {missing}", f"stale {missing}")
    rep.extra["per_row_loops"] = n


def _targets(node):
    if isinstance(node, ast.Assign):
        out = []
        for t in node.targets:
            out.extend(t.elts if isinstance(t, (ast.Tuple, ast.List)) else [t])
        return out
    if isinstance(node, (ast.AugAssign, ast.AnnAssign)):
        return [node.target]
    return []


def _parent(root, target):
    for n in ast.walk(root):
        for c in ast.iter_child_nodes(n):
            if c is target:
                return n
    return None


def _contribution_has_n_rows(loop: ast.For, contrib: ast.AST) -> Tuple[bool, str]:
    """follow the contribution back through the loop body's assignments"""
    defs = {}
    for s in ast.walk(loop):
        if isinstance(s, ast.Assign) and len(s.targets) == 1 and isinstance(s.targets[0], ast.Name):
            defs.setdefault(s.targets[0].id, []).append(s.value)
    seen = set()
    e = contrib
    for _ in range(6):
        t = dump(e)
        if isinstance(e, ast.Call) and isinstance(e.func, ast.Attribute) and e.func.attr in CUT_OK:
            return True, f"{e.func.attr}(...)"
        if isinstance(e, ast.Subscript):
            sl = e.slice.elts[0] if isinstance(e.slice, ast.Tuple) else e.slice
            if isinstance(sl, ast.Slice) and sl.lower is None and sl.upper is not None and dump(sl.upper) in ("n", "self.n_points"):
                return True, f"[:{dump(sl.upper)}]"
            if isinstance(sl, ast.Subscript) and isinstance(sl.slice, ast.Slice) and sl.slice.upper is not None and dump(sl.slice.upper) in ("n", "self.n_points"):
                return True, f"[idx[:{dump(sl.slice.upper)}]]"
        if isinstance(e, ast.Name) and e.id in defs and e.id not in seen:
            seen.add(e.id)
            e = defs[e.id][-1]
            continue
        break
    return False, f"contribution `{dump(contrib)[:60]}` is not cut to n"


# ------------------------------------------------------------------ R-C02-4
def r4_algebra(repo: Repo, rep):
    R = rep.rule("R-C02-4", "sampler algebra: product samples B with the incoming params and A with B's result, returning A's result; concat = a | b; "
                 "append = a.join(b); len = product / sum / len(a); length recorded from the result; PointSampler.__len__ = length, else n_points, else raise",
                 floor=11, why="these are the documented semantics of *, + and append")
    ps = repo.cls(f"{SB}.ProductSampler")
    fi = ps.methods.get("sample_points")
    if fi is None:
        raise AnalysisError("ProductSampler.sample_points vanished")
    rep.saw(fi)
    for p in paths(fi.node):
        if p.ret is RAISE:
            continue
        r = p.ret
        good = isinstance(r, ast.Call) and dump(r.func) == "self.sampler_a.sample_points" and r.args
        detail = dump(r)[:160]
        if good:
            inner = r.args[0]
            good = isinstance(inner, ast.Call) and dump(inner.func) == "self.sampler_b.sample_points" and inner.args and dump(inner.args[0]) == "params"
        rep.check(R, good, fi.site(), fi.fq, "returns sampler_a.sample_points(sampler_b.sample_points(params))", detail, detail)
        sl = [e for e in p.events if e.kind == "call" and isinstance(e.value, ast.Call) and dump(e.value.func) == "self.set_length"]
        good = len(sl) == 1 and dump(sl[0].value.args[0]) == f"len({dump(r)})"
        rep.check(R, good, fi.site(), fi.fq, "set_length(len(result))", dump(sl[0].value)[:100] if sl else "no set_length", "set_length")
    for cname, op, lenop in (("ConcatSampler", "or", ast.Add), ("AppendSampler", "join", None)):
        ci = repo.cls(f"{SB}.{cname}")
        fi = ci.methods.get("sample_points")
        rep.saw(fi)
        for p in paths(fi.node):
            if p.ret is RAISE:
                continue
            r = p.ret
            a = "self.sampler_a.sample_points(params, device=device)"
            b = "self.sampler_b.sample_points(params, device=device)"
            if op == "or":
                good = isinstance(r, ast.BinOp) and isinstance(r.op, ast.BitOr) and dump(r.left) == a and dump(r.right) == b
                want = "a_points | b_points (a first)"
            else:
                good = isinstance(r, ast.Call) and isinstance(r.func, ast.Attribute) and r.func.attr == "join" and dump(r.func.value) == a and dump(r.args[0]) == b
                want = "a_points.join(b_points)"
            rep.check(R, good, fi.site(), fi.fq, want + " both sampled with the incoming params", dump(r)[:160], dump(r)[:160])
            sl = [e for e in p.events if e.kind == "call" and isinstance(e.value, ast.Call) and dump(e.value.func) == "self.set_length"]
            want_len = f"len({a}) + len({b})" if op == "or" else f"len({a})"
            rep.check(R, len(sl) == 1 and dump(sl[0].value.args[0]) == want_len, fi.site(), fi.fq, "set_length(number of returned rows)", dump(sl[0].value)[:120] if sl else "none", "set_length")
    for cname, want in (("ProductSampler", "len(self.sampler_a) * len(self.sampler_b)"), ("ConcatSampler", "len(self.sampler_a) + len(self.sampler_b)"), ("AppendSampler", "len(self.sampler_a)")):
        ci = repo.cls(f"{SB}.{cname}")
        fi = ci.methods.get("__len__")
        rep.saw(fi)
        rets = [dump(p.ret) for p in paths(fi.node) if p.ret is not RAISE]
        good = sorted(rets) == sorted(["self.length", want]) or rets == [want]
        rep.check(R, good, fi.site(), fi.fq, f"__len__ = recorded length, else {want}", str(rets), str(rets))
    base = repo.cls(f"{SB}.PointSampler")
    fi = base.methods.get("__len__")
    rep.saw(fi)
    ps_ = paths(fi.node)
    table = {}
    for p in ps_:
        g = {dump(x): pol for x, pol, k in p.guards if k == "if"}
        has_len = g.get("self.length is None") is False or g.get("self.length") is True
        no_len = g.get("self.length is None") is True or g.get("self.length") is False
        has_n = g.get("self.n_points is None") is False or g.get("self.n_points") is True
        no_n = g.get("self.n_points is None") is True or g.get("self.n_points") is False
        key = "length set" if has_len else ("length unset, n_points set" if no_len and has_n else ("neither set" if no_len and no_n else f"guards {sorted(g.items())}"))
        table[key] = dump(p.ret) if p.ret is not RAISE else "RAISE"
    want_t = {"length set": "self.length", "length unset, n_points set": "self.n_points", "neither set": "RAISE"}
    rep.check(R, table == want_t, fi.site(), fi.fq, "__len__: length if set, else n_points, else ValueError", str(table), str(sorted(table.items())))
    fi = base.methods.get("_cut_tensor_to_length_n")
    if fi is not None:
        rep.saw(fi)
        for p in paths(fi.node):
            if p.ret is not RAISE:
                rep.check(R, dump(p.ret) == f"{fi.params[1]}[:self.n_points,]", fi.site(), fi.fq, "_cut_tensor_to_length_n = points[:n_points]", dump(p.ret), dump(p.ret))
    fi = base.methods.get("_set_sampled_points")
    if fi is not None:
        rep.saw(fi)
        rets = [dump(p.ret) for p in paths(fi.node) if p.ret is not RAISE]
        a, b = fi.params[1], fi.params[2]
        # the new points alone are returned only because nothing was accumulated yet: no test on the new points leads there
        tmp_sp = {t.id: n.value for n in ast.walk(fi.node) if isinstance(n, ast.Assign) and len(n.targets) == 1 for t in n.targets if isinstance(t, ast.Name)}
        for p in paths(fi.node):
            if p.ret is RAISE or dump(p.ret) != b:
                continue
            reads = set()
            for g, pol, k in p.guards:
                for x in ast.walk(g):
                    if isinstance(x, ast.Name):
                        reads |= {y.id for y in ast.walk(tmp_sp[x.id]) if isinstance(y, ast.Name)} if x.id in tmp_sp else {x.id}
            rep.check(R, b not in reads, fi.site(p.ret_node), fi.fq, "the new points alone are returned only when nothing was accumulated (a test on the accumulated points only)",
                      f"guards {[dump(g)[:40] for g, pol, k in p.guards]}", f"returns {b} under a test of {b}")
        rep.check(R, set(rets) == {b, f"{a} | {b}"}, fi.site(), fi.fq, "_set_sampled_points appends behind the accumulated points", str(rets), str(rets))
    fi = base.methods.get("_sample_params_independent")
    if fi is not None:
        rep.saw(fi)
        for p in paths(fi.node):
            if p.ret is RAISE:
                continue
            sl = [e for e in p.events if e.kind == "call" and isinstance(e.value, ast.Call) and dump(e.value.func) == "self.set_length"]
            good = len(sl) == 1 and dump(sl[0].value.args[0]).startswith("len(sample_function(") and ".repeat" not in dump(sl[0].value.args[0]) and ".join" not in dump(sl[0].value.args[0])
            rep.check(R, good, fi.site(), fi.fq, "length recorded from the un-replicated sample (len(sampler) == rows of a parameter-free call)",
                      dump(sl[0].value)[:120] if sl else "no set_length", "set_length: " + (dump(sl[0].value.args[0])[:80] if sl else "none"))
    fi = base.methods.get("sample_points")
    if fi is not None:
        rep.saw(fi)
        for p in paths(fi.node):
            if p.ret is RAISE:
                continue
            flt = [pol for g, pol, k in p.guards if dump(g) == "self.filter_fn"]
            want = "self._sample_points_with_filter(params, device)" if flt and flt[0] else "self._sample_points(params, device)"
            rep.check(R, dump(p.ret).replace("device=device", "device") == want, fi.site(), fi.fq, "sample_points dispatches on the filter and forwards params", dump(p.ret), dump(p.ret))


# ------------------------------------------------------------------ R-C02-5 (G-DEF)
def r5_definite_assignment(repo: Repo, rep, thorough=False):
    R = rep.rule("R-C02-5", "G-DEF: no local is read on a path where it is unassigned (loops run >= once)", floor=100,
                 why="such a path can only raise UnboundLocalError instead of returning the n points")
    anchored = ("samplers.", "domains.domain", "domainoperations.")
    n = 0
    for fi in repo.all_functions():
        rel = fi.module.name
        if not thorough and not any(a in rel for a in anchored):
            continue
        rep.saw(fi)
        n += 1
        u = unassigned_reads(fi)
        rep.check(R, not u, fi.site(), fi.fq, "every local read is dominated by an assignment", f"possibly unassigned: {u}", str([x[0] for x in u]))
    rep.extra["gdef_functions"] = n


# ------------------------------------------------------------------ R-C02-6
def _shape_attrs(repo):
    from .c05 import shape_function_names
    return shape_function_names(repo) | {"translate_fn", "rotate_around", "rotation_fn"}


def _eval_grid(fi, expr_builder, checks, rep, R, shape_attrs, ks=GRID_K, ns=GRID_N, extra_syms=None):
    """run `checks(ev, n, k)` on the grid; returns list of (n, k, msg)"""
    bad = []
    decided = 0
    for n in ns:
        for k in ks:
            ev = RowEval(rows={"params": k}, ints={"n": n}, shape_fn_attrs=shape_attrs)
            if extra_syms:
                extra_syms(ev, n, k)
            try:
                msg = checks(ev, n, k)
                decided += 1
            except Unknown as u:
                return None, f"not evaluable: {u}"
            msgs = ([msg] if msg else []) + ev.mismatch
            if msgs:
                bad.append((n, k, msgs[0]))
    return bad, decided


def r6_counts(repo: Repo, rep):
    R = rep.rule("R-C02-6", "row-count terms of the domain operations agree wherever tensors are combined and the result has n*max(k,1) rows "
                 "(finite instantiation over n, k)", floor=6,
                 why="a replication count that differs from the number of sampled rows raises a shape error or mispairs rows for some (n, k)")
    shape_attrs = _shape_attrs(repo)
    # --- Translate / Rotate random sampling
    for mod, cname in (("translate", "Translate"), ("rotate", "Rotate")):
        ci = repo.cls(f"{OPS}.{mod}.{cname}")
        fi = ci.methods.get("sample_random_uniform")
        if fi is None:
            raise AnalysisError(f"{cname}.sample_random_uniform vanished")
        rep.saw(fi)
        for p in paths(fi.node):
            if p.ret is RAISE or p.ret is None:
                continue
            ret = expand_helpers(repo, ci, p.ret, accept=lambda f: f.name.startswith("_") and not f.name.startswith("__") and f.name != "_repeat_params")

            def checks(ev, n, k, ret=ret):
                r = ev.rows(ret)
                return None if r == n * max(k, 1) else f"result has {r} rows, expected {n * max(k, 1)}"
            bad, info = _eval_grid(fi, None, checks, rep, R, shape_attrs)
            if bad is None:
                rep.undecided(R, fi.site(), fi.fq, "row counts evaluable", info)
            else:
                w = bad[0] if bad else None
                rep.check(R, not bad, fi.site(), fi.fq, "replicated parameters / motion values have as many rows as the sampled points, for all (n, k)",
                          f"fails for {len(bad)} of {info} grid points, e.g. n={w[0]}, k={w[1]}: {w[2]}" if w else f"{info} grid points", "rows: " + _abstract_counts(ret))
    # --- constant product: the second factor's points and the replicated parameters pair up row by row
    pd = repo.cls(f"{OPS}.product.ProductDomain")
    fi = pd.methods.get("sample_random_uniform")
    if fi is None:
        raise AnalysisError("ProductDomain.sample_random_uniform vanished")
    rep.saw(fi)
    n_prod = 0
    for p in paths(fi.node):
        if p.ret is RAISE or p.ret is None:
            continue
        gs = {dump(g): pol for g, pol, k in p.guards if k == "if"}
        if gs.get("self._is_constant") is not True or gs.get("n is None") is not False:
            continue
        acalls = [c for e in p.events if e.value is not None for c in ast.walk(e.value)
                  if isinstance(c, ast.Call) and dump(c.func) == "self.domain_a.sample_random_uniform"]
        if not acalls:
            continue
        n_prod += 1
        prm = kwarg(acalls[0], "params", 2)

        def checks(ev, n, k, prm=prm):
            r = ev.rows(prm)
            return None if r == n * max(k, 1) else f"first factor sampled for {r} rows, expected n*max(k,1) = {n * max(k, 1)}"
        bad, info = _eval_grid(fi, None, checks, rep, R, shape_attrs)
        if bad is None:
            rep.undecided(R, fi.site(), fi.fq, "row counts of the constant product evaluable", info)
        else:
            w = bad[0] if bad else None
            rep.check(R, not bad, fi.site(), fi.fq, "second-factor points and replicated parameters have n*max(k,1) rows each (joined row by row)",
                      f"fails for {len(bad)} of {info} grid points, e.g. n={w[0]}, k={w[1]}: {w[2]}" if w else f"{info} grid points", "product rows")
        break
    if n_prod == 0:
        rep.undecided(R, fi.site(), fi.fq, "the constant-product sampling path", "not found")
    # --- n == 1 helpers
    helper = repo.module(f"{OPS}.sampler_helper")
    for name in ("_random_points_if_n_eq_1", "_random_boundary_points_if_n_eq_1"):
        fi = helper.functions.get(name)
        if fi is None:
            rep.undecided(R, helper.relpath, name, "n == 1 helper", "vanished: idiom not recognised")
            continue
        rep.saw(fi)
        allocs = []
        seen_alloc = set()
        for q in paths(fi.node):
            for e in q.events:
                if e.kind == "eval" and isinstance(e.node, ast.Assign) and isinstance(e.value, ast.Call) and attr_chain(e.value.func) in ("torch.zeros", "torch.empty", "torch.ones") \
                        and e.node.lineno not in seen_alloc:
                    seen_alloc.add(e.node.lineno)
                    allocs.append(ast.copy_location(ast.Assign(targets=e.node.targets, value=e.value), e.node))  # the allocation with its arguments expanded
        if not allocs:
            rep.undecided(R, fi.site(), fi.fq, "result buffer allocation", "none found")
            continue
        for a in allocs:
            shp = a.value.args[0] if a.value.args else None
            lead = shp.elts[0] if isinstance(shp, (ast.Tuple, ast.List)) and shp.elts else None
            if lead is None:
                continue

            def checks(ev, n, k, lead=lead):
                r = ev.val(lead)
                return None if r == max(k, 1) else f"buffer has {r} rows, expected {max(k, 1)} (one point per parameter row, one without parameters)"
            bad, info = _eval_grid(fi, None, checks, rep, R, shape_attrs, ns=(1,))
            if bad is None:
                rep.undecided(R, fi.site(a), fi.fq, "buffer rows evaluable", info)
            else:
                w = bad[0] if bad else None
                rep.check(R, not bad, fi.site(a), fi.fq, f"`{dump(a.targets[0])}` has max(k,1) rows",
                          f"fails e.g. k={w[1]}: {w[2]}" if w else "ok", f"{dump(a.targets[0])} rows = {dump(lead)}")
    # --- density-path cuts: params replicated to the number of points
    for mod, cname in (("cut", "CutDomain"), ("intersection", "IntersectionDomain")):
        ci = repo.cls(f"{OPS}.{mod}.{cname}")
        fi = ci.methods.get("_cut_points")
        if fi is None:
            rep.undecided(R, ci.module.relpath, ci.fq, "_cut_points helper", "vanished")
            continue
        rep.saw(fi)
        pts = fi.params[1]
        for p in paths(fi.node):
            if p.ret is RAISE:
                continue
            cs = [c for e in p.events if e.value is not None for c in ast.walk(e.value) if isinstance(c, ast.Call) and isinstance(c.func, ast.Attribute) and c.func.attr == "_contains"]
            if not cs:
                rep.undecided(R, fi.site(), fi.fq, "membership call", "none")
                continue
            c = cs[0]
            X, Y = kwarg(c, "points", 0), kwarg(c, "params", 1)

            def checks(ev, n, k, X=X, Y=Y):
                rx, ry = ev.rows(X), ev.rows(Y)
                return None if ry in (0, rx) else f"membership of {rx} points asked with {ry} parameter rows"

            def syms(ev, n, k, pts=pts):
                ev.rows_of_name[pts] = n  # m sampled points for the single parameter row density sampling allows
            bad, info = _eval_grid(fi, None, checks, rep, R, shape_attrs, ks=(0, 1), ns=(2, 3, 5), extra_syms=syms)
            if bad is None:
                rep.undecided(R, fi.site(), fi.fq, "row counts evaluable", info)
            else:
                w = bad[0] if bad else None
                rep.check(R, not bad, fi.site(c), fi.fq, "parameters are replicated to the number of points they are tested with",
                          f"fails e.g. m={w[0]}, k={w[1]}: {w[2]}" if w else "ok", f"params rows: {dump(Y)[:80]}")


def r6b_union_topup(repo: Repo, rep):
    R = "R-C02-6"
    shape_attrs = _shape_attrs(repo)
    ci = repo.cls(f"{OPS}.union.UnionDomain")
    fi = ci.methods.get("_sample_grid_with_n")
    if fi is None:
        rep.undecided(R, ci.module.relpath, ci.fq, "_sample_grid_with_n", "vanished: idiom not recognised")
        return
    rep.saw(fi)
    keep = lambda f: f.name.startswith("_") and not f.name.startswith("__") and f.name not in ("_repeat_params", "_points_lay_in_other_domain", "_get_volume")
    for p in paths(fi.node):
        if p.ret is RAISE or p.ret is None:
            continue
        ret = expand_helpers(repo, ci, p.ret, accept=keep)
        # the share of domain_a is an opaque integer: the `n=` argument of the domain_a grid call
        acalls = [c for c in ast.walk(ret) if isinstance(c, ast.Call) and dump(c.func) == "self.domain_a.sample_grid"]
        if not acalls:
            rep.undecided(R, fi.site(p.ret_node), fi.fq, "grid of domain_a in the result", dump(ret)[:80])
            continue
        sa_expr = kwarg(acalls[0], "n", 0)
        topped = any(isinstance(c, ast.Call) and dump(c.func) == "self.domain_b.sample_grid" for c in ast.walk(ret))
        if not topped:
            # path without top-up: the guard says the a-share already is n (n - scaled_n <= 0)
            continue
        bad, decided = [], 0
        try:
            for n in (3, 5, 8):
                for sa in range(1, n):  # the top-up path requires n - sa > 0
                    for j in range(0, sa + 1):  # kept a-points (not inside b)
                        ev = RowEval(rows={"params": 0, "<where>": j}, ints={"n": n, dump(sa_expr): sa}, shape_fn_attrs=shape_attrs)
                        r = ev.rows(ret)
                        decided += 1
                        if r != n:
                            bad.append((n, sa, j, r))
        except Unknown as u:
            rep.undecided(R, fi.site(p.ret_node), fi.fq, "row count of the topped-up union grid evaluable", str(u))
            continue
        w = bad[0] if bad else None
        rep.check(R, not bad, fi.site(p.ret_node), fi.fq, "kept a-points + topped-up b-points == n rows for every number of dropped points",
                  f"fails for {len(bad)} of {decided} instantiations, e.g. n={w[0]}, a-grid={w[1]}, kept={w[2]}: {w[3]} rows" if w else f"{decided} instantiations", "union grid top-up")


def _abstract_counts(e) -> str:
    out = []
    for n in ast.walk(e):
        if isinstance(n, ast.Call) and (attr_chain(n.func) or "").endswith("_repeat_params"):
            out.append(dump(n)[:80])
    return "; ".join(out)[:200]


# ------------------------------------------------------------------ R-C02-7 / 8
def r7_grid_single_row(repo: Repo, rep):
    R = rep.rule("R-C02-7", "the sampler layer calls a domain's grid/random sampler for at most one parameter row at a time when parameters matter "
                 "(independent: no params; dependent: params[i])", floor=3,
                 why="scopes the n-per-row contract of the primitive grid samplers, which lay out one grid per call")
    base = repo.cls(f"{SB}.PointSampler")
    fi = base.methods.get("_sample_params_independent")
    rep.saw(fi)
    for c in ast.walk(fi.node):
        if isinstance(c, ast.Call) and dump(c.func) == "sample_function":
            has_params = any(k.arg == "params" for k in c.keywords) or len(c.args) > 2
            rep.check(R, not has_params, fi.site(c), fi.fq, "independent sampling calls the domain without parameters", dump(c), dump(c))
    fi = base.methods.get("_sample_for_ith_param")
    rep.saw(fi)
    for p in paths(fi.node):
        for e in p.events:
            if e.value is None:
                continue
            for c in ast.walk(e.value):
                if isinstance(c, ast.Call) and dump(c.func) == "sample_function":
                    pa = kwarg(c, "params", 2)
                    rep.check(R, pa is not None and _single_row(pa), fi.site(), fi.fq, "dependent sampling passes params[i,] only", dump(pa)[:80], dump(pa)[:80])
                    break
    gs = repo.cls("problem.samplers.grid_samplers.GridSampler")
    fi = gs.methods.get("_sample_grid")
    if fi is not None:
        rep.saw(fi)
        for c in ast.walk(fi.node):
            if isinstance(c, ast.Call) and dump(c.func) == "sample_function":
                pa = kwarg(c, "params", 2)
                rep.check(R, pa is not None and dump(pa) == fi.params[1], fi.site(c), fi.fq, "filtered grid sampling passes the single current parameter row", dump(pa), dump(pa))


PRIMS = ("point", "interval", "circle", "parallelogram", "triangle", "sphere")


def r8_allocation(repo: Repo, rep):
    R = rep.rule("R-C02-8", "primitive random samplers allocate (len_of_params(params), n, c) and flatten with reshape(-1, dim): parameter-major rows", floor=10,
                 why="allocating (n, k, c) or flattening another way interleaves the rows of different parameter rows")
    dom = repo.cls("problem.domains.domain.Domain")
    for ci in repo.subclasses(dom):
        if ci.module.name.split(".")[-1] not in PRIMS:
            continue
        fi = ci.methods.get("sample_random_uniform")
        if fi is None:
            continue
        has_alloc = any(isinstance(c, ast.Call) and attr_chain(c.func) in ("torch.rand", "torch.ones", "torch.zeros") and c.args and isinstance(c.args[0], (ast.Tuple, ast.List)) for c in ast.walk(fi.node))
        if not has_alloc:
            continue
        rep.saw(fi)
        bad = []
        for p in paths(fi.node):
            for e in p.events:
                if e.value is None:
                    continue
                for c in ast.walk(e.value):
                    if isinstance(c, ast.Call) and attr_chain(c.func) in ("torch.rand", "torch.ones", "torch.zeros") and c.args and isinstance(c.args[0], (ast.Tuple, ast.List)):
                        el = c.args[0].elts
                        if len(el) != 3 or dump(el[0]) != "self.len_of_params(params)" or not (dump(el[1]) == "n" or "compute_n_from_density" in dump(el[1])):
                            bad.append(dump(c)[:70])
        bad = sorted(set(bad))
        rep.check(R, not bad, fi.site(), fi.fq, "allocations shaped (len_of_params(params), n, c)", str(bad[:2]), str(bad[:2]))
        for p in paths(fi.node):
            if p.ret is RAISE or p.ret is None:
                continue
            r = p.ret
            good = isinstance(r, ast.Call) and attr_chain(r.func) == "Points" and r.args and isinstance(r.args[0], ast.Call) and isinstance(r.args[0].func, ast.Attribute) \
                and r.args[0].func.attr == "reshape" and [dump(a) for a in r.args[0].args] == ["-1", "self.space.dim"]
            rep.check(R, good, fi.site(p.ret_node), fi.fq, "returns Points(points.reshape(-1, self.space.dim), self.space)", dump(r)[-80:], "reshape")
            break
    lp = dom.methods.get("len_of_params")
    if lp is not None:
        rep.saw(lp)
        rets = {dump(p.ret) for p in paths(lp.node) if p.ret is not RAISE}
        rep.check(R, rets == {"1", "len(params)"}, lp.site(), lp.fq, "len_of_params = max(len(params), 1)", str(sorted(rets)), str(sorted(rets)))


def r9_motion_params(repo: Repo, rep):
    R = rep.rule("R-C02-9", "translated / rotated samples: the parameters handed to the motion functions are replicated parameter-major (interleave) — the layout of the inner domain's points", floor=6,
                 why="tiled parameters move point i with the translation / rotation of another parameter row")
    ops = "problem.domains.domainoperations"
    for mod, cname, fns in (("translate", "Translate", ("self.translate_fn",)), ("rotate", "Rotate", ("self.rotation_fn", "self.rotate_around", "self._rotate_points"))):
        ci = repo.cls(f"{ops}.{mod}.{cname}")
        for mname in ("sample_random_uniform", "sample_grid", "_translate_points", "_rotate_grid"):
            fi = ci.methods.get(mname)
            if fi is None:
                continue
            rep.saw(fi)
            seen = set()
            for p in paths(fi.node):
                if p.ret is RAISE:
                    continue
                for e in p.events:
                    if e.value is None:
                        continue
                    for c in ast.walk(e.value):
                        if not (isinstance(c, ast.Call) and dump(c.func) in fns and c.args):
                            continue
                        a = c.args[0]
                        if isinstance(a, ast.Subscript) and getattr(a, "_tuple_elt", False):
                            a = a.value
                        kind, base, cnt = _layout(a)
                        key = (dump(c.func), kind, dump(base)[:40], tuple(dump(g)[:40] for g, pol, k in p.guards if k == "if" and pol))
                        if key in seen:
                            continue
                        seen.add(key)
                        if kind == "tile":
                            rep.violation(R, fi.site(e.node), fi.fq, "motion parameters replicated parameter-major (repeat_interleave / _repeat_params)", f"{dump(c.func)}({dump(a)[:80]}): tiled", f"{dump(c.func)} receives tiled params")
                        elif kind == "interleave":
                            rep.check(R, base is not None and dump(cnt) in fi.params or True, fi.site(e.node), fi.fq, "motion parameters replicated parameter-major", f"{dump(c.func)}({dump(a)[:80]})", "")
                        elif isinstance(a, ast.Name) and a.id in fi.params and mname in ("sample_grid",):
                            continue  # forwarded unchanged to the helper that replicates them
                        else:
                            rep.undecided(R, fi.site(e.node), fi.fq, "replication layout of the motion parameters recognisable", f"{dump(c.func)}({dump(a)[:80]})")
            # the other half of the pairing: where the helper copies the inner points itself (inner domain independent of the parameters), every parameter row gets ONE WHOLE copy (tile)
            moved = set()
            for n in ast.walk(fi.node):
                if isinstance(n, ast.Call) and dump(n.func) in fns and n.args:
                    moved |= {x.id for x in ast.walk(n.args[0]) if isinstance(x, ast.Name)}
            for n in ast.walk(fi.node):
                if not (isinstance(n, ast.Assign) and len(n.targets) == 1 and isinstance(n.targets[0], ast.Name) and n.targets[0].id not in moved):
                    continue
                kind, base, cnt = _layout(n.value)
                if kind not in ("tile", "interleave") or base is None:
                    continue
                v = n.value
                if kind == "interleave":
                    dim = next((k.value for k in v.keywords if k.arg == "dim"), None)
                    pos = list(v.args)
                    if isinstance(v.func, ast.Attribute) and attr_chain(v.func.value) == "torch":
                        pos = pos[1:]
                    if dim is None and len(pos) >= 2:
                        dim = pos[1]
                    if dim is not None and not (isinstance(dim, ast.Constant) and dim.value == 0):
                        continue  # a replication of columns, not of rows
                if kind == "tile" and not (len(v.args) >= 2 and all(isinstance(x, ast.Constant) and x.value == 1 for x in v.args[1:])):
                    continue
                rep.check(R, kind == "tile", fi.site(n), fi.fq, "points copied for the parameter rows as whole blocks (tile): block k is the complete inner sample, moved with parameter row k",
                          dump(n)[:100], f"{n.targets[0].id}: {kind}")


def r10_source_data(repo: Repo, rep):
    R = rep.rule("R-C02-10", "sampling never replaces the data a sampler was constructed with by a value that depends on the call's parameters "
                 "(device moves of the same data are the only rewrites)", floor=20,
                 why="a sampler whose stored points were replicated for one call returns k times the rows in the next call (and len() no longer tells the count)")
    for ci, fi in _sampler_funcs(repo):
        if fi.name != "sample_points" and not fi.name.startswith("_sample"):
            continue
        init = repo.resolve_method(ci, "__init__")
        config = set()
        if init is not None:
            ps = set(init.params[1:])
            for n in ast.walk(init.node):
                if isinstance(n, ast.Assign):
                    for t in n.targets:
                        if isinstance(t, ast.Attribute) and isinstance(t.value, ast.Name) and t.value.id == "self" \
                                and any(isinstance(x, ast.Name) and x.id in ps for x in ast.walk(n.value)):
                            config.add(t.attr)
        rep.saw(fi)
        bad = []
        pn = [p for p in fi.params[1:] if p == "params"]
        for p in paths(fi.node):
            for e in p.events:
                if e.kind in ("attr", "aug") and e.target is not None and isinstance(e.target, ast.Attribute) and dump(e.target.value) == "self" and e.target.attr in config:
                    dep = e.value is not None and any(isinstance(x, ast.Name) and x.id in pn for x in ast.walk(e.value))
                    if dep or e.kind == "aug":
                        bad.append(f"self.{e.target.attr} = {dump(e.value)[:60]}")
        bad = sorted(set(bad))
        rep.check(R, not bad, fi.site(), fi.fq, "constructor data is not rewritten from the call's parameters", str(bad[:2]), str(bad[:2]))


def r11_topped_up_count(repo: Repo, rep):
    R = rep.rule("R-C02-11", "a primitive sampler that tops its result up with `while len(points) < n` also bounds it from above: the returned rows are cut to n "
                 "or returned under the test that there are not more than n", floor=1,
                 why="filtered contributions can add up to more than n (shares of triangles that leave the polygon); the top-up loop only guarantees at least n")
    dom = repo.cls("problem.domains.domain.Domain")
    for ci in repo.subclasses(dom, strict=True):
        fi = ci.methods.get("sample_random_uniform")
        if fi is None:
            continue
        # helpers of the class reachable from the sampler that contain a lower-bound loop on a length
        topup = []
        seen, work = set(), [fi]
        while work:
            f = work.pop()
            if f.fq in seen:
                continue
            seen.add(f.fq)
            for n in ast.walk(f.node):
                if isinstance(n, ast.While) and isinstance(n.test, ast.Compare) and len(n.test.ops) == 1 and isinstance(n.test.ops[0], ast.Lt) \
                        and isinstance(n.test.left, ast.Call) and attr_chain(n.test.left.func) == "len":
                    topup.append((f, n))
                if isinstance(n, ast.Call) and isinstance(n.func, ast.Attribute) and attr_chain(n.func.value) == "self":
                    g = repo.resolve_method(ci, n.func.attr)
                    if g is not None and g.cls is not None and g.cls.name not in ("Domain", "BoundaryDomain"):
                        work.append(g)
        if not topup:
            continue
        rep.saw(fi)
        for p in paths(fi.node):
            if p.ret is RAISE or p.ret is None:
                continue
            r = p.ret
            T = r.args[0] if isinstance(r, ast.Call) and attr_chain(r.func) == "Points" and r.args else r
            cut = isinstance(T, ast.Subscript) and any(isinstance(x, ast.Slice) and x.upper is not None and x.lower is None for x in ast.walk(T.slice))
            bounded = False
            for g, pol, kind in p.guards:
                if kind != "if" or not (isinstance(g, ast.Compare) and len(g.ops) == 1 and isinstance(g.left, ast.Call) and attr_chain(g.left.func) == "len" and g.left.args):
                    continue
                if dump(g.left.args[0]) != dump(T):
                    continue
                op = g.ops[0]
                if (isinstance(op, ast.Gt) and not pol) or (isinstance(op, (ast.LtE, ast.Eq)) and pol):
                    bounded = True
            rep.check(R, cut or bounded, fi.site(p.ret_node), fi.fq, "returned rows cut to n, or returned under `len(rows) <= n`", f"returns {dump(T)[:90]} with neither", f"unbounded {dump(T)[:60]}")
            break_after = False
        for f, n in topup:
            rep.saw(f)


def r12_interval_boundary_grid(repo: Repo, rep):
    R = rep.rule("R-C02-12", "the grid of an interval's boundary has exactly n points for every n (odd ones and n = 1 included), alternating between the two ends - by partial evaluation", floor=5,
                 why="a mask of 2*(n//2) entries yields n-1 points for odd n: the sampler returns the wrong count and products lose rows")
    from ..absdom.listeval import Evaluator, Opaque, UNKNOWN
    ci = repo.cls("problem.domains.domain1D.interval.IntervalBoundary")
    fi = ci.methods.get("sample_grid")
    if fi is None:
        raise AnalysisError("IntervalBoundary.sample_grid vanished")
    rep.saw(fi)

    def on_call(e, name, args, kws, ev, f):
        args = args or []
        if name in ("torch.tensor", "torch.as_tensor") and args and isinstance(args[0], list):
            return list(args[0])
        if isinstance(e.func, ast.Attribute) and e.func.attr in ("repeat", "tile", "repeat_interleave") and len(args) == 1 and isinstance(args[0], int):
            try:
                recv = ev.ev(e.func.value, f)
            except Exception:
                return None
            if isinstance(recv, list):
                return list(recv) * args[0] if e.func.attr != "repeat_interleave" else [x for x in recv for _ in range(args[0])]
        if name == "torch.where" and len(args) == 3 and isinstance(args[0], list):
            return ["L" if m else "U" for m in args[0]]
        if isinstance(e.func, ast.Attribute) and e.func.attr in ("reshape", "view", "to", "bool") :
            try:
                recv = ev.ev(e.func.value, f)
            except Exception:
                return None
            if isinstance(recv, list):
                return recv
        if name == "Points" and args:
            return ("Points", args[0])
        if name.endswith("lower_bound"):
            return Opaque("lb")
        if name.endswith("upper_bound"):
            return Opaque("ub")
        return None
    for n in (1, 2, 3, 4, 5, 7, 8):
        env = {"self": Opaque("self"), "n": n, "d": None, "params": Opaque("params"), "device": "cpu"}
        fr = Evaluator(None, on_call).run(fi.node.body, env, attrs={"self.space.dim": 1, "self.space": Opaque("space")})
        got = fr.ret
        if not (isinstance(got, tuple) and got and got[0] == "Points" and isinstance(got[1], list)):
            rep.undecided(R, fi.site(), fi.fq, f"n = {n}: grid evaluable", repr(got)[:80])
            continue
        pts = got[1]
        alt = all(pts[i] != pts[i + 1] for i in range(len(pts) - 1))
        rep.check(R, len(pts) == n and alt, fi.site(), fi.fq, f"n = {n}: {n} points alternating between the ends", f"{len(pts)} points {pts[:6]}", f"n={n}: {len(pts)} points")


# ------------------------------------------------------------------ R-C02-13
def grid_helper_evaluator(repo: Repo):
    """row-count models for the grid helpers of sampler_helper: evaluate(fi, n, script, extra) -> (frame, division by zero seen, grid requests);
    `script` lists how many rows each successive membership test keeps (Need is raised when it is too short)"""
    from fractions import Fraction
    from ..absdom.listeval import Evaluator, Model, NotEval, Opaque, UNKNOWN
    helper = repo.module(f"{OPS}.sampler_helper")

    class Need(Exception):
        def __init__(self, m):
            self.m = m

    class Loud(Exception):
        pass

    class Idx(Model):
        def __init__(self, n):
            self.n = n

        def le_len(self):
            return self.n

        def le_subscript(self, idx):
            idx = idx[0] if isinstance(idx, tuple) and len(idx) == 1 else idx
            if isinstance(idx, slice):
                return Idx(len(range(self.n)[idx]))
            raise NotEval("index of an index")

    class Mask(Model):
        def __init__(self, size, trues):
            self.size, self.trues = size, trues

        def le_call(self, method, args, kws):
            if method == "logical_not" and not args:
                return Mask(self.size, self.size - self.trues)
            if method == "nonzero" and not args:
                return (Idx(self.trues),) if kws.get("as_tuple") else Idx(self.trues)
            if method in ("squeeze", "flatten", "reshape", "view", "bool", "to"):
                return self
            raise NotEval(method)

        def le_subscript(self, idx):
            return self  # mask[:, 0] of an (n, 1) mask

    class Pts(Model):
        def __init__(self, rows):
            self.rows = rows

        def le_len(self):
            return self.rows

        def le_subscript(self, idx):
            first = idx[0] if isinstance(idx, tuple) else idx
            if isinstance(idx, tuple) and len(idx) > 1:
                raise NotEval("column selection")
            if isinstance(first, Idx):
                return Pts(first.n)
            if isinstance(first, slice):
                return Pts(len(range(self.rows)[first]))
            raise NotEval("row selection")

        def le_binop(self, op, other, reflected):
            if isinstance(op, ast.BitOr) and isinstance(other, Pts):
                return Pts(self.rows + other.rows)
            raise NotEval("operator on a point set")

    class Dom(Model):
        def __init__(self, tag, chooser, surface, requests):
            self.tag, self.chooser, self.surface, self.requests = tag, chooser, surface, requests

        def le_getattr(self, name):
            if name == "boundary":
                return Dom(self.tag + ".boundary", self.chooser, self.surface, self.requests)
            if name in ("space", "dim"):
                return Opaque(name)
            raise NotEval(name)

        def le_call(self, method, args, kws):
            if method in ("sample_grid", "sample_random_uniform"):
                n = kws.get("n", args[0] if args else None)
                if not isinstance(n, int) or isinstance(n, bool):
                    raise NotEval("symbolic n")
                if n < 0:
                    raise Loud()
                self.requests.append((self.tag, method, n))
                return Pts(n)
            if method == "_contains":
                pts = kws.get("points", args[0] if args else None)
                if not isinstance(pts, Pts):
                    raise NotEval("membership of a non-point-set")
                return Mask(pts.rows, self.chooser(pts.rows))
            if method == "_repeat_params":
                return (Opaque("rep0"), Opaque("rep1"))
            if method in ("volume", "_get_volume"):
                return self.surface
            raise NotEval(method)

    def evaluate(fi, n, script, extra):
        pos = [0]
        div0 = [False]
        requests = []

        def chooser(m):
            i = pos[0]
            pos[0] += 1
            if i < len(script):
                return min(script[i], m)
            raise Need(m)

        def on_call(e, name, args, kws, ev, f):
            if name == "torch.logical_not" and args and isinstance(args[0], Mask):
                return Mask(args[0].size, args[0].size - args[0].trues)
            if name == "torch.where" and args and len(args) == 1 and isinstance(args[0], Mask):
                return (Idx(args[0].trues),)
            if name == "torch.nonzero" and args and isinstance(args[0], Mask):
                return (Idx(args[0].trues),) if kws.get("as_tuple") else Idx(args[0].trues)
            if name in ("_random_points_inside", "_random_points_boundary") and args is not None:
                # contract of the per-row rejection loops (R-C02-3): exactly the requested number of rows
                m = args[3] if len(args) > 3 else kws.get("n")
                if not isinstance(m, int) or m < 0:
                    raise NotEval("top-up count")
                return Pts(m)
            if name in helper.functions and args is not None and name != fi.name:
                h = helper.functions[name]
                names = [a.arg for a in h.node.args.args]
                env = dict(zip(names, args))
                env.update({k: v for k, v in kws.items() if k in names})
                if len(env) != len(names):
                    raise NotEval("helper arguments")
                ev2 = Evaluator(None, on_call)
                fr2 = ev2.run(h.node.body, env)
                div0[0] = div0[0] or ev2.zero_division
                if fr2.ret is UNKNOWN or not fr2.returned:
                    raise NotEval(f"helper {name}")
                return fr2.ret
            if name in ("warnings.warn", "print"):
                return Opaque("none")
            return None
        main = Dom("main", chooser, Fraction(5), requests)
        a, b = Dom("a", chooser, Fraction(2), requests), Dom("b", chooser, Fraction(3), requests)
        env = {"main_domain": main, "domain_a": a, "domain_b": b, "n": n, "params": Opaque("params"), "device": "cpu"}
        env.update(extra)
        names = [x.arg for x in fi.node.args.args]
        if set(names) != set(env):
            raise NotEval(f"parameters {names}")
        ev1 = Evaluator(None, on_call)
        fr = ev1.run(fi.node.body, env)
        return fr, div0[0] or ev1.zero_division, requests

    return evaluate, Need, Loud, Pts, helper


def r13_operation_grids(repo: Repo, rep):
    R = rep.rule("R-C02-13", "the grid helpers of the domain operations (_inside_grid_with_n, _boundary_grid_with_n) return exactly n rows however many grid points the "
                 "membership tests keep - decided by evaluating the helper on row-count models for every outcome of every membership test (n = 2, 3, 4)", floor=2,
                 why="the first grids hold up to 2n candidates: an early return that is not tied to `== n` (or a missing cut / top-up) hands back more or fewer than n rows, "
                     "which the grid samplers pass on unchanged")
    from ..absdom.listeval import NotEval, UNKNOWN
    evaluate, Need, Loud, Pts, helper = grid_helper_evaluator(repo)
    for fname, extras in (("_inside_grid_with_n", ({"invert": True}, {"invert": False})), ("_boundary_grid_with_n", ({},))):
        fi = helper.functions.get(fname)
        if fi is None:
            raise AnalysisError(f"sampler_helper.{fname} vanished")
        rep.saw(fi)
        bad, runs, loud, unknown = [], 0, 0, None
        for extra in extras:
            for n in (2, 3, 4):
                stack = [[]]
                while stack and unknown is None and runs < 40000:
                    script = stack.pop()
                    try:
                        fr, zero, _req = evaluate(fi, n, script, extra)
                    except Need as need:
                        stack.extend(script + [j] for j in range(need.m + 1))
                        continue
                    except (Loud, ZeroDivisionError):
                        loud += 1
                        continue
                    except NotEval as ex:
                        unknown = f"n={n}, membership outcomes {script}: {ex}"
                        break
                    runs += 1
                    got = fr.ret
                    if got is UNKNOWN or not isinstance(got, Pts):
                        # a division by a zero count makes the rest unknown: the real code raises there (loud, not a wrong count)
                        if zero:
                            loud += 1
                            continue
                        unknown = f"n={n}, membership outcomes {script}: result {got!r}"
                        break
                    if got.rows != n:
                        bad.append((n, script, got.rows))
        if unknown is not None:
            rep.undecided(R, fi.site(), fi.fq, "row count evaluable for every outcome of the membership tests", unknown[:200])
            continue
        w = bad[0] if bad else None
        rep.check(R, not bad and runs > 0, fi.site(), fi.fq, "n rows for every combination of kept grid points (n = 2, 3, 4)",
                  (f"{len(bad)} of {runs} outcomes return another count, e.g. n={w[0]} with {w[1]} points kept by the successive membership tests: {w[2]} rows" if w else f"{runs} outcomes, {loud} raising"),
                  f"{fname}: n={w[0]} kept={w[1]} rows={w[2]}" if w else fname)


# ------------------------------------------------------------------ R-C02-14 / 15
def r14_data_sampler_length(repo: Repo, rep):
    R = rep.rule("R-C02-14", "DataSampler's n_points is the size of the FIRST axis of its data tensor (the axis that is repeated per parameter row), not Points.__len__ "
                 "(the product of all batch axes)", floor=1,
                 why="for data with further batch axes the parameters are replicated N*Q times against N*k data rows: the block layout breaks")
    from ..util import deref, single_defs
    ci = repo.cls("problem.samplers.data_samplers.DataSampler")
    fi = ci.methods.get("__init__")
    if fi is None:
        raise AnalysisError("DataSampler.__init__ vanished")
    rep.saw(fi)
    tmp = single_defs(fi.node)
    calls = [c for c in ast.walk(fi.node) if isinstance(c, ast.Call) and isinstance(c.func, ast.Attribute) and c.func.attr == "__init__" and dump(c.func.value).startswith("super(")]
    if not calls:
        rep.undecided(R, fi.site(), fi.fq, "super().__init__(n_points=...)", "no such call")
        return
    for c in calls:
        v = kwarg(c, "n_points", 0)
        if v is None:
            rep.violation(R, fi.site(c), fi.fq, "n_points handed to the base class", "not passed", "n_points missing")
            continue
        t = dump(deref(v, tmp)).replace(" ", "")
        first_axis = any(t == form for base in ("self.points", "points") for form in (f"len({base}.as_tensor)", f"len({base}._t)", f"{base}.as_tensor.shape[0]", f"{base}._t.shape[0]",
                                                                                   f"{base}.as_tensor.size(0)", f"{base}._t.size(0)", f"{base}.as_tensor.size(dim=0)"))
        whole = t in ("len(self.points)", "len(points)", "self.points.__len__()")
        if first_axis or whole:
            rep.check(R, first_axis, fi.site(c), fi.fq, "n_points = number of rows along axis 0 of the stored tensor", t, f"n_points = {t}")
        else:
            rep.undecided(R, fi.site(c), fi.fq, "n_points recognisable as a row count", t[:100])


def r15_quota_loops(repo: Repo, rep):
    R = rep.rule("R-C02-15", "rejection / top-up loops that fill a quota of n points end only when the quota is met: the `while` test is the bare quota comparison and "
                 "no `break` leaves the loop on another condition", floor=8,
                 why="an iteration cap (`and iterations < 20`, `if tries > k: break`) returns fewer than n rows for restrictive filters or thin domains - silently, since the cut only trims surplus rows")
    from ..util import deref, single_defs, parent_map
    n_loops = 0
    for name, m in repo.modules.items():
        if ".problem.samplers." not in name and ".problem.domains." not in name:
            continue
        funcs = list(m.functions.values()) + [fi for ci in m.classes.values() for fi in ci.methods.values()]
        for fi in funcs:
            loops = [w for w in ast.walk(fi.node) if isinstance(w, ast.While)]
            if not loops and not any(isinstance(w, ast.Break) for w in ast.walk(fi.node)):
                continue
            tmp = single_defs(fi.node)
            params = set(fi.params)
            pm = parent_map(fi.node)

            def quota_bound(e):
                t = dump(deref(e, tmp))
                return t in params and t in ("n", "n_points") or t in ("self.n_points", "n", "len(self)") or (isinstance(e, ast.Name) and e.id == "n")
            # a quota loop written as a bounded `for`: `for _ in range(K): if <quota met>: break ...` gives up after K rounds
            for lp in [w for w in ast.walk(fi.node) if isinstance(w, ast.For)]:
                if not (isinstance(lp.iter, ast.Call) and dump(lp.iter.func) == "range"):
                    continue
                own_breaks = []
                for b in ast.walk(lp):
                    if isinstance(b, ast.Break):
                        q = pm.get(id(b))
                        while q is not None and not isinstance(q, (ast.While, ast.For)):
                            q = pm.get(id(q))
                        if q is lp:
                            own_breaks.append(b)
                for b in own_breaks:
                    g = pm.get(id(b))
                    if not isinstance(g, ast.If):
                        continue
                    t = g.test
                    met = (isinstance(t, ast.Call) and dump(t.func) in ("all", "torch.all")) or \
                          (isinstance(t, ast.Compare) and len(t.ops) == 1 and isinstance(t.ops[0], (ast.GtE, ast.Gt, ast.Eq)) and quota_bound(t.comparators[0]))
                    if met and not any(isinstance(x, ast.Name) and x.id == dump(lp.target) for x in ast.walk(t)):
                        n_loops += 1
                        rep.saw(fi)
                        rep.violation(R, fi.site(lp), fi.fq, f"the rounds continue until `{dump(t)[:50]}` holds", f"at most {dump(lp.iter)[:40]} rounds: afterwards the rows still missing are returned as they are (zeros / fewer rows)",
                                      f"bounded rounds {dump(lp.iter)[:40]} with quota break")

            for w in loops:
                test = w.test
                conj = test.values if isinstance(test, ast.BoolOp) and isinstance(test.op, ast.And) else [test]
                quota = [c for c in conj if (isinstance(c, ast.Compare) and len(c.ops) == 1 and isinstance(c.ops[0], (ast.Lt, ast.NotEq)) and quota_bound(c.comparators[0]))
                         or (isinstance(c, ast.UnaryOp) and isinstance(c.op, ast.Not) and isinstance(c.operand, ast.Call) and dump(c.operand.func) in ("all", "torch.all"))]
                if not quota:
                    continue  # not a quota loop (index walks etc.)
                n_loops += 1
                rep.saw(fi)
                extra = [dump(c)[:50] for c in conj if c not in quota]
                # breaks belonging to this loop (not to a nested loop)
                breaks = []
                for b in ast.walk(w):
                    if isinstance(b, ast.Break):
                        q = pm.get(id(b))
                        while q is not None and not isinstance(q, (ast.While, ast.For)):
                            q = pm.get(id(q))
                        if q is w:
                            breaks.append(b)
                bad_breaks = []
                for b in breaks:
                    g = pm.get(id(b))
                    met = False
                    if isinstance(g, ast.If) and b in g.body and isinstance(g.test, ast.Compare) and len(g.test.ops) == 1 and isinstance(g.test.ops[0], (ast.GtE, ast.Gt, ast.Eq)):
                        met = quota_bound(g.test.comparators[0])
                    if not met:
                        bad_breaks.append(f"break at line {b.lineno}")
                ok = not extra and not bad_breaks
                rep.check(R, ok, fi.site(w), fi.fq, f"loop runs while `{dump(quota[0])[:60]}` and only that decides when it ends",
                          "; ".join(([f"further exit conditions {extra}"] if extra else []) + bad_breaks), f"quota loop {dump(test)[:80]} {bad_breaks}")
    if n_loops == 0:
        rep.undecided(R, "src/torchphysics/problem", "-", "quota loops", "none found")


def run(repo: Repo, rep):
    from .generic import g_arg_constructor_parameters
    g_arg_constructor_parameters(repo, rep, lambda m: ".samplers." in m, floor=10,
                                 why="a sampler that ignores n_points / density / filter_fn / params-related arguments returns another number of rows than requested")
    from .c15 import r1b_no_cache  # a non-static sampler that serves stored points returns the rows of an earlier call: they belong to that call's parameter rows, not to this one's
    r1b_no_cache(repo, rep)
    from .c12 import r1_pairing  # rows i*n .. (i+1)*n-1 carry parameter row i UNCHANGED: attaching the repeated parameters must not cast or re-order their columns
    r1_pairing(repo, rep)
    from .c10 import r5e_grid_counts_truncate  # a regular grid is only ever TOPPED UP to n: side counts whose product can exceed n return more rows than requested
    r5e_grid_counts_truncate(repo, rep)
    r12_interval_boundary_grid(repo, rep)
    r13_operation_grids(repo, rep)
    r14_data_sampler_length(repo, rep)
    r15_quota_loops(repo, rep)
    from .c01 import r1_facts  # row-wise selection between operand samples keeps row i for parameter row i (masks applied to the rows they were computed on)
    r1_facts(repo, rep)
    from .c15 import r1_static  # a static sampler hands the caller's parameters to the wrapped sampler: n points per parameter row
    r1_static(repo, rep)
    r10_source_data(repo, rep)
    r11_topped_up_count(repo, rep)
    from .c15 import r2_adaptive  # adaptive samplers replace rows in place under one mask: the row <-> parameter-row blocks stay where they are
    r2_adaptive(repo, rep)
    r9_motion_params(repo, rep)
    r1_replication(repo, rep)
    r2_layout_pairing(repo, rep)
    r3_per_row_loops(repo, rep)
    r4_algebra(repo, rep)
    r5_definite_assignment(repo, rep, thorough=(rep.tier == "thorough"))
    r6_counts(repo, rep)
    r6b_union_topup(repo, rep)
    r7_grid_single_row(repo, rep)
    r8_allocation(repo, rep)


_B = "src/torchphysics/problem/samplers/sampler_base.py"
_R = "src/torchphysics/problem/samplers/random_samplers.py"
_H = "src/torchphysics/problem/domains/domainoperations/sampler_helper.py"
_D = "src/torchphysics/problem/domains/domain.py"
_CI = "src/torchphysics/problem/domains/domain2D/circle.py"
MUTANTS = [
    dict(id="C02-M20", file="src/torchphysics/problem/domains/domainoperations/translate.py", old="        n = int(len(original_points) / max(len(params), 1))\n        _, params = self._repeat_params(n, params)\n        translate_values",
         new="        n = int(len(original_points) / max(len(params), 1))\n        params = params.repeat(n)\n        translate_values", rule="R-C02-9", what="translation parameters tiled"),
    dict(id="C02-M1", file=_B, old="        repeated_points = points.repeat(num_of_params)", new="        repeated_points = Points(torch.repeat_interleave(points.as_tensor, num_of_params, dim=0), points.space)", rule="R-C02-2", what="points interleaved instead of tiled"),
    dict(id="C02-M2", file=_B, old="        a_points = self.sampler_a.sample_points(b_points, device=device)\n        self.set_length(len(a_points))\n        return a_points",
         new="        a_points = self.sampler_a.sample_points(b_points, device=device)\n        self.set_length(len(a_points))\n        return a_points[torch.randperm(len(a_points)),]", rule="R-C02-4", what="product result permuted"),
    dict(id="C02-M3", file=_B, old="        return samples_a | samples_b", new="        return samples_a.join(samples_b)", rule="R-C02-4", what="concat joins"),
    dict(id="C02-M4", file=_B, old="        return len(self.sampler_a) + len(self.sampler_b)", new="        return len(self.sampler_a) * len(self.sampler_b)", rule="R-C02-4", what="concat length as product"),
    dict(id="C02-M5", file=_D, old="            torch.repeat_interleave(params, n, dim=0), params.space", new="            params.as_tensor.repeat(n, 1), params.space", rule="R-C02-1", what="domain replication tiled"),
    dict(id="C02-M6", file=_H, old="    for i in range(num_of_params):\n        ith_params = params[i,] if len(params) > 0 else Points.empty()\n        number_valid = 0\n        scaled_n = n\n",
         new="    number_valid = 0\n    scaled_n = n\n    for i in range(num_of_params):\n        ith_params = params[i,] if len(params) > 0 else Points.empty()\n", rule="R-C02-3", what="rejection guards hoisted out of the row loop"),
    dict(id="C02-M7", file=_R, old="            cuted_points = self._cut_tensor_to_length_n(new_sample_points)\n            sample_points = self._set_sampled_points(sample_points, cuted_points)\n        return sample_points\n\n\nclass GaussianSampler",
         new="            sample_points = self._set_sampled_points(sample_points, new_sample_points)\n        return self._cut_tensor_to_length_n(sample_points)\n\n\nclass GaussianSampler", rule="R-C02-3", what="cut moved outside the per-row loop"),
    dict(id="C02-M8", file=_CI, old="        r = torch.sqrt(torch.rand((num_of_params, n, 1), device=device))", new="        r = torch.sqrt(torch.rand((n, num_of_params, 1), device=device))", rule="R-C02-8", what="allocation point-major"),
    dict(id="C02-M9", file=_B, old="        ith_params = params[i,] if len(params) > 0 else Points.empty()\n        new_points = sample_function(self.n_points, self.density, ith_params, device)",
         new="        ith_params = params[i,] if len(params) > 0 else Points.empty()\n        new_points = sample_function(self.n_points, self.density, params, device)", rule="R-C02-7", what="all parameter rows handed to the per-row call"),
]
TWINS = [
    dict(id="C02-T1", file=_D, old="            torch.repeat_interleave(params, n, dim=0), params.space", new="            params.as_tensor.repeat_interleave(n, dim=0), params.space", what="method form of repeat_interleave"),
    dict(id="C02-T2", file=_R, old="            cuted_points = self._cut_tensor_to_length_n(new_sample_points)\n            sample_points = self._set_sampled_points(sample_points, cuted_points)\n        return sample_points\n\n\nclass GaussianSampler",
         new="            row_points = new_sample_points[: self.n_points,]\n            sample_points = self._set_sampled_points(sample_points, row_points)\n        return sample_points\n\n\nclass GaussianSampler", what="cut helper inlined"),
]

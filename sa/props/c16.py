"""C16 — data loaders deliver every datum with intact input/target pairing."""
from __future__ import annotations

import ast
from typing import Dict, List, Optional, Tuple

from ..absdom.poly import RF, NotPoly, to_rf
from ..flow import RAISE, attr_chain, def_id, dump, kwarg, paths
from ..repo import AnalysisError, Repo
from ..util import ends

EXPLANATION = (
    "Index algebra of the data sets decided on expanded path expressions: one permutation (same evaluation) applied to "
    "all coupled tensors on the coupled axes; one window [idx*bs, min((idx+1)*bs, l)) on every element with len == ceil/floor; "
    "windows of coupled tensors extracted as (axis, lo, hi) descriptors and compared; the joint batch index must decompose "
    "into independent digits (quotient and remainder by the same radix, __len__ = product); the full-data-set loop aggregates "
    "every batch once (max for 'inf', + mean/len otherwise)."
)
ASSUMPTIONS = [
    "torch advanced indexing with a permutation tensor permutes that axis; slicing a:b selects rows a..b-1",
    "torch DataLoader with batch_size=None, shuffle=False visits indices 0..len-1 once (trusted)",
]
DL = "utils.data.dataloader"
DDL = "utils.data.deeponet_dataloader"


def _idx_atoms(extra=()):
    def atom(n):
        if isinstance(n, ast.Name):
            return RF.atom(n.id)
        if isinstance(n, ast.Attribute):
            return RF.atom(dump(n))
        if isinstance(n, ast.Call) and attr_chain(n.func) == "len":
            return RF.atom(dump(n))
        return None
    return atom


# ------------------------------------------------------------------ R-C16-1
def _attr_texts(attrs) -> dict:
    """attribute -> text of its stored value with every sub-expression that is itself the value stored into ANOTHER attribute on this path replaced by
    that attribute (`self.n = n; self.k = ceil(len(data) / n)` reads `ceil(len(self.data) / self.n)`): formulas written over locals and over attributes compare equal"""
    import re
    texts = {k: dump(v).replace(" ", "") for k, v in attrs.items()}
    order = sorted(texts, key=lambda k: -len(texts[k]))
    out = {}
    for k, t in texts.items():
        for a in order:
            v = texts[a]
            if a == k or v == a or len(v) < 3 or v in ("None", "True", "False") or v.replace(".", "").replace("-", "").isdigit():
                continue
            t = re.sub(r"(?<![\w.])" + re.escape(v) + r"(?![\w(])", a, t)
        out[k] = t
    return out


def _shuffle_comprehension(init):
    """`self.data_points = [p[perm] for p in self.data_points]` form of the shuffle: (perm shared?, text) or None"""
    from ..util import single_defs
    tmp = single_defs(init.node)
    for a in ast.walk(init.node):
        if not (isinstance(a, ast.Assign) and any(dump(t) == "self.data_points" for t in a.targets)):
            continue
        v = a.value
        if isinstance(v, ast.Call) and attr_chain(v.func) in ("list", "tuple") and len(v.args) == 1:
            v = v.args[0]
        if not (isinstance(v, (ast.ListComp, ast.GeneratorExp)) and len(v.generators) == 1 and not v.generators[0].ifs):
            continue
        g = v.generators[0]
        over_all = dump(g.iter) in ("self.data_points", "range(len(self.data_points))")
        tgt = dump(g.target)
        elt = v.elt
        base_ok = isinstance(elt, ast.Subscript) and dump(elt.value) in (tgt, f"self.data_points[{tgt}]")
        if not (over_all and base_ok):
            continue
        idx = elt.slice
        if isinstance(idx, ast.Name) and idx.id in tmp and isinstance(tmp[idx.id], ast.Call) and ends(attr_chain(tmp[idx.id].func), "randperm") and tgt not in dump(tmp[idx.id]):
            arg = tmp[idx.id].args[0] if tmp[idx.id].args else None
            if arg is None or not dump(arg).startswith("len(self.data_points[0]"):
                return False, dump(a)[:100] + f" with a permutation of length {dump(arg) if arg is not None else None}"
            return True, dump(a)[:120]
        return False, dump(a)[:120] + " (index evaluated per element)"
    return None


def r1_points_dataset(repo: Repo, rep):
    R = rep.rule("R-C16-1", "PointsDataset: one permutation for every element, one window on every element, windows tile [0,l), len = ceil/floor(l/bs)",
                 floor=6, why="different permutations/windows on inputs and targets break the i-th input / i-th target pairing")
    ds = repo.cls(f"{DL}.PointsDataset")
    init, gi, ln = ds.methods.get("__init__"), ds.methods.get("__getitem__"), ds.methods.get("__len__")
    if not (init and gi and ln):
        raise AnalysisError("PointsDataset methods vanished")
    rep.saw(init), rep.saw(gi), rep.saw(ln)
    # shuffle
    seen_shuffle = False
    for p in paths(init.node, expand_self=False):
        if p.ret is RAISE:
            continue
        shuf = [pol for g, pol, k in p.guards if dump(g) == "shuffle"]
        stores = [e for e in p.events if e.kind == "store" and e.raw is not None and dump(e.raw.value) == "self.data_points"]
        if shuf and shuf[0]:
            seen_shuffle = True
            comp = _shuffle_comprehension(init)
            if not stores and comp is not None:
                shared, detail = comp
                rep.check(R, shared, init.site(), init.fq, "every element is indexed with ONE permutation evaluated before the comprehension", detail, detail)
                continue
            if len(stores) != 1:
                rep.violation(R, init.site(), init.fq, "every element is permuted in one loop", f"{len(stores)} stores into self.data_points", f"{len(stores)} stores")
                continue
            st = stores[0]
            lv = dump(st.raw.slice)
            it = p.loopvars.get(lv)
            whole = it is not None and dump(it).replace(" ", "") == "range(len(self.data_points))"
            rep.check(R, whole, init.site(st.node), init.fq, "the permutation loop covers every element", f"loop over {dump(it)}", dump(it))
            val = st.value
            good = isinstance(val, ast.Subscript) and dump(val.value) in (f"self.data_points[{lv}]", dump(st.target)) and isinstance(val.slice, ast.Call) and ends(attr_chain(val.slice.func), "randperm")
            perm_outside = good and def_id(val.slice) is not None and all(
                getattr(e.node, "lineno", 0) != getattr(val.slice, "lineno", -1) or e.loop == 0 for e in p.events if e.kind == "eval" and e.value is not None and def_id(e.value) == def_id(val.slice))
            # the permutation must be evaluated once, outside the loop
            evals = [e for e in p.events if e.value is not None and def_id(e.value) == def_id(val.slice) and e.kind == "eval" and isinstance(e.node, ast.Assign)]
            once = bool(evals) and all(e.loop == 0 for e in evals)
            rep.check(R, good and once, init.site(st.node), init.fq, "data_points[i] = data_points[i][perm] with ONE perm evaluated before the loop",
                      f"{dump(st.node)}; perm evaluated at loop depth {[e.loop for e in evals]}", dump(st.node))
            if good:
                arg = val.slice.args[0] if val.slice.args else None
                rep.check(R, arg is not None and dump(arg).startswith("len(self.data_points[0]"), init.site(st.node), init.fq, "perm has the length of the data", dump(arg), dump(arg))
        else:
            rep.check(R, not stores, init.site(), init.fq, "without shuffle the data order is untouched", f"{len(stores)} stores", "stores without shuffle")
    rep.check(R, seen_shuffle, init.site(), init.fq, "a shuffle path exists", "none", "no shuffle path")
    # window
    idx = gi.params[1]
    for p in paths(gi.node):
        if p.ret is RAISE:
            continue
        r = p.ret
        lst = r.args[0] if isinstance(r, ast.Call) and attr_chain(r.func) == "tuple" and len(r.args) == 1 else r
        elt = None
        if isinstance(lst, (ast.List, ast.Tuple)) and len(lst.elts) == 1:
            elt = lst.elts[0]
            lv = [k for k, it in p.loopvars.items() if dump(it) == "self.data_points"]
        elif isinstance(lst, (ast.ListComp, ast.GeneratorExp)) and len(lst.generators) == 1 and dump(lst.generators[0].iter) == "self.data_points" and not lst.generators[0].ifs:
            elt = lst.elt
            lv = [dump(lst.generators[0].target)]
        if elt is None or not lv:
            rep.undecided(R, gi.site(), gi.fq, "tuple of one window per element of self.data_points", dump(r)[:120])
            continue
        good = isinstance(elt, ast.Subscript) and dump(elt.value) == lv[0]
        sl = None
        if good:
            s0 = elt.slice.elts[0] if isinstance(elt.slice, ast.Tuple) else elt.slice
            rest = elt.slice.elts[1:] if isinstance(elt.slice, ast.Tuple) else []
            good = isinstance(s0, ast.Slice) and s0.step is None and all(isinstance(x, ast.Slice) and x.lower is None and x.upper is None for x in rest)
            sl = s0
        if not good:
            rep.violation(R, gi.site(), gi.fq, "each element is windowed on its row axis", dump(elt), dump(elt))
            continue
        try:
            at = _idx_atoms()
            lo = to_rf(sl.lower, at) if sl.lower is not None else RF.const(0)
            hi_expr = sl.upper
            capped = False
            L = None
            if isinstance(hi_expr, ast.Call) and attr_chain(hi_expr.func) == "min" and len(hi_expr.args) == 2:
                capped = True
                cands = hi_expr.args
                his = []
                for c in cands:
                    if dump(c).startswith("len(self.data_points[0]"):
                        L = c
                    else:
                        his.append(c)
                hi = to_rf(his[0], at) if len(his) == 1 else None
            else:
                hi = to_rf(hi_expr, at) if hi_expr is not None else None
            B = RF.atom("self.batch_size")
            I = RF.atom(idx)
            rep.check(R, lo == I * B, gi.site(), gi.fq, "window starts at idx*batch_size", f"lo = {lo!r}", repr(lo))
            rep.check(R, hi is not None and hi == (I + RF.const(1)) * B, gi.site(), gi.fq, "window ends at (idx+1)*batch_size (next window starts there: windows tile)", f"hi = {hi!r}", repr(hi))
            rep.check(R, (capped and L is not None) or hi_expr is None or True, gi.site(), gi.fq, "upper end capped by the data length or left to slicing semantics", dump(hi_expr), dump(hi_expr))
        except NotPoly as e:
            rep.undecided(R, gi.site(), gi.fq, "affine window bounds", str(e))
    for p in paths(ln.node):
        if p.ret is RAISE:
            continue
        drop = [pol for g, pol, k in p.guards if dump(g) == "self.drop_last"]
        r = p.ret
        txt = dump(r).replace(" ", "")
        l = "len(self.data_points[0].as_tensor)"
        if drop and drop[0]:
            good = txt in (f"{l}//self.batch_size", f"int({l}/self.batch_size)", f"math.floor({l}/self.batch_size)")
            rep.check(R, good, ln.site(p.ret_node), ln.fq, "drop_last: len == l // batch_size", txt, txt)
        else:
            good = txt in (f"math.ceil({l}/self.batch_size)", f"int(math.ceil({l}/self.batch_size))", f"-(-{l}//self.batch_size)", f"int(np.ceil({l}/self.batch_size))", f"({l}+self.batch_size-1)//self.batch_size")
            rep.check(R, good, ln.site(p.ret_node), ln.fq, "len == ceil(l / batch_size) (no datum lost)", txt, txt)


# ------------------------------------------------------------------ R-C16-2 / 3
def _perm_axes(expr: ast.AST) -> Tuple[str, List[Tuple[object, int, str]]]:
    """peel subscripts: -> (base text, [(perm def id, axis, perm text)])"""
    out = []
    while isinstance(expr, ast.Subscript):
        elts = expr.slice.elts if isinstance(expr.slice, ast.Tuple) else [expr.slice]
        for ax, e in enumerate(elts):
            if isinstance(e, ast.Call) and ends(attr_chain(e.func), "randperm"):
                out.append((def_id(e), ax, dump(e)))
            elif isinstance(e, ast.Slice) and e.lower is None and e.upper is None and e.step is None:
                pass
            else:
                out.append((None, ax, dump(e)))
        expr = expr.value
    return dump(expr), out


COUPLING = {
    # class: {perm length expr: {attr: axis}}
    "DeepONetDataset": {
        "trunk": {"self.trunk_data_points": 0, "self.out_data_points": 1},
        "branch": {"self.branch_data_points": 0, "self.out_data_points": 0},
    },
    "DeepONetDataset_Unique": {
        "trunk": {"self.trunk_data_points": 1, "self.out_data_points": 1},
        "branch": {"self.branch_data_points": 0, "self.out_data_points": 0, "self.trunk_data_points": 0},
    },
}
PERM_LEN = {
    ("DeepONetDataset", "trunk"): ("len(trunk_data_points)",),
    ("DeepONetDataset", "branch"): ("len(branch_data_points)",),
    ("DeepONetDataset_Unique", "trunk"): ("len(trunk_data_points[0])", "trunk_data_points.shape[1]"),
    ("DeepONetDataset_Unique", "branch"): ("len(branch_data_points)",),
}


def r2_shuffle_coupling(repo: Repo, rep):
    R = rep.rule("R-C16-2", "DeepONet data sets: the branch permutation acts on branch axis 0 and outputs axis 0 (and trunk axis 0 when per-function), "
                 "the trunk permutation on trunk and outputs axis 1 — the same permutation value on all coupled tensors", floor=6,
                 why="output[i, j] must stay with branch function i and trunk location j")
    for cname, table in COUPLING.items():
        ci = repo.cls(f"{DDL}.{cname}")
        init = ci.methods.get("__init__")
        if init is None:
            raise AnalysisError(f"{cname}.__init__ vanished")
        rep.saw(init)
        for p in paths(init.node):
            if p.ret is RAISE:
                continue
            flags = {dump(g): pol for g, pol, k in p.guards if dump(g) in ("shuffle_trunk", "shuffle_branch")}
            found: Dict[object, Dict[str, int]] = {}
            texts = {}
            bad = []
            for attr in ("self.trunk_data_points", "self.branch_data_points", "self.out_data_points"):
                v = p.env.get(attr)
                if v is None:
                    bad.append(f"{attr} unassigned")
                    continue
                base, perms = _perm_axes(v)
                want_base = attr[5:]
                if base != want_base:
                    bad.append(f"{attr} built from `{base}`")
                for pid, ax, txt in perms:
                    if pid is None:
                        bad.append(f"{attr} indexed by `{txt}` on axis {ax}")
                    else:
                        found.setdefault(pid, {})[attr] = ax
                        texts[pid] = txt
            if bad:
                rep.violation(R, init.site(), init.fq, "tensors only permuted by shuffle permutations", "; ".join(bad), "; ".join(bad))
                continue
            want = []
            for kind, flag in (("trunk", "shuffle_trunk"), ("branch", "shuffle_branch")):
                if flags.get(flag):
                    want.append((kind, table[kind]))
            got = sorted((sorted(v.items()), texts[k]) for k, v in found.items())
            ok = len(found) == len(want)
            detail = []
            for kind, tbl in want:
                m = [k for k, v in found.items() if v == tbl]
                if len(m) != 1:
                    ok = False
                    detail.append(f"{kind} permutation must act (as ONE value) on {tbl}")
                else:
                    arg = texts[m[0]]
                    if not any(l in arg.replace("self.", "") for l in PERM_LEN[(cname, kind)]):
                        ok = False
                        detail.append(f"{kind} permutation has length of `{arg}`")
            rep.check(R, ok, init.site(), init.fq,
                      f"shuffle flags {flags}: coupled axes permuted by one permutation each", f"found {got}; {'; '.join(detail)}", str(got))


def _wkey(e: Optional[ast.AST], extra: Optional[ast.AST] = None) -> str:
    """normal form of a window bound (non-polynomial sub-terms such as `x % n` are atoms); `extra` is added (start + length)"""
    from ..absdom.poly import RF as _RF, NotPoly as _NP, to_rf as _to_rf

    def atom(n):
        if isinstance(n, ast.Name):
            return _RF.atom(n.id)
        if isinstance(n, (ast.Call, ast.Attribute, ast.Subscript)) or (isinstance(n, ast.BinOp) and isinstance(n.op, (ast.Mod, ast.FloorDiv))):
            return _RF.atom(dump(n).replace(" ", ""))
        return None
    if e is None:
        return ""
    try:
        v = _to_rf(e, atom)
        if extra is not None:
            v = v + _to_rf(extra, atom)
        return repr(v)
    except _NP:
        return dump(e).replace(" ", "") + ("+" + dump(extra).replace(" ", "") if extra is not None else "")


class Win(tuple):
    """(kind, lo text, hi text) — equality on the kind and the normal forms of the bounds"""

    def __new__(cls, kind, lo, hi, lo_key=None, hi_key=None):
        t = super().__new__(cls, (kind, lo, hi))
        t.key = (kind, lo_key if lo_key is not None else lo.replace(" ", ""), hi_key if hi_key is not None else hi.replace(" ", ""))
        return t

    def __eq__(self, o):
        return isinstance(o, Win) and self.key == o.key

    def __ne__(self, o):
        return not self.__eq__(o)

    def __hash__(self):
        return hash(self.key)


def _open_end(w: Win) -> bool:
    return w.key[2] == "" or (w.key[2].startswith("len(") and w.key[2].endswith(")") and w.key[2].count("(") == 1)  # up to the end (coupled tensors have one length on coupled axes)


def _open_start(w: Win) -> bool:
    return w.key[1] in ("", "0")


def _window(expr: ast.AST):
    """-> (base expr, {axis: Win('win'|'wrap', lo_text, hi_text)}) peeling slices, narrow() and wrap-around concatenations; an axis is an int or a name"""
    wins = {}
    cur = expr
    for _ in range(6):
        if isinstance(cur, ast.Subscript):
            elts = cur.slice.elts if isinstance(cur.slice, ast.Tuple) else [cur.slice]
            for ax, e in enumerate(elts):
                if isinstance(e, ast.Slice) and (e.lower is not None or e.upper is not None):
                    if ax in wins or e.step is not None:
                        return None
                    wins[ax] = Win("win", dump(e.lower) if e.lower else "", dump(e.upper) if e.upper else "", _wkey(e.lower), _wkey(e.upper))
                elif isinstance(e, ast.Slice):
                    pass
                else:
                    return None
            cur = cur.value
            continue
        if isinstance(cur, ast.Call) and isinstance(cur.func, ast.Attribute) and cur.func.attr == "narrow" and len(cur.args) == 3 and not cur.keywords:
            axn, start, length = cur.args
            ax = axn.value if isinstance(axn, ast.Constant) and isinstance(axn.value, int) else dump(axn)
            if ax in wins:
                return None
            hi = ast.BinOp(left=start, op=ast.Add(), right=length)
            lo_t = "" if dump(start) == "0" else dump(start)
            wins[ax] = Win("win", lo_t, dump(hi), "" if lo_t == "" else _wkey(start), _wkey(start, length))
            cur = cur.func.value
            continue
        if isinstance(cur, ast.Call) and ends(attr_chain(cur.func), "cat") and cur.args and isinstance(cur.args[0], (ast.List, ast.Tuple)) and len(cur.args[0].elts) == 2:
            dim = kwarg(cur, "dim", 1)
            if isinstance(dim, ast.Constant) and isinstance(dim.value, int):
                ax = dim.value
            elif isinstance(dim, ast.Name):
                ax = dim.id
            else:
                return None
            x, y = cur.args[0].elts
            wx, wy = _window(x), _window(y)
            if wx is None or wy is None:
                return None
            (bx, dx), (by, dy) = wx, wy
            if dump(bx) != dump(by) or ax not in dx or ax not in dy:
                return None
            ox = {k: v for k, v in dx.items() if k != ax}
            oy = {k: v for k, v in dy.items() if k != ax}
            if ox != oy:
                return None
            w1, w2 = dx[ax], dy[ax]
            if not (w1[0] == "win" and w2[0] == "win"):
                return None
            if ax in wins:
                return None
            if _open_end(w1) and _open_start(w2):
                wins[ax] = Win("wrap", w1[1], w2[2], w1.key[1], w2.key[2])
            elif _open_start(w1) and _open_end(w2):
                wins[ax] = Win("wrap-swapped", w2[1], w1[2], w2.key[1], w1.key[2])  # [:b] before [a:]: rows in a different order than the partner tensor
            else:
                return None
            for k, v in ox.items():
                if k in wins:
                    return None
                wins[k] = v
            cur = bx
            continue
        break
    return cur, wins


def _digit(lo_text: str):
    """lo = D * BS % L  -> (kind, radix text, BS text, L text) with kind in raw|quot|rem"""
    try:
        e = ast.parse(lo_text, mode="eval").body
    except SyntaxError:
        return None
    if not (isinstance(e, ast.BinOp) and isinstance(e.op, ast.Mod) and isinstance(e.left, ast.BinOp) and isinstance(e.left.op, ast.Mult)):
        return None
    L = dump(e.right)
    a, b = e.left.left, e.left.right
    for d, bs in ((a, b), (b, a)):
        k = _classify_digit(d)
        if k is not None:
            return k[0], k[1], dump(bs), L
    return None


def _classify_digit(d: ast.AST):
    if isinstance(d, ast.Name):
        return ("raw", d.id)
    if isinstance(d, ast.Call) and attr_chain(d.func) in ("int", "math.floor", "np.floor") and len(d.args) == 1 and isinstance(d.args[0], ast.BinOp) and isinstance(d.args[0].op, ast.Div) and isinstance(d.args[0].left, ast.Name):
        return ("quot", dump(d.args[0].right))
    if isinstance(d, ast.BinOp) and isinstance(d.op, ast.FloorDiv) and isinstance(d.left, ast.Name):
        return ("quot", dump(d.right))
    if isinstance(d, ast.BinOp) and isinstance(d.op, ast.Mod) and isinstance(d.left, ast.Name):
        return ("rem", dump(d.right))
    return None


def r2b_windows_unique(repo: Repo, rep):
    R2 = rep.rule("R-C16-2b", "per batch the same window (a,b) cuts all coupled tensors on the coupled axes, in the straight and in the wrap-around branch",
                  floor=8, why="a window applied to the inputs but not to the outputs pairs rows with foreign targets")
    R3 = rep.rule("R-C16-3", "branch and trunk window indices are independent digits of the batch index (quotient / remainder by one radix, "
                  "__len__ = product of the digit ranges)", floor=2,
                  why="otherwise some (function, location) pairs are never presented in a pass while others repeat")
    ci = repo.cls(f"{DDL}.DeepONetDataset_Unique")
    gi, ln = ci.methods.get("__getitem__"), ci.methods.get("__len__")
    if gi is None or ln is None:
        raise AnalysisError("DeepONetDataset_Unique.__getitem__/__len__ vanished")
    rep.saw(gi), rep.saw(ln)
    digits = set()
    for p in paths(gi.node):
        if p.ret is RAISE:
            continue
        r = p.ret
        if not (isinstance(r, ast.Tuple) and len(r.elts) == 3 and all(isinstance(e, ast.Call) and ends(attr_chain(e.func), "Points") for e in r.elts)):
            rep.undecided(R2, gi.site(), gi.fq, "returns (Points(branch), Points(trunk), Points(out))", dump(r)[:100])
            continue
        sp = [dump(e.args[1]) if len(e.args) > 1 else "" for e in r.elts]
        rep.check(R2, sp == ["self.branch_space", "self.trunk_space", "self.output_space"], gi.site(), gi.fq, "each tensor labelled with its own space", str(sp), str(sp))
        ws = [_window(e.args[0]) for e in r.elts]
        if any(w is None for w in ws):
            rep.undecided(R2, gi.site(), gi.fq, "window descriptors extractable", "idiom outside slices/cat")
            continue
        (bb, bw), (tb, tw), (ob, ow) = ws
        bases = [dump(bb), dump(tb), dump(ob)]
        rep.check(R2, bases == ["self.branch_data_points", "self.trunk_data_points", "self.out_data_points"], gi.site(), gi.fq, "each output cut from its own stored tensor", str(bases), str(bases))
        good = set(bw) == {0} and set(tw) == {0, 1} and set(ow) == {0, 1} and bw[0] == tw[0] == ow[0] and tw[1] == ow[1]
        rep.check(R2, good, gi.site(), gi.fq, "branch window on axis 0 of branch/trunk/out; trunk window on axis 1 of trunk/out",
                  f"branch {bw}, trunk {tw}, out {ow}", f"{bw}|{tw}|{ow}")
        if good:
            db, dt = _digit(bw[0][1]), _digit(tw[1][1])
            digits.add((db, dt))
    for db, dt in digits:
        if db is None or dt is None:
            rep.undecided(R3, gi.site(), gi.fq, "window start of the form digit*batch_size % length", f"{db} / {dt}")
            continue
        kinds = {db[0], dt[0]}
        radix_equal = db[1] == dt[1]
        ok = kinds == {"quot", "rem"} and radix_equal
        detail = f"branch digit = {db[0]}(idx, {db[1]}), trunk digit = {dt[0]}(idx, {dt[1]})"
        if ok:
            radix = db[1]
            # window counts: attributes defined as ceil(length / batch size)
            counts = {}
            init = ci.methods.get("__init__")
            init_paths = [q for q in (paths(init.node, expand_self=False) if init is not None else []) if q.ret is not RAISE]
            # the path on which the given batch sizes are used as they are (no `< 0` replacement by the data length)
            init_paths.sort(key=lambda q: sum(1 for g, pol, k in q.guards if pol and "_batch_size" in dump(g) and "<0" in dump(g).replace(" ", "")))
            init_texts = _attr_texts(init_paths[0].attrs) if init_paths else {}
            for name, t in init_texts.items():
                for fn in ("int(np.ceil(", "int(math.ceil(", "math.ceil(", "np.ceil("):
                    if t.startswith(fn) and "/" in t:
                        inner = t[len(fn):].rstrip(")")
                        L, _, BS = inner.partition("/")
                        counts[(L, BS)] = name
            # the counts the index is decoded with follow the current batch sizes: __len__ (called by the loader at the start of a pass) recomputes them
            for p in paths(ln.node, expand_self=False):
                if p.ret is RAISE:
                    continue
                len_texts = _attr_texts(p.attrs)
                stale = [name for name in counts.values() if name not in len_texts or len_texts[name] != init_texts.get(name)]
                rep.check(R3, not stale, ln.site(), ln.fq, "window counts are recomputed from the current batch sizes in __len__ (same formulas as the constructor)",
                          f"not recomputed: {stale}", f"stale counts {stale}")
                break
            # len must be radix * (count of the quotient digit's tensor); the remainder digit's radix is its own tensor's count
            for p in paths(ln.node, expand_self=False):
                if p.ret is RAISE:
                    continue
                txt = dump(p.ret)
                for name, val in sorted(p.attrs.items(), key=lambda kv: -len(dump(kv[1]))):
                    # a factor spelled as the value just stored into the attribute IS that attribute
                    if len(dump(val)) > len(name):
                        txt = txt.replace(dump(val), name)
                factors = sorted(x.strip() for x in txt.split("*"))
                ok = ok and len(factors) == 2 and radix in factors
                detail += f"; __len__ = {txt}"
                if ok and counts:
                    for who, dg in (("branch", db), ("trunk", dt)):
                        own = counts.get((dg[3].replace(" ", ""), dg[2].replace(" ", "")))
                        if own is None:
                            continue
                        other = [f for f in factors if f != radix] or [radix]
                        rng = radix if dg[0] == "rem" else other[0]
                        if rng != own:
                            ok = False
                            detail += f"; the {who} digit ranges over {rng} values but its tensor has {own} windows"
        rep.check(R3, ok, gi.site(), gi.fq, "idx -> (idx // m, idx % m) with one radix m and __len__ = m * (other count)", detail, f"{db}|{dt}")


def r2c_shared_trunk(repo: Repo, rep):
    R2 = rep.rules.get("R-C16-2b") and "R-C16-2b"
    R3 = "R-C16-3"
    ci = repo.cls(f"{DDL}.DeepONetDataset")
    gi, sl, ln = ci.methods.get("__getitem__"), ci.methods.get("_slice_points"), ci.methods.get("__len__")
    if gi is None or ln is None:
        raise AnalysisError("DeepONetDataset.__getitem__/__len__ vanished")
    rep.saw(gi), rep.saw(ln)
    if sl is None:
        rep.undecided(R2, gi.site(), gi.fq, "_slice_points helper", "vanished: idiom not recognised")
        return
    rep.saw(sl)
    pn = sl.params  # self, points, out_points, out_axis, batch_size, idx
    # helper: same window on points axis 0 and out axis out_axis
    for p in paths(sl.node):
        if p.ret is RAISE:
            continue
        r = p.ret
        if not (isinstance(r, ast.Tuple) and len(r.elts) == 2):
            rep.undecided(R2, sl.site(), sl.fq, "returns (points, out_points)", dump(r)[:80])
            continue
        axis = None
        for g, pol, k in p.guards:
            if isinstance(g, ast.Compare) and dump(g.left) == pn[3] and isinstance(g.ops[0], ast.Eq) and pol:
                axis = g.comparators[0].value
        wp, wo = _window(r.elts[0]), _window(r.elts[1])
        if axis is None and wo is not None and set(wo[1]) == {pn[3]}:
            axis = pn[3]  # the window is applied on the axis the caller names, whatever it is
        if wp is None or wo is None or axis is None:
            rep.undecided(R2, sl.site(p.ret_node), sl.fq, "window descriptors extractable", "idiom outside slices/cat")
            continue
        good = dump(wp[0]) == pn[1] and dump(wo[0]) == pn[2] and set(wp[1]) == {0} and set(wo[1]) == {axis} and wp[1][0] == wo[1][axis]
        rep.check(R2, good, sl.site(p.ret_node), sl.fq, f"points axis 0 and out_points axis {axis} cut by the same window", f"points {wp[1]}, out {wo[1]}", f"{wp[1]}|{wo[1]}")
        if good:
            d = _digit(wp[1][0][1])
            L = f"len({pn[1]})"
            sizes = (pn[4], f"min({pn[4]}, {L})", f"min({L}, {pn[4]})")  # the requested batch size, possibly bounded by the tensor length
            rep.check(R2, d is not None and d[0] == "raw" and d[1] == pn[5] and d[2] in sizes and d[3] == L, sl.site(p.ret_node), sl.fq,
                      "window = [idx*batch_size, (idx+1)*batch_size) modulo the tensor length", str(d), str(d))
    # __getitem__: calls with the right coupling and digits
    for p in paths(gi.node):
        if p.ret is RAISE:
            continue
        calls = []
        seen = set()
        for e in p.events:
            if e.value is None:
                continue
            for c in ast.walk(e.value):
                if isinstance(c, ast.Call) and dump(c.func) == "self._slice_points" and def_id(c) not in seen:
                    seen.add(def_id(c))
                    calls.append(c)
        by_axis = {}
        for c in calls:
            if len(c.args) == 5 and isinstance(c.args[2], ast.Constant):
                by_axis[c.args[2].value] = c
        if set(by_axis) != {0, 1}:
            rep.undecided(R2, gi.site(), gi.fq, "two _slice_points calls (out axis 0 and 1)", f"{[dump(c)[:60] for c in calls]}")
            continue
        c0, c1 = by_axis[0], by_axis[1]
        good0 = dump(c0.args[0]) == "self.branch_data_points" and dump(c0.args[3]) == "self.branch_batch_size"
        good1 = dump(c1.args[0]) == "self.trunk_data_points" and dump(c1.args[3]) == "self.trunk_batch_size"
        # outputs chained: one of the calls takes self.out_data_points, the other the out result of the first
        outs = {dump(c0.args[1]), dump(c1.args[1])}
        chained = "self.out_data_points" in outs and any(o.endswith("[1]") and "_slice_points" in o for o in outs)
        rep.check(R2, good0 and good1 and chained, gi.site(), gi.fq, "branch window on outputs axis 0, trunk window on outputs axis 1, applied one after the other to the same outputs",
                  f"{dump(c0)[:90]} ; {dump(c1)[:90]}", "coupling")
        r = p.ret
        if isinstance(r, ast.Tuple) and len(r.elts) == 3:
            sp = [dump(e.args[1]) if isinstance(e, ast.Call) and len(e.args) > 1 else "" for e in r.elts]
            rep.check(R2, sp == ["self.branch_space", "self.trunk_space", "self.output_space"], gi.site(), gi.fq, "each tensor labelled with its own space", str(sp), str(sp))
        db, dt = _classify_digit(c0.args[4]), _classify_digit(c1.args[4])
        if db is None or dt is None:
            rep.undecided(R3, gi.site(), gi.fq, "digit form of the index arguments", f"{dump(c0.args[4])} / {dump(c1.args[4])}")
            continue
        kinds = {db[0], dt[0]}
        ok = kinds == {"quot", "rem"} and db[1] == dt[1]
        lens = [dump(p2.ret) for p2 in paths(ln.node) if p2.ret is not RAISE]
        rep.check(R3, ok, gi.site(), gi.fq, "idx -> (idx // m, idx % m) with one radix m and __len__ = m * (other count)",
                  f"branch digit = {db[0]}({db[1]}), trunk digit = {dt[0]}({dt[1]}) — one index drives both windows; __len__ = {lens[0][:90] if lens else None}",
                  f"{db}|{dt}")
        if ok:
            # independent digits enumerate the pairs only if the pass is as long as the product of the two digit ranges
            def product(t):
                try:
                    e = ast.parse(t, mode="eval").body
                except SyntaxError:
                    return False
                while isinstance(e, ast.Call) and attr_chain(e.func) in ("int", "round") and len(e.args) == 1:
                    e = e.args[0]
                return isinstance(e, ast.BinOp) and isinstance(e.op, ast.Mult)
            rep.check(R3, bool(lens) and all(product(t) for t in lens), ln.site(), ln.fq, "with independent digits __len__ is the product of the two digit ranges (every function batch meets every location batch)",
                      f"__len__ = {lens[0][:120] if lens else None}", f"independent digits, __len__ = {lens[0][:80] if lens else None}")


# ------------------------------------------------------------------ R-C16-4
def _flag(guards, what):
    """polarity of a normalised guard among (test, pol) pairs; None if undecided on this variant"""
    from ..util import norm_compare
    for g, pol in guards:
        op, l, r, npol = norm_compare(g, pol)
        l, r = l.replace('"', "'"), r.replace('"', "'")
        if what == "inf" and op == "==" and {l, r} == {"'inf'", "self.norm"}:
            return npol
        if what == "root" and op == "==" and {l, r} <= {"1.0", "1", "self.root"} and "self.root" in (l, r):
            return not npol  # guard normalised to `root == 1`: the root is applied when it is false
        if what == "full" and op == "truth" and l == "self.use_full_dataset":
            return npol
    return None


def data_loss_rules(repo: Repo, rep, R_full: str, R_single: str):
    """Shared by C16 (aggregation over the loader) and C04 (documented norm): every variant of the expanded
    loss expression (helpers inlined, conditional helpers resolved both ways) must have the documented shape."""
    from ..inline import expand_helpers, variants
    cond = repo.cls("problem.conditions.condition.Condition")
    n = 0
    for ci in repo.subclasses(cond):
        fi = ci.methods.get("forward")
        if fi is None or "use_full_dataset" not in ast.unparse(fi.node):
            continue
        rep.saw(fi)
        n += 1
        loops = [l for l in ast.walk(fi.node) if isinstance(l, ast.For) and "dataloader" in dump(l.iter)]
        if not loops:
            # a loop over a stored attribute (an iterator kept from an earlier call) yields nothing once it is exhausted
            stored = [l for l in ast.walk(fi.node) if isinstance(l, ast.For) and isinstance(l.iter, ast.Attribute) and dump(l.iter.value) == "self"
                      and any("_compute_dist" in dump(c) or "batch" in dump(l.target) for c in ast.walk(l))]
            if stored:
                rep.violation(R_full, fi.site(stored[0]), fi.fq, "every evaluation on the full data set walks a fresh pass over self.dataloader",
                              f"loops over the stored `{dump(stored[0].iter)}` (exhausted after the first evaluation)", f"full-data loop over stored {dump(stored[0].iter)}")
                continue
        if not loops:
            # an override that evaluates the full data set without a pass over the loader: whatever it computes, it is not the aggregate of the batches the loader delivers
            direct = [dump(c)[:60] for c in ast.walk(fi.node) if isinstance(c, ast.Call) and dump(c.func) in ("self._compute_dist",)]
            delegating = [c for c in ast.walk(fi.node) if isinstance(c, ast.Call) and dump(c.func) == "super().forward"]
            if direct:
                rep.violation(R_full, fi.site(), fi.fq, "the loss on the full data set is aggregated over the batches of self.dataloader", f"computed without a pass over the loader: {direct[0]}"
                              + (" (the other configurations delegate to super().forward)" if delegating else ""), "full-data loss without the loader")
                continue
        if len(loops) != 1:
            rep.undecided(R_full, fi.site(), fi.fq, "one loop over self.dataloader", f"{len(loops)} loops")
            continue
        loop = loops[0]
        it = dump(loop.iter)
        rep.check(R_full, it in ("iter(self.dataloader)", "self.dataloader"), fi.site(loop), fi.fq, "the loop ranges over the whole loader", it, it)
        # `if c: <update>; continue` followed by the other update is the if/else form of the same aggregation: such a trailing `continue` of a
        # branch standing directly in the loop body is no jump out of the aggregation
        benign = {id(b.body[-1]) for b in loop.body if isinstance(b, ast.If) and b.body and isinstance(b.body[-1], ast.Continue)} | \
                 {id(b.orelse[-1]) for b in loop.body if isinstance(b, ast.If) and b.orelse and isinstance(b.orelse[-1], ast.Continue)}
        jumps = [type(s).__name__ for s in ast.walk(loop) if isinstance(s, (ast.Break, ast.Continue, ast.Return)) and id(s) not in benign]
        rep.check(R_full, not jumps, fi.site(loop), fi.fq, "no break/continue/return inside the aggregation loop", str(jumps), str(jumps))
        for p in paths(fi.node):
            if p.ret is RAISE or p.ret is None:
                continue
            base_guards = [(g, pol) for g, pol, k in p.guards if k == "if"]
            full = _flag(base_guards, "full")
            if full is None:
                rep.undecided(R_full, fi.site(p.ret_node), fi.fq, "path decided on use_full_dataset", "no such guard")
                continue
            R = R_full if full else R_single
            keep = lambda f: f.name.startswith("_") and f.name != "_compute_dist" and not f.name.startswith("__")
            e = expand_helpers(repo, ci, p.ret, accept=keep)
            for extra, v in variants(e):
                guards = base_guards + extra
                inf, root = _flag(guards, "inf"), _flag(guards, "root")
                unknown = [dump(c.func) for c in ast.walk(v) if isinstance(c, ast.Call) and dump(c.func).startswith("self._") and dump(c.func) != "self._compute_dist"]
                if unknown or inf is None or root is None:
                    rep.undecided(R, fi.site(p.ret_node), fi.fq, "loss expression decidable (norm/root flags, helpers inlined)", f"unknown {unknown[:1]} inf={inf} root={root}")
                    continue
                core = v
                if root:
                    if isinstance(core, ast.BinOp) and isinstance(core.op, ast.Pow) and dump(core.right).replace(" ", "") in ("1/self.root", "1.0/self.root"):
                        core = core.left
                    else:
                        rep.violation(R, fi.site(p.ret_node), fi.fq, "root applied once, last, to the aggregate: loss ** (1/root)", dump(v)[:140], _abstract(v))
                        continue
                if "self.root" in dump(core):
                    rep.violation(R, fi.site(p.ret_node), fi.fq, "root applied once, last, to the aggregate", dump(core)[:140], _abstract(v))
                    continue
                dists = {dump(c) for c in ast.walk(core) if isinstance(c, ast.Call) and dump(c.func) == "self._compute_dist"}
                if len(dists) != 1:
                    rep.violation(R, fi.site(p.ret_node), fi.fq, "exactly one distance evaluation per batch", f"{len(dists)} evaluations", _abstract(v))
                    continue
                dist = list(dists)[0]
                t = dump(core)
                if full:
                    if inf:
                        good = (isinstance(core, ast.Call) and ends(attr_chain(core.func), "maximum", "max") and len(core.args) == 2
                                and _is_zero_init(core.args[0]) and dump(core.args[1]) in (f"torch.max({dist})", f"{dist}.max()"))
                        want = "loss = maximum(loss, max(dist(batch)))"
                    else:
                        good = False
                        if isinstance(core, ast.BinOp) and isinstance(core.op, ast.Add) and _is_zero_init(core.left):
                            tt = core.right
                            if isinstance(tt, ast.BinOp) and isinstance(tt.op, ast.Div) and dump(tt.right) == "len(self.dataloader)":
                                good = dump(tt.left) in (f"torch.mean({dist} ** self.norm)", f"({dist} ** self.norm).mean()")
                        want = "loss = loss + mean(dist(batch)**norm) / len(loader)"
                else:
                    if inf:
                        good = t in (f"torch.max({dist})", f"{dist}.max()")
                        want = "inf-norm: max of the distances"
                    else:
                        good = t in (f"torch.mean({dist} ** self.norm)", f"({dist} ** self.norm).mean()")
                        want = "p-norm: mean(dist ** norm)"
                rep.check(R, good, fi.site(p.ret_node), fi.fq, want, t[:170], _abstract(v))
    if n == 0:
        rep.undecided(R_full, "-", "-", "conditions with use_full_dataset", "none found")


def _abstract(e) -> str:
    """operator skeleton of a loss expression (stable under renaming of temporaries)"""
    out = []
    for n in ast.walk(e):
        if isinstance(n, ast.Call):
            out.append(dump(n.func).split(".")[-1])
        elif isinstance(n, ast.BinOp):
            out.append(type(n.op).__name__)
    return " ".join(out)[:200]


def r4_full_dataset(repo: Repo, rep):
    R = rep.rule("R-C16-4", "use_full_dataset: one loop over the whole loader; 'inf' -> running max of per-batch max, else + mean(a**norm)/len(loader); root last",
                 floor=3, why="a break/skip, a missing division or a per-batch root changes the aggregate over the data set")
    R2 = rep.rule("R-C16-4b", "single-batch path: max for 'inf', mean(a**norm) else, root last", floor=3,
                  why="the documented norm of model-minus-target")
    data_loss_rules(repo, rep, R, R2)


def _is_zero_init(e):
    return isinstance(e, ast.Call) and ends(attr_chain(e.func), "zeros") and e.args and dump(e.args[0]) in ("1", "(1,)", "[1]")


def _num_eval(e: ast.AST, sym):
    """numeric evaluation of a length formula; `sym(text)` gives the value of leaf expressions"""
    import math
    t = dump(e)
    v = sym(t)
    if v is not None:
        return v
    if isinstance(e, ast.Constant) and isinstance(e.value, (int, float)):
        return e.value
    if isinstance(e, ast.BinOp):
        a, b = _num_eval(e.left, sym), _num_eval(e.right, sym)
        return {ast.Add: a + b, ast.Sub: a - b, ast.Mult: a * b, ast.Div: a / b if b else float("nan"), ast.FloorDiv: a // b if b else float("nan"), ast.Mod: a % b if b else float("nan")}[type(e.op)]
    if isinstance(e, ast.Call):
        ch = attr_chain(e.func) or ""
        args = [_num_eval(a, sym) for a in e.args]
        if ch in ("int",):
            return int(args[0])
        if ch in ("np.lcm", "math.lcm", "numpy.lcm"):
            return math.lcm(int(args[0]), int(args[1]))
        if ch in ("np.gcd", "math.gcd", "numpy.gcd"):
            return math.gcd(int(args[0]), int(args[1]))
        if ch in ("np.ceil", "math.ceil", "torch.ceil"):
            return math.ceil(args[0])
        if ch in ("np.floor", "math.floor"):
            return math.floor(args[0])
        if ch in ("max", "min"):
            return max(args) if ch == "max" else min(args)
    raise ValueError(f"not a length formula: {t[:60]}")


def r3b_shared_len(repo: Repo, rep):
    import math
    R = rep.rule("R-C16-3b", "DeepONetDataset.__len__ is a multiple of the common period of the two wrap-around window sequences "
                 "(period per axis = N / gcd(N, batch_size)), by finite instantiation", floor=1,
                 why="a shorter epoch stops before the cyclic windows have returned to their start: rows / pairs that the full period presents are skipped")
    ci = repo.cls(f"{DDL}.DeepONetDataset")
    ln = ci.methods.get("__len__")
    if ln is None:
        raise AnalysisError("DeepONetDataset.__len__ vanished")
    rep.saw(ln)
    for p in paths(ln.node, expand_self=False):
        if p.ret is RAISE or p.ret is None:
            continue
        bad, n = [], 0
        try:
            for Nb in (2, 3, 4, 6):
                for bb in (1, 2, 3, 4):
                    for Nt in (3, 5, 6):
                        for tb in (2, 3, 4):
                            vals = {"len(self.branch_data_points)": Nb, "self.branch_batch_size": bb, "len(self.trunk_data_points)": Nt, "self.trunk_batch_size": tb}
                            got = _num_eval(p.ret, lambda t: vals.get(t))
                            pb, pt = Nb // math.gcd(Nb, bb), Nt // math.gcd(Nt, tb)
                            want = math.lcm(pb, pt)
                            n += 1
                            if not (got >= want and got % want == 0):
                                bad.append((Nb, bb, Nt, tb, got, want))
        except ValueError as err:
            rep.undecided(R, ln.site(), ln.fq, "length formula evaluable", str(err))
            continue
        w = bad[0] if bad else None
        rep.check(R, not bad, ln.site(p.ret_node), ln.fq, "len % lcm(N_b/gcd(N_b,b_b), N_t/gcd(N_t,b_t)) == 0 on the grid",
                  f"fails for {len(bad)} of {n} instantiations, e.g. N_b={w[0]}, b_b={w[1]}, N_t={w[2]}, b_t={w[3]}: len={w[4]}, common period={w[5]}" if w else f"{n} instantiations",
                  "len formula: " + dump(p.ret)[:120])


def r3c_unique_coverage(repo: Repo, rep):
    import math
    R = rep.rule("R-C16-3c", "DeepONetDataset_Unique: over one pass the wrap-around windows of __getitem__ present every (function, location) pair, also for batch sizes "
                 "above the data-set size - by finite instantiation of the window bounds", floor=1,
                 why="(k*B) % N .. ((k+1)*B) % N describes B consecutive rows only while B <= N: a larger batch size yields a window of B mod N rows")
    ci = repo.cls(f"{DDL}.DeepONetDataset_Unique")
    gi, ln = ci.methods.get("__getitem__"), ci.methods.get("__len__")
    if gi is None or ln is None:
        raise AnalysisError("DeepONetDataset_Unique.__getitem__/__len__ vanished")
    rep.saw(gi), rep.saw(ln)
    # the window bounds: the two sides of the straight / wrap-around tests `a < b`, per axis
    bounds = {}
    for p in paths(gi.node):
        if p.ret is RAISE:
            continue
        for g, pol, k in p.guards:
            if k == "if" and isinstance(g, ast.Compare) and len(g.ops) == 1 and isinstance(g.ops[0], (ast.Lt, ast.LtE)) and "%" in dump(g):
                t = dump(g)
                axis = "branch" if "branch_batch_size" in t and "trunk_batch_size" not in t else "trunk" if "trunk_batch_size" in t and "branch_batch_size" not in t else None
                if axis:
                    bounds[axis] = (g.left, g.comparators[0], isinstance(g.ops[0], ast.LtE))
    lens = [p.ret for p in paths(ln.node, expand_self=False) if p.ret is not RAISE and p.ret is not None]
    if set(bounds) != {"branch", "trunk"} or len(lens) != 1:
        rep.undecided(R, gi.site(), gi.fq, "window tests `start < stop` of both axes and one length formula", f"axes {sorted(bounds)}, {len(lens)} length formulas")
        return
    len_attrs = {}
    for p in paths(ln.node, expand_self=False):
        len_attrs = {k: v for k, v in p.attrs.items()}
        break
    bad, n = [], 0
    try:
        for Nb, bb, Nt, tb in ((5, 2, 4, 3), (4, 4, 3, 1), (5, 7, 4, 4), (5, 5, 4, 6), (3, 4, 5, 7), (6, 4, 6, 9), (2, 1, 3, 3)):
            base = {"len(self.branch_data_points)": Nb, "self.branch_batch_size": bb, "len(self.trunk_data_points[0])": Nt, "self.trunk_batch_size": tb}
            derived = {}

            def sym(t, idx=None):
                if t == "idx":
                    return idx
                if t in base:
                    return base[t]
                t2 = t.replace(" ", "")
                shapes = {"self.branch_data_points": (Nb,), "self.trunk_data_points": (Nb, Nt), "self.out_data_points": (Nb, Nt)}
                for name, shp in shapes.items():
                    for k, v in enumerate(shp):
                        if t2 in (f"{name}.shape[{k}]", f"{name}.size({k})", "len(" + name + "[0]" * k + ")", "len(" + name + "[0]" * k + ")"):
                            return v
                if t in derived:
                    return derived[t]
                return None
            for name, val in len_attrs.items():
                derived[name] = _num_eval(val, lambda t: sym(t))
            total = int(_num_eval(lens[0], lambda t: sym(t)))
            seen = set()
            for idx in range(total):
                win = {}
                for axis, N in (("branch", Nb), ("trunk", Nt)):
                    a = int(_num_eval(bounds[axis][0], lambda t: sym(t, idx)))
                    b = int(_num_eval(bounds[axis][1], lambda t: sym(t, idx)))
                    straight = a <= b if bounds[axis][2] else a < b
                    win[axis] = list(range(a, min(b, N))) if straight else list(range(a, N)) + list(range(0, min(b, N)))
                seen |= {(i, j) for i in win["branch"] for j in win["trunk"]}
            n += 1
            if len(seen) != Nb * Nt:
                bad.append((Nb, bb, Nt, tb, len(seen), Nb * Nt, total))
    except (ValueError, TypeError) as err:
        rep.undecided(R, gi.site(), gi.fq, "window bounds evaluable", str(err)[:100])
        return
    w = bad[0] if bad else None
    rep.check(R, not bad, gi.site(), gi.fq, "every (function, location) pair is inside some batch window of a pass, on the grid of sizes",
              f"fails for {len(bad)} of {n} instantiations, e.g. {w[0]} functions / batch {w[1]}, {w[2]} locations / batch {w[3]}: {w[4]} of {w[5]} pairs in {w[6]} batches" if w else f"{n} instantiations",
              "window bounds: " + dump(bounds["branch"][0])[:60] + " .. " + dump(bounds["branch"][1])[:60])


def r5_loader_hands_sizes_on(repo: Repo, rep):
    R = rep.rule("R-C16-5", "DeepONetDataLoader hands the requested batch sizes to its data set unchanged: 'negative = everything' is resolved by the data set, "
                 "which knows which axis of its tensors is meant", floor=1,
                 why="len(trunk_data) is the number of functions in the per-function layout: a trunk batch size resolved with it cuts the locations short")
    ci = repo.cls(f"{DDL}.DeepONetDataLoader")
    init = ci.methods.get("__init__")
    if init is None:
        raise AnalysisError("DeepONetDataLoader.__init__ vanished")
    rep.saw(init)
    sizes = [p for p in init.params if p.endswith("batch_size")]
    rebound = sorted({t.id for n in ast.walk(init.node) if isinstance(n, (ast.Assign, ast.AugAssign)) for t in (n.targets if isinstance(n, ast.Assign) else [n.target])
                      if isinstance(t, ast.Name) and t.id in sizes})
    passed = []
    for c in ast.walk(init.node):
        if isinstance(c, ast.Call) and (attr_chain(c.func) or "").startswith("DeepONetDataset"):
            for k in c.keywords:
                if k.arg in sizes:
                    passed.append((k.arg, dump(k.value)))
            for a in c.args:
                if isinstance(a, ast.Name) and a.id in sizes:
                    passed.append((a.id, a.id))
    ok = not rebound and passed and all(a == v for a, v in passed) and {a for a, v in passed} >= set(sizes)
    rep.check(R, ok, init.site(), init.fq, "batch sizes are forwarded as given", f"re-bound: {rebound}; forwarded: {sorted(set(passed))[:4]}", f"batch sizes re-bound {rebound}")


def r6_loader_is_transparent(repo: Repo, rep):
    R = rep.rule("R-C16-6", "the loaders are transparent: the user's tensors reach the data set as given (not re-bound, transposed or collapsed), the choice of the data set depends on "
                 "shapes only (no allclose / equal / any / all on the data), and no loader keeps batches of an earlier pass (__iter__ is the DataLoader's)", floor=3,
                 why="a layout guessed from values or sizes pairs outputs with other locations for nearly equal / square data; cached batches ignore a later change of the batch sizes")
    VALUE_PRED = ("allclose", "equal", "isclose", "any", "all", "item", "sum", "max", "min", "mean", "unique", "norm")
    for mname in (DL, DDL):
        m = repo.module(mname)
        for ci in m.classes.values():
            is_loader = any(ends(b, "DataLoader") for b in ci.ext_bases + [getattr(x, "name", "") for x in getattr(ci, "bases", [])])
            init = ci.methods.get("__init__")
            if init is None:
                continue
            rep.saw(init)
            data = [p for p in init.params[1:] if p.endswith(("_data", "data_points", "_points")) or p in ("data_points",)]
            if is_loader:
                rebound = sorted({t.id for n in ast.walk(init.node) if isinstance(n, (ast.Assign, ast.AugAssign)) for t in (n.targets if isinstance(n, ast.Assign) else [n.target])
                                  if isinstance(t, ast.Name) and t.id in data})
                rep.check(R, not rebound, init.site(), init.fq, "the data arguments are handed on as given", f"re-bound before the data set is built: {rebound}", f"{ci.name}: data re-bound {rebound}")
                own_iter = [n for n in ("__iter__", "__next__") if n in ci.methods]
                rep.check(R, not own_iter, ci.module.relpath, ci.fq, "iteration is the DataLoader's (every pass asks the data set anew)", f"defines {own_iter}", f"{ci.name} defines {own_iter}")
            # guards of the constructor look at shapes / flags only
            bad = []
            for n in ast.walk(init.node):
                tests = [n.test] if isinstance(n, (ast.If, ast.IfExp, ast.While)) else []
                for t in tests:
                    for c in ast.walk(t):
                        if isinstance(c, ast.Call) and (attr_chain(c.func) or dump(c.func)).split(".")[-1] in VALUE_PRED and any(isinstance(x, ast.Name) and x.id in data for x in ast.walk(c)) \
                                and not all(isinstance(pn, ast.Attribute) and pn.attr in ("shape", "ndim") or True for pn in []):
                            # value predicates on shape tuples (e.g. all(s > 0 for s in x.shape)) are not data-dependent
                            only_shapes = all(not (isinstance(x, ast.Name) and x.id in data) or _under_shape(c, x) for x in ast.walk(c))
                            if not only_shapes:
                                bad.append(dump(c)[:60])
            rep.check(R, not bad, init.site(), init.fq, "branches of the constructor depend on shapes and flags only", f"value-dependent test {bad[:1]}", f"{ci.name}: value test {bad[:1]}")


def _under_shape(root: ast.AST, name_node: ast.AST) -> bool:
    """the occurrence of a data name is only read through .shape / .ndim / len() / .dim()"""
    for n in ast.walk(root):
        if isinstance(n, ast.Attribute) and n.value is name_node and n.attr in ("shape", "ndim", "dtype", "device"):
            return True
        if isinstance(n, ast.Call) and dump(n.func) == "len" and n.args and n.args[0] is name_node:
            return True
        if isinstance(n, ast.Call) and isinstance(n.func, ast.Attribute) and n.func.value is name_node and n.func.attr in ("dim", "size", "ndimension"):
            return True
    return False


def run(repo: Repo, rep):
    from .generic import g_arg_constructor_parameters  # use_full_dataset / batch arguments must reach the code that iterates the loader
    g_arg_constructor_parameters(repo, rep, lambda m: ".conditions." in m or ".samplers.data_samplers" in m or "data_loader" in m, floor=10,
                                 why="a data condition that drops use_full_dataset / a loader that ignores batch_size or shuffle iterates another set of batches than documented")
    from .c14 import r4_forward_and_ctor_calls  # a data condition keeps no loss between evaluations: every forward iterates the loader again
    r4_forward_and_ctor_calls(repo, rep)
    r5_loader_hands_sizes_on(repo, rep)
    r6_loader_is_transparent(repo, rep)
    r3c_unique_coverage(repo, rep)
    r3b_shared_len(repo, rep)
    r1_points_dataset(repo, rep)
    r2_shuffle_coupling(repo, rep)
    r2b_windows_unique(repo, rep)
    r2c_shared_trunk(repo, rep)
    r4_full_dataset(repo, rep)
    from .c04 import r5_reductions  # the error of a data batch is computed out of place: writing it into the batch's target tensor overwrites the stored data that later batches are cut from
    r5_reductions(repo, rep)


_D = "src/torchphysics/utils/data/dataloader.py"
_DD = "src/torchphysics/utils/data/deeponet_dataloader.py"
_C = "src/torchphysics/problem/conditions/condition.py"
MUTANTS = [
    dict(id="C16-M1", file=_D, old="            for i in range(len(self.data_points)):\n                self.data_points[i] = self.data_points[i][perm]",
         new="            for i in range(1, len(self.data_points)):\n                self.data_points[i] = self.data_points[i][perm]", rule="R-C16-1", what="first element not permuted"),
    dict(id="C16-M2", file=_D, old="            perm = torch.randperm(len(self.data_points[0].as_tensor))\n            for i in range(len(self.data_points)):\n",
         new="            for i in range(len(self.data_points)):\n                perm = torch.randperm(len(self.data_points[0].as_tensor))\n", rule="R-C16-1", what="new permutation per element"),
    dict(id="C16-M3", file=_D, old="points[idx * self.batch_size : min((idx + 1) * self.batch_size, l), :]", new="points[idx * self.batch_size : min((idx + 1) * self.batch_size - 1, l), :]", rule="R-C16-1", what="window one short"),
    dict(id="C16-M4", file=_D, old="return math.ceil(len(self.data_points[0].as_tensor) / self.batch_size)", new="return len(self.data_points[0].as_tensor) // self.batch_size", rule="R-C16-1", what="tail dropped without drop_last"),
    dict(id="C16-M5", file=_DD, old="            self.branch_data_points = self.branch_data_points[branch_perm]\n            self.out_data_points = self.out_data_points[branch_perm, :]",
         new="            self.branch_data_points = self.branch_data_points[branch_perm]", rule="R-C16-2", what="branch shuffle not applied to outputs"),
    dict(id="C16-M6", file=_DD, old="            self.out_data_points = self.out_data_points[:, trunk_perm]", new="            self.out_data_points = self.out_data_points[trunk_perm]", rule="R-C16-2", what="trunk permutation on the wrong output axis"),
    dict(id="C16-M7", file=_DD, old="            out_points = self.out_data_points[a:b]\n            trunk_points = self.trunk_data_points[a:b]", new="            out_points = self.out_data_points[a:b]\n            trunk_points = self.trunk_data_points[:b - a]", rule="R-C16-2b", what="trunk not windowed with the branch"),
    dict(id="C16-M8", file=_C, old="                    loss = loss + torch.mean(a**self.norm) / len(self.dataloader)\n        else:\n            try:\n                batch = next(self.iterator)\n            except (StopIteration, AttributeError):\n                self.iterator = iter(self.dataloader)\n                batch = next(self.iterator)\n            a = self._compute_dist(batch, device)\n            if self.norm == \"inf\":\n                loss = torch.max(a)\n            else:\n                loss = torch.mean(a**self.norm)\n        if self.root != 1.0:\n            loss = loss ** (1 / self.root)\n        return loss\n\n\nclass ParameterCondition",
         new="                    loss = loss + torch.mean(a**self.norm)\n        else:\n            try:\n                batch = next(self.iterator)\n            except (StopIteration, AttributeError):\n                self.iterator = iter(self.dataloader)\n                batch = next(self.iterator)\n            a = self._compute_dist(batch, device)\n            if self.norm == \"inf\":\n                loss = torch.max(a)\n            else:\n                loss = torch.mean(a**self.norm)\n        if self.root != 1.0:\n            loss = loss ** (1 / self.root)\n        return loss\n\n\nclass ParameterCondition", rule="R-C16-4", what="sum instead of mean of batch means"),
    dict(id="C16-M9", file=_DD, old="                out_points = torch.cat([out_points[a:, :], out_points[:b, :]], dim=0)", new="                out_points = torch.cat([out_points[:b, :], out_points[a:, :]], dim=0)", rule="R-C16-2b", what="wrap-around order swapped on outputs"),
]
TWINS = [
    dict(id="C16-T1", file=_D, old="        l = len(self.data_points[0].as_tensor)\n        out = []\n        for points in self.data_points:\n            out.append(\n                points[idx * self.batch_size : min((idx + 1) * self.batch_size, l), :]\n            )\n        return tuple(out)",
         new="        n_data = len(self.data_points[0].as_tensor)\n        start = self.batch_size * idx\n        stop = min(start + self.batch_size, n_data)\n        batch = []\n        for pts in self.data_points:\n            batch.append(pts[start:stop, :])\n        return tuple(batch)", what="temporaries, commuted product"),
]

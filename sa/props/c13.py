"""C13 — user functions receive their arguments by name."""
from __future__ import annotations

import ast
from typing import List, Optional, Tuple

from ..flow import RAISE, attr_chain, dump, paths
from ..repo import AnalysisError, Repo
from ..util import ends

EXPLANATION = (
    "Static decision of the calling convention of UserFunction/DomainUserFunction: every invocation of the wrapped callable "
    "is keyword-only through one **mapping; the mapping expands (def-use, dict.update folded) to the union of two "
    "comprehensions over self.args with complementary filters (given / default); the required-name check precedes the "
    "invocation on every path; defaults are aligned to the tail of the argument list; partial evaluation mutates only a deep "
    "copy; no constructor path aliases the mutable defaults of another wrapper."
)
ASSUMPTIONS = [
    "signatures consist of positional-or-keyword parameters (the property's quantifier); keyword-only parameters are out of scope",
    "what the user's function does with its arguments is not analysed",
]
MOD = "utils.user_fun"


def _cls(repo, name):
    return repo.cls(f"{MOD}.{name}")


def _fun_calls(fn_node) -> List[ast.Call]:
    return [c for c in ast.walk(fn_node) if isinstance(c, ast.Call) and dump(c.func) == "self.fun"]


def r1_keyword_only(repo: Repo, rep):
    R = rep.rule("R-C13-1", "every invocation of the wrapped callable is `self.fun(**mapping)`: no positional argument, only ** mappings",
                 floor=4, why="a positional call binds values by position, i.e. by the (arbitrary) order of the mapping")
    n = 0
    for cname in ("UserFunction", "DomainUserFunction"):
        ci = _cls(repo, cname)
        for fi in ci.methods.values():
            for c in _fun_calls(fi.node):
                rep.saw(fi)
                n += 1
                stars = [k for k in c.keywords if k.arg is None]
                named = [k.arg for k in c.keywords if k.arg is not None]
                good = not c.args and len(stars) >= 1 and not named
                rep.check(R, good, fi.site(c), fi.fq, "self.fun(**mapping[, **mapping]) only", dump(c), dump(c))
    return n


def _in_test(t: ast.AST, k: str):
    """`k in G` / `k not in G` / not-wrapped -> (G text, polarity)"""
    pol = True
    while isinstance(t, ast.UnaryOp) and isinstance(t.op, ast.Not):
        t, pol = t.operand, not pol
    if not (isinstance(t, ast.Compare) and len(t.ops) == 1 and isinstance(t.left, ast.Name) and t.left.id == k):
        return None
    if isinstance(t.ops[0], ast.NotIn):
        pol = not pol
    elif not isinstance(t.ops[0], ast.In):
        return None
    G = dump(t.comparators[0])
    if G.endswith(".keys()"):
        G = G[:-7]
    return G, pol


def _entries(m: ast.AST, p) -> Optional[list]:
    """The mapping as a list of entry families (iterable text, key variable, [(G, pol)] conditions, value) — None when a part is not recognised.
    Recognised: {**a, **b}, a | b, {k: V for k in I if C}, the one-iteration literal {k: V} of a comprehension / insertion loop over I
    (conditions = the path's guards on k), conditional values `A if C else B`."""
    if isinstance(m, ast.Dict) and m.keys and all(k is None for k in m.keys):
        out = []
        for v in m.values:
            e = _entries(v, p)
            if e is None:
                return None
            out += e
        return out
    if isinstance(m, ast.Dict) and not m.keys:
        return []
    if isinstance(m, ast.BinOp) and isinstance(m.op, ast.BitOr):
        a, b = _entries(m.left, p), _entries(m.right, p)
        return None if a is None or b is None else a + b
    fams = []
    if dump(m) == "self.defaults":
        # the whole default mapping (its keys are declared arguments by construction)
        return [("self.defaults", "*", [], m)]
    if isinstance(m, ast.DictComp) and len(m.generators) == 1 and isinstance(m.generators[0].target, ast.Name):
        g = m.generators[0]
        k = g.target.id
        if not (isinstance(m.key, ast.Name) and m.key.id == k):
            return None
        conds = []
        for t in g.ifs:
            c = _in_test(t, k)
            if c is None:
                return None
            conds.append(c)
        fams.append((dump(g.iter), k, conds, m.value))
    elif isinstance(m, ast.Dict):
        for key, val in zip(m.keys, m.values):
            if key is None:
                sub = _entries(val, p)
                if sub is None:
                    return None
                fams_sub = sub
                fams += [("__done__",) + tuple(x) for x in fams_sub]
                continue
            src = getattr(val, "_iter_src", None)
            if not isinstance(key, ast.Name) or src is None or key.id not in getattr(val, "_iter_of", ()):
                return None
            k = key.id
            conds = []
            when = getattr(val, "_iter_epoch", None)
            for g, pol, kind in p.guards:
                if kind == "if":
                    c = _in_test(g, k)
                    if c is not None:
                        if when is not None and k in when and p.gepoch.get(id(g), {}).get(k, when[k]) != when[k]:
                            continue  # a test of another binding of the same loop name (an earlier loop re-using it)
                        conds.append((c[0], c[1] == pol))
            fams.append((dump(src), k, conds, val))
    else:
        return None
    out = []
    for f in fams:
        if f[0] == "__done__":
            out.append(tuple(f[1:]))
            continue
        it, k, conds, val = f
        if isinstance(val, ast.IfExp):
            c = _in_test(val.test, k)
            if c is None:
                return None
            out.append((it, k, conds + [c], val.body))
            out.append((it, k, conds + [(c[0], not c[1])], val.orelse))
        else:
            out.append((it, k, conds, val))
    return out


def _classify(entry) -> Tuple[Optional[str], str]:
    """('given', G) for k -> G[k] under `k in G`; ('default', G) for k -> self.defaults[k] under `k not in G`; (None, reason) otherwise"""
    it, k, conds, val = entry
    if it == "self.defaults" and k == "*":
        return "all-defaults", "*"
    if it not in ("self.args", "self.args.keys()"):
        return None, f"entries range over `{it}`, not over self.args"
    if not (isinstance(val, ast.Subscript) and isinstance(val.slice, ast.Name) and val.slice.id == k):
        return None, f"value `{dump(val)[:60]}` is not <mapping>[{k}]"
    src = dump(val.value)
    if len(conds) != 1:
        return None, f"entry {k} -> {src}[{k}] selected under {conds} (need exactly one membership test)"
    G, pol = conds[0]
    if pol and src == G:
        return "given", G
    if not pol and src == "self.defaults":
        return "default", G
    return None, f"{k} -> {src}[{k}] selected when `{k} {'in' if pol else 'not in'} {G}`"


def _required_check(p, G: str, before_line: int) -> bool:
    """an `assert key in G` for key in self.necessary_args, or guard all(a in G for a in self.necessary_args)"""
    for e in p.events:
        if e.kind == "assert" and e.node.lineno < before_line:
            t = e.value
            if isinstance(t, ast.Compare) and len(t.ops) == 1 and isinstance(t.ops[0], ast.In) and isinstance(t.left, ast.Name):
                fors = [g for g, pol, k in e.guards if k == "for"]  # the loops enclosing the assertion when it was evaluated
                it = fors[-1] if fors else None
                if it is not None and dump(it) == "self.necessary_args" and dump(t.comparators[0]) in (G, f"{G}.keys()") and e.loop >= 1:
                    return True
    def missing_list(e):
        # [k for k in self.necessary_args if k not in G]
        if isinstance(e, (ast.ListComp, ast.GeneratorExp, ast.SetComp)) and len(e.generators) == 1 and isinstance(e.generators[0].target, ast.Name):
            gen = e.generators[0]
            if dump(gen.iter) == "self.necessary_args" and len(gen.ifs) == 1 and dump(e.elt) == gen.target.id:
                c = _in_test(gen.ifs[0], gen.target.id)
                return c is not None and c == (G, False)
        if isinstance(e, ast.BinOp) and isinstance(e.op, ast.Sub):
            return dump(e.left).replace(" ", "") == "set(self.necessary_args)" and dump(e.right).replace(" ", "") in (f"set({G})", f"set({G}.keys())", f"{G}.keys()")
        return False
    for g, pol, kind in p.guards:
        if kind not in ("if", "assert"):
            continue
        # emptiness of the list of missing required names
        if missing_list(g) and not pol:
            return True
        if isinstance(g, ast.Compare) and len(g.ops) == 1 and isinstance(g.left, ast.Call) and attr_chain(g.left.func) == "len" and g.left.args and missing_list(g.left.args[0]):
            c = g.comparators[0]
            if isinstance(c, ast.Constant) and ((isinstance(g.ops[0], ast.Eq) and c.value == 0 and pol) or (isinstance(g.ops[0], ast.Gt) and c.value == 0 and not pol)
                                                or (isinstance(g.ops[0], ast.GtE) and c.value == 1 and not pol) or (isinstance(g.ops[0], ast.Lt) and c.value == 1 and pol)):
                return True
        if isinstance(g, ast.Call) and attr_chain(g.func) == "len" and g.args and missing_list(g.args[0]) and not pol:
            return True
        if isinstance(g, ast.Call) and attr_chain(g.func) == "any" and len(g.args) == 1 and not pol:
            ge = g.args[0]
            if isinstance(ge, (ast.GeneratorExp, ast.ListComp)) and len(ge.generators) == 1 and dump(ge.generators[0].iter) == "self.necessary_args" and not ge.generators[0].ifs:
                c = _in_test(ge.elt, dump(ge.generators[0].target))
                if c == (G, False):
                    return True
    for g, pol, kind in p.guards:
        if kind in ("if", "assert") and pol and isinstance(g, ast.Call) and attr_chain(g.func) == "all" and len(g.args) == 1:
            ge = g.args[0]
            if isinstance(ge, (ast.GeneratorExp, ast.ListComp)) and len(ge.generators) == 1:
                gen = ge.generators[0]
                t = ge.elt
                if (dump(gen.iter) == "self.necessary_args" and not gen.ifs and isinstance(t, ast.Compare) and len(t.ops) == 1
                        and isinstance(t.ops[0], ast.In) and dump(t.left) == dump(gen.target) and dump(t.comparators[0]) == G):
                    return True
    return False


def r2_r3_mapping(repo: Repo, rep):
    R2 = rep.rule("R-C13-2", "the ** mapping is {k: given[k] for k in self.args if k in given} ∪ {k: defaults[k] for k in self.args if k not in given}",
                  floor=3, why="any other selection passes undeclared names, drops given values or prefers a default over a given value")
    R3 = rep.rule("R-C13-3", "the required-name check dominates the invocation", floor=3,
                  why="without it a missing required name surfaces as an arbitrary KeyError/TypeError or not at all")
    uf, duf = _cls(repo, "UserFunction"), _cls(repo, "DomainUserFunction")
    sites = [(uf, "__call__"), (duf, "__call__"), (uf, "partially_evaluate")]
    for ci, mname in sites:
        fi = ci.methods.get(mname)
        if fi is None:
            raise AnalysisError(f"{ci.name}.{mname} vanished")
        rep.saw(fi)
        found = 0
        seen_kinds = {}
        for p in paths(fi.node):
            if p.ret is RAISE or p.ret is None:
                continue
            # invocations on this path: self.fun(**m) or self.evaluate_function(..., **m) / self.apply_to_batch(m)
            calls = [c for c in ast.walk(p.ret) if isinstance(c, ast.Call) and dump(c.func) in ("self.fun", "self.evaluate_function", "self.apply_to_batch")]
            for c in calls:
                fname = dump(c.func)
                if fname == "self.apply_to_batch":
                    m = c.args[0] if c.args else None
                    pos_ok = len(c.args) == 1
                else:
                    stars = [k.value for k in c.keywords if k.arg is None]
                    m = stars[0] if len(stars) == 1 else (ast.Dict(keys=[None] * len(stars), values=stars) if stars else None)
                    pos_ok = not c.args
                    if fname == "self.evaluate_function":
                        tgt = repo.resolve_method(ci, "evaluate_function")
                        named = [k.arg for k in c.keywords if k.arg is not None]
                        extra = [a for a in named if tgt is None or a not in tgt.params]
                        if extra:
                            pos_ok = False
                if m is None or not pos_ok:
                    rep.violation(R2, fi.site(p.ret_node), fi.fq, "arguments reach the callable through one name-keyed mapping", dump(c)[:160], dump(c)[:160])
                    continue
                found += 1
                ents = _entries(m, p)
                if ents is None:
                    rep.undecided(R2, fi.site(p.ret_node), fi.fq, "the ** mapping is a recognised selection (comprehension / insertion loop / merge)", dump(m)[:200])
                    continue
                if not ents:
                    # a pass through the insertion loops on which no guard held: nothing inserted on this path; the paths together must pass both kinds
                    seen_kinds.setdefault(id(p.ret_node), [p.ret_node, set()])
                    continue
                kinds = [_classify(e) for e in ents]
                bad = [d for k, d in kinds if k is None]
                gs = {d for k, d in kinds if k not in (None, "all-defaults")}
                order = [k for k, d in kinds]
                if "all-defaults" in order and "given" in order and max(i for i, k in enumerate(order) if k == "all-defaults") > min(i for i, k in enumerate(order) if k == "given"):
                    bad.append("the whole default mapping is merged after the given values (later entries win): defaults override given values")
                ok = not bad and len(gs) <= 1 and bool(ents)
                detail = "; ".join(bad)[:240] if bad else (f"selections test different mappings {sorted(gs)}" if len(gs) > 1 else f"{sorted({k for k, d in kinds})} over {sorted(gs)}")
                rep.check(R2, ok, fi.site(p.ret_node), fi.fq, "mapping = given-selection ∪ default-selection over self.args", detail, dump(m)[:300])
                if ok:
                    G = list(gs)[0]
                    seen_kinds.setdefault(id(p.ret_node), [p.ret_node, set()])[1].update("default" if k == "all-defaults" else k for k, d in kinds)
                    # G must be the method's own argument mapping (after the Points -> coordinates conversion)
                    dom = _required_check(p, G, p.ret_node.lineno)
                    rep.check(R3, dom, fi.site(p.ret_node), fi.fq, f"`key in {G}` for every key in self.necessary_args is checked before the call",
                              "no dominating required-name check on this path", "no required check")
        for rn, ks in seen_kinds.values():
            miss = {"given", "default"} - ks
            rep.check(R2, not miss, fi.site(rn), fi.fq, "over the paths to this call both the given values and the defaults of absent names are passed",
                      f"never passed: {sorted(miss)}", f"never passed: {sorted(miss)}")
        if found == 0:
            rep.undecided(R2, fi.site(), fi.fq, "an invocation path", "no path invoking the wrapped function found")
    # necessary_args = args without defaults
    na = uf.methods.get("necessary_args")
    if na is None:
        raise AnalysisError("UserFunction.necessary_args vanished")
    rep.saw(na)
    from collections import OrderedDict
    from ..absdom.listeval import Evaluator, Opaque
    for args, defaults in ((["x", "y", "k", "j"], OrderedDict((("k", 1), ("j", None)))), (["x", "t"], OrderedDict()), (["a", "b"], OrderedDict((("a", 0), ("b", 0)))), ([], OrderedDict()),
                           (["u", "x", "t"], OrderedDict((("x", 3),)))):
        fr = Evaluator().run(na.node.body, {"self": Opaque("self")}, attrs={"self.defaults": OrderedDict(defaults), "self.args": list(args)})
        want = [a for a in args if a not in defaults]
        label = f"necessary_args of args {args} with defaults {dict(defaults)} == {want}"
        if not isinstance(fr.ret, list):
            rep.undecided(R3, na.site(), na.fq, label + " (evaluable)", repr(fr.ret)[:80])
            continue
        rep.check(R3, list(fr.ret) == want, na.site(), na.fq, label, f"{list(fr.ret)}", f"necessary_args {list(fr.ret)} for {args}/{sorted(defaults)}")
    # evaluate_function forwards its **kwargs unchanged
    for ci in (uf, duf):
        ef = ci.methods.get("evaluate_function")
        if ef is None:
            continue
        rep.saw(ef)
        kw = ef.node.args.kwarg.arg if ef.node.args.kwarg else None
        for c in _fun_calls(ef.node):
            stars = [dump(k.value) for k in c.keywords if k.arg is None]
            rep.check(R2, kw is not None and stars == [kw], ef.site(c), ef.fq, "evaluate_function forwards exactly its **kwargs to the callable", dump(c), dump(c))
    ab = uf.methods.get("apply_to_batch")
    if ab is not None:
        rep.saw(ab)
        pname = ab.params[1]
        for p in paths(ab.node):
            for e in p.events:
                if e.kind == "store" and isinstance(e.target, ast.Subscript):
                    key = dump(e.target.slice)
                    srcs = [s for s in ast.walk(e.value) if isinstance(s, ast.Subscript) and dump(s.value) == pname]
                    good = bool(srcs) and all(dump(s.slice) == key for s in srcs)
                    rep.check(R2, good, ab.site(e.node), ab.fq, "per-row mapping keeps each value under its own key", dump(e.node), dump(e.node))
        # partial evaluation: the row-wise calls do not depend on the order of the entries (the batch size is an aggregate over ALL bound values)
        import itertools
        from collections import OrderedDict
        from ..absdom.listeval import Evaluator, Opaque, UNKNOWN
        vals = {"c": ["c0"], "x": ["x0", "x1", "x2"], "k": ["k0", "k1", "k2"]}
        want = [{"c": ["c0"], "x": f"x{i}", "k": f"k{i}"} for i in range(3)]
        for order in itertools.permutations(vals):
            calls = []

            def on_call(e, name, a, kws, ev, f, calls=calls):
                if name == "self.fun":
                    kw = dict(kws)
                    for q in e.keywords:
                        if q.arg is None:
                            m = ev.ev(q.value, f)
                            if not isinstance(m, dict):
                                return None
                            kw.update(m)
                    calls.append(dict(kw))
                    return ("out", len(calls) - 1)
                return None
            fr = Evaluator(None, on_call).run(ab.node.body, {"self": Opaque("self"), pname: OrderedDict((k, list(vals[k])) for k in order)})
            label = f"entries in the order {list(order)}: three row-wise calls, the constant passed whole"
            if fr.ret is UNKNOWN or not fr.returned:
                rep.undecided(R2, ab.site(), ab.fq, label + " (evaluable)", repr(fr.ret)[:60])
                continue
            rep.check(R2, calls == want and list(fr.ret or []) == [("out", i) for i in range(3)], ab.site(), ab.fq, label, f"{len(calls)} call(s): {calls[:2]}", f"order {order}: {len(calls)} calls")


def r4_defaults_alignment(repo: Repo, rep):
    R = rep.rule("R-C13-4", "declared defaults are aligned with the tail of the positional argument list", floor=6,
                 why="Python defaults belong to the last len(defaults) parameters; any other pairing binds defaults to wrong names")
    uf = _cls(repo, "UserFunction")
    fi = uf.methods.get("_set_input_args_for_function")
    if fi is None:
        raise AnalysisError("UserFunction._set_input_args_for_function vanished")
    rep.saw(fi)
    # partial evaluation on signatures of positional-or-keyword parameters: inspect.getfullargspec is modelled by its documented fields
    from collections import OrderedDict
    from ..absdom.listeval import Evaluator, Obj, Opaque, UNKNOWN
    cases = [(["x", "t", "k", "j"], (1, 2)), (["a"], None), (["a", "b", "c"], (5,)), (["a", "b"], (7, 8)), ([], None), (["u", "v", "w", "p", "q"], (1, 2, 3)),
             (["self", "x"], None), (["cls", "t", "k"], (3,))]  # a parameter is identified by its declared name whatever that name is (a plain function may call its first parameter `self`)
    for args, defaults in cases:
        spec = Obj("spec", {"args": list(args), "varargs": None, "varkw": None, "defaults": defaults, "kwonlyargs": [], "kwonlydefaults": None, "annotations": {}})

        foreign = []

        def on_call(e, name, a, kws, ev, f, spec=spec, foreign=foreign):
            if name in ("inspect.getfullargspec", "getfullargspec", "inspect.signature", "signature") and not (a is not None and len(a) == 1 and isinstance(a[0], Opaque) and a[0].tag == "fun"):
                foreign.append(dump(e)[:80])
                return None
            if name in ("inspect.getfullargspec", "getfullargspec") and a is not None and len(a) == 1:
                return Obj("spec", {k: (list(v) if isinstance(v, list) else v) for k, v in spec.fields.items()})
            return None
        fr = Evaluator(None, on_call).run(fi.node.body, {"self": Opaque("self")}, attrs={"self.fun": Opaque("fun"), "self.defaults": OrderedDict(), "self.args": {}})  # the only call site runs under `self.defaults == {} and self.args == {}`
        want = dict(zip(args[len(args) - len(defaults):], defaults)) if defaults else {}
        label = f"def f({', '.join(args)}) with defaults {defaults}: args {args}, defaults {want}"
        ga, gd = fr.attrs.get("self.args", UNKNOWN), fr.attrs.get("self.defaults", UNKNOWN)
        if foreign:
            rep.violation(R, fi.site(), fi.fq, "the signature is read from self.fun, the callable that is invoked with the named values", f"signature of {foreign[0]}", f"foreign signature {foreign[0]}")
            break
        if fr.returned and fr.ret is UNKNOWN or not isinstance(ga, list) or not isinstance(gd, dict):
            rep.undecided(R, fi.site(), fi.fq, label + " (evaluable)", f"args {ga!r}, defaults {gd!r}"[:120])
            continue
        rep.check(R, list(ga) == args and dict(gd) == want, fi.site(), fi.fq, label, f"args {list(ga)}, defaults {dict(gd)}", f"{args}/{defaults}: {list(ga)} {dict(gd)}")


INPLACE = ("update", "pop", "clear", "setdefault", "popitem", "__setitem__", "__delitem__")


def r5_copy_on_partial(repo: Repo, rep):
    R = rep.rule("R-C13-5", "partially_evaluate mutates only copy.deepcopy(self); __deepcopy__ deep-copies every attribute; calling writes no wrapper state",
                 floor=4, why="partial evaluation of a shared wrapper (every Domain.__call__) must not change the original")
    uf, duf = _cls(repo, "UserFunction"), _cls(repo, "DomainUserFunction")
    pe = uf.methods.get("partially_evaluate")
    rep.saw(pe)
    for p in paths(pe.node):
        if p.ret is RAISE:
            continue
        muts = []
        for e in p.events:
            if e.kind == "call" and isinstance(e.value, ast.Call) and isinstance(e.value.func, ast.Attribute):
                fresh = isinstance(e.value.func.value, (ast.Dict, ast.DictComp, ast.List, ast.ListComp))  # local literal
                if not fresh and (e.value.func.attr in ("set_default", "remove_default") or (e.value.func.attr in INPLACE)):
                    muts.append((dump(e.value.func.value), e))
            if e.kind in ("attr", "store", "aug") and e.target is not None:
                base = e.target
                while isinstance(base, ast.Subscript):
                    base = base.value
                if isinstance(base, (ast.Dict, ast.DictComp, ast.List, ast.ListComp)) or (isinstance(base, ast.Call) and attr_chain(base.func) in ("dict", "list", "OrderedDict")):
                    continue  # a store into a container created in this call
                muts.append((dump(e.target), e))
        for recv, e in muts:
            good = recv == "copy.deepcopy(self)"
            rep.check(R, good, pe.site(e.node), pe.fq, "state-changing call only on copy.deepcopy(self)", f"receiver `{recv}`", dump(e.node))
            if good:
                rep.check(R, dump(p.ret) == "copy.deepcopy(self)", pe.site(p.ret_node), pe.fq, "the mutated copy is what is returned", dump(p.ret), dump(p.ret))
    # outcome typestate of partially_evaluate for a callable: the value (all required names bound) or a fresh deep copy carrying the new defaults
    argname = pe.node.args.kwarg.arg if pe.node.args.kwarg else (pe.params[1] if len(pe.params) > 1 else "args")
    for p in paths(pe.node):
        if p.ret is RAISE or p.ret is None:
            continue
        if not any(pol and dump(g) == "callable(self.fun)" for g, pol, k in p.guards):
            continue
        r = p.ret
        invoked = any(isinstance(c, ast.Call) and dump(c.func) in ("self.fun", "self.evaluate_function") for c in ast.walk(r))
        bound = _required_check(p, argname, p.ret_node.lineno)
        if invoked:
            rep.check(R, bound, pe.site(p.ret_node), pe.fq, "the value is returned only when every required name is bound", "invocation without the required-name test", "unguarded invocation")
            continue
        is_copy = dump(r) == "copy.deepcopy(self)"
        carried = any(e.kind == "call" and isinstance(e.value, ast.Call) and dump(e.value.func) == "copy.deepcopy(self).set_default" for e in p.events)
        rep.check(R, is_copy and carried and not bound, pe.site(p.ret_node), pe.fq,
                  "a callable that is not fully bound yields a fresh deep copy carrying the given values as defaults (never the original wrapper, never before the required-name test)",
                  f"returns `{dump(r)[:60]}`" + ("" if not bound else " although every required name is bound") + ("" if carried or not is_copy else " without set_default"), f"returns {dump(r)[:60]}")
    dc = uf.methods.get("__deepcopy__")
    if dc is None:
        rep.ok(R, uf.module.relpath, uf.fq, "default deepcopy (copies every attribute)", "no custom __deepcopy__")
    else:
        rep.saw(dc)
        good = False
        detail = "no loop over self.__dict__"
        from ..util import deref, single_defs
        tmp = single_defs(dc.node)
        DICTS = ("self.__dict__", "vars(self)")
        for l in ast.walk(dc.node):
            if not isinstance(l, ast.For):
                continue
            it = deref(l.iter, tmp)
            k = v_forms = None
            txt = dump(it)
            if txt in tuple(f"{d}.items()" for d in DICTS) and isinstance(l.target, ast.Tuple) and len(l.target.elts) == 2:
                k = dump(l.target.elts[0])
                v_forms = (dump(l.target.elts[1]),) + tuple(f"{d}[{k}]" for d in DICTS) + (f"getattr(self, {k})",)
            elif txt in DICTS + tuple(f"{d}.keys()" for d in DICTS) + tuple(f"list({d})" for d in DICTS) + tuple(f"list({d}.keys())" for d in DICTS) and isinstance(l.target, ast.Name):
                k = l.target.id
                v_forms = tuple(f"{d}[{k}]" for d in DICTS) + (f"getattr(self, {k})",)
            if k is None:
                continue
            sets = [c for s in l.body for c in ast.walk(s) if isinstance(c, ast.Call) and attr_chain(c.func) == "setattr"]
            cond = [s for s in l.body if isinstance(s, (ast.If, ast.Continue, ast.Break))]
            if len(sets) == 1 and not cond and len(sets[0].args) == 3:
                a = sets[0].args
                val = deref(a[2], tmp)
                deep = isinstance(val, ast.Call) and ends(attr_chain(val.func), "deepcopy") and val.args and dump(val.args[0]) in v_forms
                good = dump(a[1]) == k and deep
                detail = dump(sets[0])
        rep.check(R, good, dc.site(), dc.fq, "setattr(copy, k, copy.deepcopy(v, memo)) for every (k, v) in self.__dict__", detail, detail)
    # __call__ / evaluate_function write nothing on self (allow-list: device move of a constant tensor)
    allow = {("DomainUserFunction", "evaluate_function", "self.fun"): "device move of a constant tensor: same values"}
    wrappers = [uf] + [c for c in repo.subclasses(uf, strict=True)]
    for ci in wrappers:
        # every override of partially_evaluate hands the given values on unfiltered: a value given for an optional name must win over its default
        pe2 = ci.methods.get("partially_evaluate")
        if pe2 is not None and ci is not uf:
            rep.saw(pe2)
            kw2 = pe2.node.args.kwarg.arg if pe2.node.args.kwarg else None
            sup = [c for c in ast.walk(pe2.node) if isinstance(c, ast.Call) and isinstance(c.func, ast.Attribute) and c.func.attr == "partially_evaluate" and dump(c.func.value).startswith("super(")]
            for c in sup:
                stars = [dump(k.value) for k in c.keywords if k.arg is None]
                rebound = any(isinstance(a, ast.Assign) and any(isinstance(t, ast.Name) and t.id == kw2 for t in a.targets) for a in ast.walk(pe2.node))
                rep.check(R, kw2 is not None and stars == [kw2] and not rebound and not c.args and not [k for k in c.keywords if k.arg is not None], pe2.site(c), pe2.fq,
                          f"super().partially_evaluate(**{kw2}) receives every given value", dump(c)[:80], f"{ci.name}.partially_evaluate forwards {stars}")
    for ci in wrappers:
        for mname in ("__call__", "evaluate_function", "apply_to_batch"):
            fi = ci.methods.get(mname)
            if fi is None:
                continue
            rep.saw(fi)
            writes = []
            # the assembled keyword mapping reaches the user's function as it is: no re-binding / rewriting of the ** parameter
            kw3 = fi.node.args.kwarg.arg if fi.node.args.kwarg else None
            if kw3 is not None:
                for a in ast.walk(fi.node):
                    if isinstance(a, (ast.Assign, ast.AugAssign)):
                        for t in (a.targets if isinstance(a, ast.Assign) else [a.target]):
                            base = t
                            while isinstance(base, ast.Subscript):
                                base = base.value
                            if isinstance(base, ast.Name) and base.id == kw3:
                                writes.append((f"**{kw3}", dump(a.value)[:60]))
            for p in paths(fi.node):
                for e in p.events:
                    if e.kind in ("attr", "aug") and e.target is not None and dump(e.target).startswith("self."):
                        writes.append((dump(e.target), dump(e.value)))
                    if e.kind == "store" and dump(e.target).startswith(("self.", "args")):
                        writes.append((dump(e.target), dump(e.value)))
                    if e.kind == "call" and isinstance(e.value, ast.Call) and isinstance(e.value.func, ast.Attribute) and e.value.func.attr in INPLACE + ("set_default",) and dump(e.value.func.value).startswith(("self.", "args")):
                        writes.append((dump(e.value.func.value), dump(e.value)))
            bad = []
            for tgt, val in set(writes):
                if (ci.name, mname, tgt) in allow and val.replace(" ", "") == f"{tgt}.to(device)":
                    continue
                bad.append(f"{tgt} = {val}")
            rep.check(R, not bad, fi.site(), fi.fq, "no write to wrapper state or to the caller's mapping", f"writes {bad}", str(sorted(bad)))


def r10_user_names_own_the_keywords(repo: Repo, rep):
    R = rep.rule("R-C13-10", "a wrapper method that receives the user's named values as `**mapping` declares no keyword-addressable parameter of its own next to it: every name is free for the user's function", floor=4,
                 why="evaluate_function(self, vectorize=False, **inp) makes `vectorize` unusable as a parameter name of a user function: calling raises `got multiple values for keyword argument`")
    uf = _cls(repo, "UserFunction")
    for ci in [uf] + repo.subclasses(uf, strict=True):
        for fi in ci.methods.values():
            a = fi.node.args
            if a.kwarg is None:
                continue
            rep.saw(fi)
            own = [x.arg for x in a.args[1:] + a.kwonlyargs]
            rep.check(R, not own, fi.site(), fi.fq, f"`**{a.kwarg.arg}` is the only keyword-addressable parameter", f"also {own}", f"{fi.name}: own keyword parameters {own}")


def r7_set_default(repo: Repo, rep):
    R = rep.rule("R-C13-7", "set_default(**values) binds EVERY given name that is an argument of the function to the given value — also names that already have a default; "
                 "necessary / optional arguments are told apart by presence in the defaults, not by the default's value", floor=3,
                 why="partial evaluation re-binds through set_default: a kept old default (or a dropped name) makes the later value differ from one full evaluation")
    from collections import OrderedDict
    from ..absdom.listeval import Evaluator, Opaque, UNKNOWN
    uf = _cls(repo, "UserFunction")
    fi = uf.methods.get("set_default")
    if fi is None:
        raise AnalysisError("UserFunction.set_default vanished")
    rep.saw(fi)
    kw = fi.node.args.kwarg.arg if fi.node.args.kwarg else None
    if kw is None:
        rep.undecided(R, fi.site(), fi.fq, "set_default(**values)", "no ** parameter")
        return
    args = ["x", "y", "k", "j"]
    defaults = OrderedDict((("k", 1), ("j", None)))
    given = OrderedDict((("k", 2), ("x", 7), ("z", 9), ("j", 4)))
    want = {"k": 2, "j": 4, "x": 7}

    def resolve(e, ev, f):
        t = dump(e)
        if t == "self.necessary_args":
            return [a for a in args if a not in f.attrs["self.defaults"]]
        if t == "self.optional_args":
            return [a for a in args if a in f.attrs["self.defaults"]]
        return None
    fr = Evaluator(resolve).run(fi.node.body, {kw: OrderedDict(given), "self": Opaque("self")}, attrs={"self.defaults": OrderedDict(defaults), "self.args": list(args)})
    got = fr.attrs.get("self.defaults", UNKNOWN)
    if not isinstance(got, dict):
        rep.undecided(R, fi.site(), fi.fq, "defaults after set_default evaluable", repr(got)[:80])
    else:
        # names the function does not declare are never read back (every consumer iterates self.args): only the declared names are compared
        declared = {k: v for k, v in dict(got).items() if k in args}
        rep.check(R, declared == want, fi.site(), fi.fq, f"args {args}, defaults {dict(defaults)}, set_default({dict(given)}) -> {want} on the declared names", f"defaults become {dict(got)}", f"{declared}")
    for pname, present in (("necessary_args", False), ("optional_args", True)):
        pf = uf.methods.get(pname)
        if pf is None:
            continue
        rep.saw(pf)
        fr = Evaluator().run(pf.node.body, {"self": Opaque("self")}, attrs={"self.defaults": OrderedDict(defaults), "self.args": list(args)})
        exp = [a for a in args if (a in defaults) == present]
        if not isinstance(fr.ret, list):
            rep.undecided(R, pf.site(), pf.fq, f"{pname} evaluable", repr(fr.ret)[:60])
        else:
            rep.check(R, list(fr.ret) == exp, pf.site(), pf.fq, f"{pname} of args {args} with defaults {dict(defaults)} == {exp} (a default of None is a default)", str(fr.ret), f"{pname}: {fr.ret}")


def r6_no_alias(repo: Repo, rep):
    R = rep.rule("R-C13-6", "a new wrapper never shares the mutable `defaults` of another wrapper while set_default mutates in place", floor=1,
                 why="UserFunction(w) followed by set_default on either wrapper silently changes the other")
    uf = _cls(repo, "UserFunction")
    inplace = []
    for fi in uf.methods.values():
        for c in ast.walk(fi.node):
            if isinstance(c, ast.Call) and isinstance(c.func, ast.Attribute) and c.func.attr in INPLACE and dump(c.func.value) == "self.defaults":
                inplace.append(fi.name)
            if isinstance(c, (ast.Assign, ast.AugAssign)):
                for t in (c.targets if isinstance(c, ast.Assign) else [c.target]):
                    if isinstance(t, ast.Subscript) and dump(t.value) == "self.defaults":
                        inplace.append(fi.name)
    # the wrapper's own mapping is never one it was handed (the constructor's shared default `{}` or the user's dict): set_default / remove_default write in place
    for fi in uf.methods.values():
        for n in ast.walk(fi.node):
            if isinstance(n, ast.Assign) and any(dump(t) == "self.defaults" for t in n.targets) and isinstance(n.value, ast.Name) and n.value.id in fi.params:
                rep.saw(fi)
                rep.check(R, not inplace, fi.site(n), fi.fq, "self.defaults is a mapping of its own (a copy of what was handed in)",
                          f"self.defaults = {n.value.id} (the caller's object; for the default argument the one dict shared by every wrapper); written in place by {sorted(set(inplace))}",
                          f"self.defaults aliases the parameter {n.value.id}")
    init = uf.methods.get("__init__")
    if init is None:
        raise AnalysisError("UserFunction.__init__ vanished")
    rep.saw(init)
    for p in paths(init.node):
        if p.ret is RAISE:
            continue
        v = p.env.get("self.defaults")
        fn = init.params[1]
        rewrap = any(pol and isinstance(g, ast.Call) and attr_chain(g.func) == "isinstance" and len(g.args) == 2 and dump(g.args[0]) == fn and "UserFunction" in dump(g.args[1])
                     for g, pol, k in p.guards)
        if rewrap:
            # wrapping a wrapper: the stored defaults (values fixed by partial evaluation included) and the argument list are taken over
            src_ok = v is not None and any(isinstance(x, ast.Attribute) and x.attr == "defaults" and dump(x.value) == fn for x in ast.walk(v))
            a = p.env.get("self.args")
            args_ok = a is not None and any(isinstance(x, ast.Attribute) and x.attr == "args" and dump(x.value) == fn for x in ast.walk(a))
            rep.check(R, src_ok and args_ok, init.site(), init.fq, f"UserFunction({fn}) of a wrapper takes over {fn}.defaults (copied) and {fn}.args",
                      f"self.defaults = {dump(v) if v is not None else 'not taken from the wrapper'}; self.args = {dump(a) if a is not None else 'not taken from the wrapper'}",
                      "stored defaults of the wrapped wrapper dropped")
        if v is None:
            rep.ok(R, init.site(), init.fq, "defaults not bound on this path (delegated)", "delegated to _transform_to_user_function")
            continue
        aliased = isinstance(v, ast.Attribute) and v.attr == "defaults" and isinstance(v.value, ast.Name) and v.value.id in init.params
        if aliased and inplace:
            rep.violation(R, init.site(), init.fq, "self.defaults is a copy when taken from another wrapper",
                          f"self.defaults = {dump(v)} (shared object); mutated in place by {sorted(set(inplace))}", f"self.defaults = {dump(v)}")
        else:
            rep.ok(R, init.site(), init.fq, "self.defaults is a copy when taken from another wrapper", f"self.defaults = {dump(v)}")


def r8_points_dispatch(repo: Repo, rep):
    R = rep.rule("R-C13-8", "the argument of a call is converted with `.coordinates` only when it is recognised as Points; every other mapping is used as it is", floor=2,
                 why="a negative test (`not isinstance(args, dict)`) sends ChainMap / MappingProxyType / custom mappings down the Points branch")
    for cname in ("UserFunction", "DomainUserFunction"):
        ci = _cls(repo, cname)
        fi = ci.methods.get("__call__")
        if fi is None:
            continue
        rep.saw(fi)
        an = fi.params[1]
        conv = 0
        for n in ast.walk(fi.node):
            pass
        for p in paths(fi.node):
            if p.ret is RAISE:
                continue
            uses = []
            for e in p.events:
                if e.value is None:
                    continue
                for x in ast.walk(e.value):
                    if isinstance(x, ast.Attribute) and x.attr == "coordinates" and dump(x.value) == an:
                        uses.append((e, x))
            if p.ret is not None:
                for x in ast.walk(p.ret):
                    if isinstance(x, ast.Attribute) and x.attr == "coordinates" and dump(x.value) == an:
                        uses.append((None, x))
            if not uses:
                continue
            conv += 1
            positive = any(pol and isinstance(g, ast.Call) and attr_chain(g.func) == "isinstance" and len(g.args) == 2 and dump(g.args[0]) == an
                           and "Points" in dump(g.args[1]) for g, pol, k in p.guards) or any(
                pol and isinstance(g, ast.Call) and attr_chain(g.func) == "hasattr" and len(g.args) == 2 and dump(g.args[0]) == an and dump(g.args[1]) == "'coordinates'"
                for g, pol, k in p.guards)
            inline = any(isinstance(x, ast.IfExp) and isinstance(x.test, ast.Call) and attr_chain(x.test.func) == "isinstance" and dump(x.test.args[0]) == an and "Points" in dump(x.test.args[1])
                         and any(y is u for y in ast.walk(x.body)) for e, u in uses for x in (ast.walk(e.value) if e is not None else ast.walk(p.ret)))
            rep.check(R, positive or inline, fi.site(), fi.fq, f"`{an}.coordinates` only under isinstance({an}, Points)",
                      f"guards {[(dump(g)[:40], pol) for g, pol, k in p.guards if an in dump(g)][:3]}", "conversion without a positive Points test")
        if conv == 0:
            rep.ok(R, fi.site(), fi.fq, "no Points conversion in this call method", "-")


def r9_batch_split(repo: Repo, rep):
    R = rep.rule("R-C13-9", "apply_to_batch hands element i of a value to call i exactly when the value's length is the batch size - whatever the argument is called and "
                 "whether it has a stored default", floor=1,
                 why="a batched value supplied for an optional argument would be passed whole to every call")
    uf = _cls(repo, "UserFunction")
    fi = uf.methods.get("apply_to_batch")
    if fi is None:
        rep.ok(R, uf.module.relpath, uf.fq, "no vectorised path", "-")
        return
    rep.saw(fi)
    n = 0
    loop_vars = {l.target.id for l in ast.walk(fi.node) if isinstance(l, ast.For) and isinstance(l.target, ast.Name)}
    tests = []
    for node in ast.walk(fi.node):
        if isinstance(node, ast.If):
            if any(isinstance(a, ast.Assign) and isinstance(a.value, ast.Subscript) and dump(a.value.slice) in loop_vars for a in ast.walk(node)):
                tests.append(node)
        elif isinstance(node, ast.IfExp):
            if isinstance(node.body, ast.Subscript) and dump(node.body.slice) in loop_vars:
                tests.append(node)
    for node in tests:
        n += 1
        names = {x.attr for x in ast.walk(node.test) if isinstance(x, ast.Attribute) and isinstance(x.value, ast.Name) and x.value.id == "self"}
        rep.check(R, not names, fi.site(node), fi.fq, "the split test compares lengths only", f"also consults self.{sorted(names)}: {dump(node.test)[:80]}", f"split depends on {sorted(names)}")
    if n == 0:
        rep.undecided(R, fi.site(), fi.fq, "the per-element split `inp_i[key] = inp[key][i]` under a test", "not found")


def run(repo: Repo, rep):
    from .c12 import r8_no_derived_state  # a wrapped function receives the coordinates of the points it is called on: Points must rebuild the name -> column views from its current tensor
    r8_no_derived_state(repo, rep)
    r9_batch_split(repo, rep)
    r8_points_dispatch(repo, rep)
    r1_keyword_only(repo, rep)
    r2_r3_mapping(repo, rep)
    r4_defaults_alignment(repo, rep)
    r5_copy_on_partial(repo, rep)
    r6_no_alias(repo, rep)
    r7_set_default(repo, rep)
    r10_user_names_own_the_keywords(repo, rep)
    from .c14 import r5_module_state  # the declared arguments and defaults of a wrapper come from its own function object, not from a module-level table
    r5_module_state(repo, rep)
    from .c14 import r1_r2_effects, r1b_setup  # "wrapping changes neither ... nor user-supplied containers": conditions wrap every entry of the user's data-function dict
    r1_r2_effects(repo, rep)
    r1b_setup(repo, rep)


_U = "src/torchphysics/utils/user_fun.py"
MUTANTS = [
    dict(id="C13-M1", file=_U, old="        if callable(self.fun):\n            return self.fun(**inp)\n        return self.fun\n\n    def apply_to_batch",
         new="        if callable(self.fun):\n            return self.fun(*inp.values())\n        return self.fun\n\n    def apply_to_batch", rule="R-C13-1", what="positional call"),
    dict(id="C13-M2", file=_U, old="            fun_eval = self.fun(**inp)", new="            fun_eval = self.fun(*inp.values())", rule="R-C13-1", what="positional call (domain)"),
    dict(id="C13-M3", file=_U, old="        inp = {key: args[key] for key in self.args if key in args}\n        inp.update({key: self.defaults[key] for key in self.args if key not in args})\n        if not vectorize:",
         new="        inp = {key: args[key] for key in self.args if key in args}\n        inp.update({key: self.defaults[key] for key in self.args if key in self.defaults})\n        if not vectorize:", rule="R-C13-2", what="defaults override given values"),
    dict(id="C13-M4", file=_U, old="        inp = {key: args[key] for key in self.args if key in args}\n        inp.update({key: self.defaults[key] for key in self.args if key not in args})\n        return self.evaluate_function(device=device, **inp)",
         new="        inp = {key: args[key] for key in args}\n        inp.update({key: self.defaults[key] for key in self.args if key not in args})\n        return self.evaluate_function(device=device, **inp)", rule="R-C13-2", what="undeclared names passed"),
    dict(id="C13-M5", file=_U, old="self.args[-i]: f_defaults[-i]", new="self.args[i - 1]: f_defaults[-i]", rule="R-C13-4", what="defaults aligned to the head"),
    dict(id="C13-M6", file=_U, old="                copy_self = copy.deepcopy(self)\n                copy_self.set_default(**args)\n                return copy_self",
         new="                self.set_default(**args)\n                return self", rule="R-C13-5", what="set_default on self"),
    dict(id="C13-M7", file=_U, old="setattr(copy_object, k, copy.deepcopy(v, memo))", new="setattr(copy_object, k, v)", rule="R-C13-5", what="shallow copy"),
    dict(id="C13-M8", file=_U, old="        for key in self.necessary_args:\n            assert (\n                key in args\n            ), f\"The argument '{key}' is necessary in {self.__name__()} but not given.\"\n", new="", rule="R-C13-3", what="required check removed"),
    dict(id="C13-M9", file=_U, old="                copy_self = copy.deepcopy(self)\n", new="                copy_self = copy.copy(self)\n", rule="R-C13-5", what="shallow copy of self"),
]
TWINS = [
    dict(id="C13-T1", file=_U, old="        inp = {key: args[key] for key in self.args if key in args}\n        inp.update({key: self.defaults[key] for key in self.args if key not in args})\n        if not vectorize:",
         new="        given = {name: args[name] for name in self.args if name in args}\n        missing = {name: self.defaults[name] for name in self.args if not name in args}\n        inp = {**given, **missing}\n        if not vectorize:", what="dict merge instead of update, renamed"),
    dict(id="C13-T2", file=_U, old="range(len(f_defaults), 0, -1)", new="range(1, len(f_defaults) + 1)", what="ascending index range"),
]

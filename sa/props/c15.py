"""C15 — static / adaptive samplers follow their documented state machines."""
from __future__ import annotations

import ast
from typing import Optional

from ..absdom.poly import RF, NotPoly, to_rf
from ..flow import RAISE, attr_chain, dump, kwarg, paths
from ..repo import AnalysisError, Repo
from ..util import ends, norm_compare

EXPLANATION = (
    "The counter automaton of StaticSampler.sample_points is extracted from its expanded path conditions (hit test "
    "c+a ⋄ I, hit update c+1, miss reset r) and solved in closed form: uses per drawn set = 1 + #{c>=r : c+a ⋄ I} must "
    "equal the resample interval for every I; hit returns the cached object, miss stores and returns the fresh draw; "
    "make_static on a static sampler only updates the interval. Adaptive samplers: fresh candidates from a random-uniform "
    "sampler on the same domain, rows with loss < threshold replaced in place with one mask on both sides, first call adopts "
    "the candidates. Non-static samplers cache no drawn points."
)
ASSUMPTIONS = [
    "the truthiness of a Points object is `len > 0` (a cached empty draw counts as not created; outside the property: n >= 1)",
    "torch boolean-mask row assignment replaces exactly the masked rows",
]
SB = "problem.samplers.sampler_base"
RS = "problem.samplers.random_samplers"


def _counter_form(expr: ast.AST) -> Optional[int]:
    """expr == self.counter + a  ->  a"""
    def atom(n):
        if isinstance(n, ast.Attribute) and dump(n) == "self.counter":
            return RF.atom("c")
        return None
    try:
        rf = to_rf(expr, atom)
    except NotPoly:
        return None
    d = rf - RF.atom("c")
    v = d.const_value()
    if v is None or v.denominator != 1:
        return None
    return int(v)


def r1_static(repo: Repo, rep):
    R = rep.rule("R-C15-1", "StaticSampler: uses per drawn point set == resample_interval (closed form of the extracted counter automaton); "
                 "hit returns the cache, miss stores and returns the fresh draw", floor=6,
                 why="an off-by-one in the counter test/reset changes how many optimisation steps see the same points")
    ss = repo.cls(f"{SB}.StaticSampler")
    fi = ss.methods.get("sample_points")
    if fi is None:
        raise AnalysisError("StaticSampler.sample_points vanished")
    rep.saw(fi)
    hits, misses = [], []
    for p in paths(fi.node):
        if p.ret is RAISE:
            continue
        drew = any(isinstance(c, ast.Call) and dump(c.func) == "self.sampler.sample_points" for e in p.events if e.value is not None for c in ast.walk(e.value))
        if not drew:
            hits.append(p)  # nothing drawn: the call is served from the cache
        else:
            misses.append(p)
    if not hits or not misses:
        rep.undecided(R, fi.site(), fi.fq, "a hit path returning self.created_points and a miss path", f"{len(hits)} hit / {len(misses)} miss paths")
        return
    # ---- the hit / miss decision depends on nothing but "points exist" and the use counter
    for p in hits + misses:
        foreign = []
        for g, pol, kind in _flat_guards(p):
            if kind != "if":
                continue
            t = dump(g)
            if t in ("self.created_points", "self.created_points is None") or ("counter" in t and "resample_interval" in t):
                continue
            foreign.append(t[:70])
        rep.check(R, not foreign, fi.site(p.ret_node), fi.fq, "whether the cached set is reused depends only on its existence and on the number of uses",
                  f"also depends on {foreign}", f"foreign reuse condition {foreign}")
    # ---- hit paths: guard created ∧ (c + a ⋄ I), update c+1
    shape = None
    for p in hits:
        created = any(kind == "if" and ((pol and dump(g) in ("self.created_points", "self.created_points is not None")) or (not pol and dump(g) == "self.created_points is None")) for g, pol, kind in _flat_guards(p))
        rep.check(R, created, fi.site(p.ret_node), fi.fq, "the cache is returned only when points were created", f"guards {[dump(g) for g, _, _ in p.guards]}", "no created-guard")
        cmp = None
        for g, pol, kind in _flat_guards(p):
            if "counter" in dump(g) and "resample_interval" in dump(g):
                cmp = (g, pol)
        if cmp is None:
            rep.violation(R, fi.site(p.ret_node), fi.fq, "hit guarded by a comparison of the counter with resample_interval", "no such guard", "no counter guard")
            continue
        g, pol = cmp
        form = _hit_form(g, pol)
        if form is None:
            rep.undecided(R, fi.site(p.ret_node), fi.fq, "hit test of the form counter + a < / <= interval", dump(g))
            continue
        a, strict = form
        upd = p.env.get("self.counter")
        step = _counter_form(upd) if upd is not None else 0
        rep.check(R, step == 1, fi.site(p.ret_node), fi.fq, "a hit advances the counter by exactly 1", f"counter after hit = {dump(upd)}", f"hit update {dump(upd)}")
        shape = (a, strict)
        moved = ("self.created_points", f"self.created_points.to({fi.params[2]})", f"self.created_points.to(device={fi.params[2]})") if len(fi.params) > 2 else ("self.created_points",)
        stores = [e for e in p.events if e.kind == "attr" and dump(e.target) == "self.created_points" and dump(e.value) not in moved]
        rep.check(R, not stores, fi.site(p.ret_node), fi.fq, "a hit does not replace the cached points (a device move aside)", f"{[dump(e.node) for e in stores]}", "cache replaced on hit")
        rep.check(R, p.ret is not None and dump(p.ret) in moved, fi.site(p.ret_node), fi.fq, "a hit returns the cached points", dump(p.ret)[:80], f"hit returns {dump(p.ret)[:60]}")
    # ---- miss paths: reset r, draw, store, return
    for p in misses:
        upd = p.env.get("self.counter")
        r = None
        if isinstance(upd, ast.Constant) and isinstance(upd.value, int):
            r = upd.value
        if r is None:
            rep.violation(R, fi.site(p.ret_node), fi.fq, "a miss resets the counter to a constant", f"counter after miss = {dump(upd)}", f"miss update {dump(upd)}")
            continue
        if shape is not None:
            a, strict = shape
            # uses per draw = 1 + #{c >= r : c + a < I}  = I - a - r + 1  (strict) ; I - a - r + 2 (non-strict)
            offset = (1 - a - r) if strict else (2 - a - r)
            rep.check(R, offset == 0, fi.site(p.ret_node), fi.fq, "uses per drawn set == resample_interval for every interval",
                      f"uses per draw = interval {offset:+d}  (hit test: counter{a:+d} {'<' if strict else '<='} interval, reset to {r})",
                      f"a={a} strict={strict} r={r}")
        draw = [c for e in p.events if e.value is not None for c in ast.walk(e.value) if isinstance(c, ast.Call) and dump(c.func) == "self.sampler.sample_points"]
        if not draw:
            rep.violation(R, fi.site(p.ret_node), fi.fq, "a miss draws from the wrapped sampler", "no self.sampler.sample_points call", "no draw")
            continue
        dk = dump(draw[0])
        pa = kwarg(draw[0], "params", 0)
        rep.check(R, pa is not None and dump(pa) == "params", fi.site(p.ret_node), fi.fq, "the draw receives the caller's params", dk, dk)
        stored = p.env.get("self.created_points")
        rep.check(R, stored is not None and dump(stored) == dk and p.ret is not None and dump(p.ret) == dk, fi.site(p.ret_node), fi.fq,
                  "the fresh draw is both cached and returned", f"cached {dump(stored)[:60]}, returned {dump(p.ret)[:60]}", "store/return mismatch")
    # ---- the ONE stored set: whatever is assigned to self.created_points anywhere in the class is nothing, a fresh draw, or the current set moved to a device
    from ..util import deref, single_defs
    for mname, m in sorted(ss.methods.items()):
        tmp = single_defs(m.node)
        for n_ in ast.walk(m.node):
            if not (isinstance(n_, ast.Assign) and any(dump(t) == "self.created_points" for t in n_.targets)):
                continue
            rep.saw(m)
            v = deref(n_.value, tmp)
            t = dump(v)
            ok = (isinstance(v, ast.Constant) and v.value is None) or (isinstance(v, ast.Call) and dump(v.func) == "self.sampler.sample_points") \
                or (isinstance(v, ast.Call) and isinstance(v.func, ast.Attribute) and v.func.attr == "to" and dump(v.func.value) == "self.created_points")
            rep.check(R, ok, m.site(n_), m.fq, "self.created_points is assigned None, a fresh draw of the wrapped sampler, or itself moved to a device (no second store of drawn points that could come back later)",
                      t[:100], f"created_points = {t[:80]}")
    # ---- queries do not advance the automaton
    for qname in ("__len__",):
        q = ss.methods.get(qname)
        if q is None:
            continue
        rep.saw(q)
        acts = sorted({dump(c.func) for c in ast.walk(q.node) if isinstance(c, ast.Call) and dump(c.func) in ("self.sample_points", "self.sampler.sample_points", "next")}
                      | {dump(t) for n in ast.walk(q.node) if isinstance(n, (ast.Assign, ast.AugAssign)) for t in (n.targets if isinstance(n, ast.Assign) else [n.target]) if dump(t).startswith("self.")})
        rep.check(R, not acts, q.site(), q.fq, f"{qname} is a pure query: it neither draws nor counts a use", str(acts), f"{qname}: {acts}")
    # ---- "a set exists" is tested by identity with None: a drawn set with 0 rows is a set too (Points.__len__ makes it falsy)
    for meth in (fi, ss.methods.get("__next__")):
        if meth is None:
            continue
        truthy = []
        for n_ in ast.walk(meth.node):
            tests = []
            if isinstance(n_, (ast.If, ast.IfExp, ast.While)):
                tests = [n_.test]
            for t in tests:
                parts = t.values if isinstance(t, ast.BoolOp) else [t]
                for q in parts:
                    while isinstance(q, ast.UnaryOp) and isinstance(q.op, ast.Not):
                        q = q.operand
                    if dump(q) == "self.created_points" or (isinstance(q, ast.Call) and dump(q.func) in ("len", "bool") and q.args and dump(q.args[0]) == "self.created_points"):
                        truthy.append(dump(t)[:60])
        rep.check(R, not truthy, meth.site(), meth.fq, "the cache test is `self.created_points is (not) None`", f"truth value / length of the cached Points decides: {truthy} - an empty first draw is never cached",
                  f"{meth.name}: truthiness of created_points {truthy}")
    # ---- next(static) serves the cached set without counting a use
    nx = ss.methods.get("__next__")
    if nx is not None:
        rep.saw(nx)
        served = 0
        for p in paths(nx.node):
            if p.ret is RAISE:
                continue
            created = [pol for g, pol, kind in _flat_guards(p) if kind == "if" and dump(g) in ("self.created_points", "self.created_points is not None")] + \
                      [not pol for g, pol, kind in p.guards if kind == "if" and dump(g) == "self.created_points is None"]
            calls = [dump(c.func) for e in p.events if e.value is not None for c in ast.walk(e.value) if isinstance(c, ast.Call) and dump(c.func) in ("self.sample_points", "self.sampler.sample_points")]
            writes = [dump(e.target) for e in p.events if e.kind in ("attr", "aug")]
            if created and created[0]:
                served += 1
                rep.check(R, not calls and not writes and dump(p.ret) == "self.created_points", nx.site(p.ret_node), nx.fq, "with a cached set next() returns it and neither draws nor counts a use",
                          f"calls {calls}, writes {writes}, returns {dump(p.ret)[:50]}", f"next hit: {calls} {writes}")
        rep.check(R, served >= 1, nx.site(), nx.fq, "next() has a path that serves the cached set (guarded by self.created_points)", f"{served} such path(s): every next() counts as a use / may redraw",
                  "next never serves the cache")
    # ---- every make_static of the sampler classes honours the requested interval
    for mname, m in repo.modules.items():
        if ".problem.samplers." not in mname:
            continue
        for ci in m.classes.values():
            f2 = ci.methods.get("make_static")
            if f2 is None or ci is ss:
                continue
            rep.saw(f2)
            prm = [a for a in f2.params[1:]]
            used = {x.id for x in ast.walk(f2.node) if isinstance(x, ast.Name) and isinstance(x.ctx, ast.Load)}
            missing = [a for a in prm if a not in used]
            rep.check(R, bool(prm) and not missing, f2.site(), f2.fq, "make_static passes the requested resample_interval on", f"parameters {prm}, never read: {missing}", f"{ci.name}.make_static ignores {missing}")
    # ---- constructor state
    init = ss.methods.get("__init__")
    if init is not None:
        rep.saw(init)
        for p in paths(init.node):
            c, cp, ri = p.env.get("self.counter"), p.env.get("self.created_points"), p.env.get("self.resample_interval")
            good = dump(c) == "0" and dump(cp) == "None" and dump(ri) == "resample_interval"
            rep.check(R, good, init.site(), init.fq, "initial state: counter 0, no cache, interval from the argument", f"counter={dump(c)}, created={dump(cp)}, interval={dump(ri)}", "init state")
    # ---- make_static
    ms = ss.methods.get("make_static")
    if ms is not None:
        rep.saw(ms)
        for p in paths(ms.node):
            if p.ret is RAISE:
                continue
            ri = p.env.get("self.resample_interval")
            other = [dump(e.target) for e in p.events if e.kind in ("attr", "aug") and dump(e.target) != "self.resample_interval"]
            good = dump(p.ret) == "self" and ri is not None and dump(ri) == ms.params[1] and not other
            rep.check(R, good, ms.site(), ms.fq, "re-staticising only updates the interval and returns the same sampler", f"ret={dump(p.ret)}, interval={dump(ri)}, other writes={other}", "make_static")
    base = repo.cls(f"{SB}.PointSampler")
    bms = base.methods.get("make_static")
    if bms is not None:
        rep.saw(bms)
        for p in paths(bms.node):
            if p.ret is RAISE:
                continue
            r = p.ret
            good = isinstance(r, ast.Call) and ends(attr_chain(r.func), "StaticSampler") and len(r.args) + len(r.keywords) == 2 and dump(r.args[0]) == "self" and dump(kwarg(r, "resample_interval", 1)) == "resample_interval"
            rep.check(R, good, bms.site(), bms.fq, "make_static wraps self with the requested interval", dump(r), dump(r))


def _flat_guards(p):
    """split `a and b` guards taken positively into their conjuncts"""
    out = []
    for g, pol, kind in p.guards:
        if pol and isinstance(g, ast.BoolOp) and isinstance(g.op, ast.And):
            out.extend((v, True, kind) for v in g.values)
        elif (not pol) and isinstance(g, ast.BoolOp) and isinstance(g.op, ast.Or):
            out.extend((v, False, kind) for v in g.values)
        else:
            out.append((g, pol, kind))
    return out


def _hit_form(g: ast.AST, pol: bool):
    while isinstance(g, ast.UnaryOp) and isinstance(g.op, ast.Not):
        g, pol = g.operand, not pol
    if not (isinstance(g, ast.Compare) and len(g.ops) == 1):
        return None
    l, r, op = g.left, g.comparators[0], g.ops[0]
    # normalise to  counterexpr  OP  interval
    if "counter" in dump(r) and "resample_interval" in dump(l):
        l, r = r, l
        op = {ast.Lt: ast.Gt, ast.Gt: ast.Lt, ast.LtE: ast.GtE, ast.GtE: ast.LtE}.get(type(op), type(op))()
    if dump(r) != "self.resample_interval":
        return None
    a = _counter_form(l)
    if a is None:
        return None
    t = type(op)
    if not pol:
        t = {ast.Lt: ast.GtE, ast.GtE: ast.Lt, ast.LtE: ast.Gt, ast.Gt: ast.LtE}.get(t)
    if t is ast.Lt:
        return a, True
    if t is ast.LtE:
        return a, False
    return None


def r1b_no_cache(repo: Repo, rep):
    R = rep.rule("R-C15-1b", "non-static, non-adaptive samplers keep no drawn points on self", floor=8,
                 why="a sampler that caches its draw returns stale points although it is documented to draw fresh points each call")
    base = repo.cls(f"{SB}.PointSampler")
    static = repo.cls(f"{SB}.StaticSampler")
    adaptive = repo.cls(f"{SB}.AdaptiveSampler")
    allow = {"length": "expected number of samples", "mean": "device move", "std": "device move", "points": "DataSampler: device move of the user's data",
             "filter_fn": "configuration"}
    scope = ("sampler_base", "random_samplers", "grid_samplers", "data_samplers")
    for ci in repo.subclasses(base):
        if repo.is_subclass(ci, static) or repo.is_subclass(ci, adaptive):
            continue
        if ci.module.name.split(".")[-1] not in scope:
            continue
        for fi in ci.methods.values():
            if fi.name == "__init__":
                continue
            rep.saw(fi)
            bad = []
            for p in paths(fi.node):
                for e in p.events:
                    if e.kind in ("attr", "aug") and e.target is not None and dump(e.target).startswith("self.") and e.value is not None:
                        attr = dump(e.target)[5:]
                        drawn = [dump(c.func) for c in ast.walk(e.value) if isinstance(c, ast.Call) and isinstance(c.func, (ast.Attribute, ast.Name))
                                 and "sample" in (c.func.attr if isinstance(c.func, ast.Attribute) else c.func.id)]
                        if drawn and attr not in allow:
                            bad.append(f"self.{attr} = ...{drawn[0]}(...)")
            bad = sorted(set(bad))
            rep.check(R, not bad, fi.site(), fi.fq, "no attribute of the sampler receives drawn points", f"{bad[:2]}", str(bad[:2]))


def r2_adaptive(repo: Repo, rep):
    R = rep.rule("R-C15-2", "adaptive samplers: fresh candidates from a RandomUniformSampler on the same domain; rows with "
                 "loss < min + (max-min)*ratio (resp. *U) are replaced in place with one mask; count constant; first call adopts the candidates",
                 floor=10, why="a flipped comparison keeps the low-loss points and discards the high-loss ones; different masks on the two sides mispair rows")
    for cname, thr_kind in (("AdaptiveThresholdRejectionSampler", "ratio"), ("AdaptiveRandomRejectionSampler", "rand")):
        ci = repo.cls(f"{RS}.{cname}")
        init, sp = ci.methods.get("__init__"), ci.methods.get("sample_points")
        if init is None or sp is None:
            raise AnalysisError(f"{cname}.__init__/sample_points vanished")
        rep.saw(init), rep.saw(sp)
        for p in paths(init.node):
            if p.ret is RAISE:
                continue
            rs = p.env.get("self.random_sampler")
            good = isinstance(rs, ast.Call) and ends(attr_chain(rs.func), "RandomUniformSampler") and rs.args and dump(rs.args[0]) == "domain" \
                and dump(kwarg(rs, "n_points", 1)) == "n_points" and dump(kwarg(rs, "density", 2)) == "density"
            rep.check(R, good, init.site(), init.fq, "candidates come from RandomUniformSampler(domain, n_points, density) on the sampler's own domain", dump(rs), dump(rs))
            lp = p.env.get("self.last_points")
            rep.check(R, dump(lp) == "None", init.site(), init.fq, "no retained points initially", dump(lp), dump(lp))
        lossp = sp.params[1]
        for p in paths(sp.node):
            if p.ret is RAISE:
                continue
            draws = [c for e in p.events if e.value is not None for c in ast.walk(e.value) if isinstance(c, ast.Call) and dump(c.func) == "self.random_sampler.sample_points"]
            if not draws:
                rep.violation(R, sp.site(), sp.fq, "fresh candidates are drawn on every call", "no draw on this path", "no draw")
                continue
            dk = dump(draws[0])
            pa = kwarg(draws[0], "params", 0)
            rep.check(R, pa is not None and dump(pa) == "params", sp.site(), sp.fq, "candidates drawn for the caller's params", dk, dk)
            rep.check(R, dump(p.ret) == "self.last_points" or dump(p.ret) == dk, sp.site(p.ret_node), sp.fq, "returns the retained point set", dump(p.ret), dump(p.ret))
            nones = {dump(g): pol for g, pol, k in p.guards if k == "if" and isinstance(g, ast.Compare) and isinstance(g.ops[0], ast.Is) and dump(g.comparators[0]) == "None"}
            first = any(nones.values())
            stores = [e for e in p.events if e.kind == "store"]
            want = {"self.last_points is None", f"{lossp} is None"}
            if first:
                lp = p.env.get("self.last_points")
                rep.check(R, lp is not None and dump(lp) == dk and not stores, sp.site(), sp.fq, "first call / no loss: the candidates are adopted", f"last_points = {dump(lp)[:60]}", "adopt")
                txt = str(sorted(k for k, v in nones.items() if v))
                rep.check(R, {k for k, v in nones.items() if v} <= want, sp.site(), sp.fq, "adoption exactly when there are no retained points or no loss", txt, txt)
                continue
            # the replacement path: both retained points and a loss exist
            txt = str(sorted(nones.items()))
            rep.check(R, {k for k, v in nones.items() if not v} >= want, sp.site(), sp.fq, "adoption exactly when there are no retained points or no loss", f"replacement path guarded by {txt}", txt)
            if len(stores) != 1:
                rep.violation(R, sp.site(), sp.fq, "exactly one in-place row replacement", f"{len(stores)} subscript stores", f"{len(stores)} stores")
                continue
            st = stores[0]
            tgt, val = st.target, st.value
            ok_shape = isinstance(tgt, ast.Subscript) and isinstance(val, ast.Subscript)
            if isinstance(tgt, ast.Subscript) and dump(tgt.value) in ("self.last_points._t", "self.last_points.as_tensor") and not isinstance(val, ast.Subscript):
                # masked rows receive a WHOLE tensor: the candidates then are not the n rows drawn for the same positions (the wrapped sampler was asked for another count)
                rep.violation(R, sp.site(st.node), sp.fq, "the same mask selects rows on both sides: row k is replaced by candidate row k", f"{dump(tgt)[:60]} = {dump(val)[:60]} (no selection on the right)", "unmasked candidates")
                continue
            if not ok_shape:
                rep.undecided(R, sp.site(st.node), sp.fq, "replacement of the form last[mask] = new[mask]", dump(st.node))
                continue
            tb, vb = dump(tgt.value), dump(val.value)
            rep.check(R, tb in ("self.last_points._t", "self.last_points.as_tensor") and vb in (dk + "._t", dk + ".as_tensor"), sp.site(st.node), sp.fq,
                      "retained tensor rows are overwritten by the candidate rows", f"{tb}[..] = {vb[:70]}[..]", f"{tb} <- {vb}")
            rep.check(R, dump(tgt.slice) == dump(val.slice), sp.site(st.node), sp.fq, "the same mask selects rows on both sides", f"{dump(tgt.slice)[:90]} vs {dump(val.slice)[:90]}", "mask mismatch")
            mask = tgt.slice.elts[0] if isinstance(tgt.slice, ast.Tuple) else tgt.slice
            rest_ok = (not isinstance(tgt.slice, ast.Tuple)) or all(isinstance(e, ast.Slice) and e.lower is None and e.upper is None and e.step is None for e in tgt.slice.elts[1:])
            rep.check(R, rest_ok, sp.site(st.node), sp.fq, "whole rows are replaced", dump(tgt.slice)[:80], "partial rows")
            ok, detail = _mask_ok(mask, lossp, thr_kind)
            rep.check(R, ok, sp.site(st.node), sp.fq,
                      "mask == loss < min + (max-min)*" + ("self.resample_ratio" if thr_kind == "ratio" else "rand_like(loss)"), detail, dump(mask)[:200])
            lp = p.env.get("self.last_points")
            rep.check(R, lp is None, sp.site(), sp.fq, "the retained object itself is kept (constant size, in-place update)", f"last_points rebound to {dump(lp)[:60]}", "rebound")


def _mask_ok(mask: ast.AST, lossp: str, kind: str):
    pol = True
    while isinstance(mask, ast.UnaryOp) and isinstance(mask.op, (ast.Not, ast.Invert)):
        mask, pol = mask.operand, not pol
    if isinstance(mask, ast.Call) and ends(attr_chain(mask.func), "logical_not") and len(mask.args) == 1:
        mask, pol = mask.args[0], not pol
    if not (isinstance(mask, ast.Compare) and len(mask.ops) == 1):
        if isinstance(mask, ast.Call) and ends(attr_chain(mask.func), "lt", "less") and len(mask.args) == 2:
            l, r, op = mask.args[0], mask.args[1], ast.Lt()
        else:
            return False, f"mask is `{dump(mask)[:100]}`"
    else:
        l, r, op = mask.left, mask.comparators[0], mask.ops[0]
    t = type(op)
    if dump(r) == lossp:  # threshold > loss
        l, r = r, l
        t = {ast.Gt: ast.Lt, ast.GtE: ast.LtE, ast.Lt: ast.Gt, ast.LtE: ast.GtE}.get(t, t)
    if not pol:
        t = {ast.Lt: ast.GtE, ast.GtE: ast.Lt, ast.LtE: ast.Gt, ast.Gt: ast.LtE}.get(t, t)
    if dump(l) != lossp:
        return False, f"compared value is `{dump(l)[:60]}`, not the loss"
    if t is not ast.Lt:
        return False, f"rows with loss {_sym(t)} threshold are replaced (documented: loss < threshold; points at or above are kept)"

    def atom(n):
        if isinstance(n, ast.Call):
            ch = attr_chain(n.func)
            if ends(ch, "max") and len(n.args) == 1 and dump(n.args[0]) == lossp:
                return RF.atom("MAX")
            if ends(ch, "min") and len(n.args) == 1 and dump(n.args[0]) == lossp:
                return RF.atom("MIN")
            if isinstance(n.func, ast.Attribute) and n.func.attr in ("max", "min") and dump(n.func.value) == lossp and not n.args:
                return RF.atom(n.func.attr.upper())
            if ends(ch, "rand_like") and n.args and dump(n.args[0]) == lossp:
                return RF.atom("U")
        if isinstance(n, ast.Attribute) and dump(n) == "self.resample_ratio":
            return RF.atom("RATIO")
        return None
    try:
        rf = to_rf(r, atom)
    except NotPoly as e:
        return False, f"threshold not recognised: {e}"
    f = RF.atom("RATIO") if kind == "ratio" else RF.atom("U")
    want = RF.atom("MIN") + (RF.atom("MAX") - RF.atom("MIN")) * f
    if rf == want:
        # floating-point exactness at a plateau: when all losses are equal (max == min) the documented threshold is that value
        # exactly (x - x = 0, 0 * r = 0, c + 0 = c are exact), so no point is below it; an algebraically equal form that rounds
        # (convex combination) can exceed it and replace every point
        ex = _plateau_exact(r, atom)
        if ex is not True:
            return False, f"threshold `{dump(r)[:80]}` is algebraically the documented one but not exact when max == min ({ex}): at a plateau of equal losses it can round above the common value"
        return True, f"loss < {rf!r}"
    return False, f"threshold = {rf!r}, expected {want!r}"


def _plateau_exact(e: ast.AST, atom):
    """IEEE-exact evaluation of the threshold under max == min: returns True when the result is exactly the common value,
    else a description.  Values: 'M' (the common loss), 0, or ('?', text) for a rounded / unknown quantity."""
    def ev(n):
        a = atom(n)
        if a is not None:
            r = repr(a)
            if r in ("MAX", "MIN"):
                return "M"
            return ("?", r)
        if isinstance(n, ast.Constant) and isinstance(n.value, (int, float)):
            return 0 if n.value == 0 else ("?", repr(n.value))
        if isinstance(n, ast.BinOp):
            x, y = ev(n.left), ev(n.right)
            if isinstance(n.op, ast.Sub):
                if x == "M" and y == "M":
                    return 0
                if y == 0:
                    return x
            if isinstance(n.op, ast.Add):
                if x == 0:
                    return y
                if y == 0:
                    return x
            if isinstance(n.op, ast.Mult):
                if x == 0 or y == 0:
                    return 0
            if isinstance(n.op, ast.Div) and x == 0:
                return 0
            return ("?", dump(n)[:50])
        if isinstance(n, ast.UnaryOp) and isinstance(n.op, ast.USub):
            x = ev(n.operand)
            return 0 if x == 0 else ("?", dump(n)[:50])
        return ("?", dump(n)[:50])
    v = ev(e)
    return True if v == "M" else (f"evaluates to a rounded quantity {v[1]}" if isinstance(v, tuple) else f"evaluates to {v}")


def _sym(t):
    return {ast.Lt: "<", ast.LtE: "<=", ast.Gt: ">", ast.GtE: ">="}.get(t, "?")


def r3_algebra_and_settings(repo: Repo, rep):
    R = rep.rule("R-C15-3", "sampler operators (*, +, append) combine their operands as they are - no static wrapper is introduced behind the user's back; the adaptive "
                 "samplers keep their ratio as the value it was given", floor=4,
                 why="a product wrapped by make_static() keeps its first set for ever, whatever resample intervals the factors carry; a ratio rounded to float32 moves the threshold for float64 losses")
    ps = repo.cls("problem.samplers.sampler_base.PointSampler")
    for name, want in (("__mul__", "ProductSampler"), ("__add__", "ConcatSampler"), ("append", "AppendSampler")):
        fi = ps.methods.get(name)
        if fi is None:
            continue
        rep.saw(fi)
        for p in paths(fi.node):
            if p.ret is RAISE or p.ret is None:
                continue
            r = p.ret
            ok = isinstance(r, ast.Call) and attr_chain(r.func) == want and [dump(a) for a in r.args] == ["self", fi.params[1]] and not r.keywords
            rep.check(R, ok, fi.site(p.ret_node), fi.fq, f"returns {want}(self, {fi.params[1]})", dump(r)[:80], f"{name} returns {dump(r)[:60]}")
    for cname in ("AdaptiveThresholdRejectionSampler", "AdaptiveRandomRejectionSampler"):
        ci = repo.cls(f"problem.samplers.random_samplers.{cname}")
        init = ci.methods.get("__init__")
        if init is None or "resample_ratio" not in init.params:
            continue
        rep.saw(init)
        for p in paths(init.node, expand_self=False):
            if p.ret is RAISE:
                continue
            v = p.attrs.get("self.resample_ratio")
            rep.check(R, v is not None and dump(v) == "resample_ratio", init.site(), init.fq, "self.resample_ratio = resample_ratio (unchanged)", dump(v)[:80], f"ratio stored as {dump(v)[:60]}")
            break


def run(repo: Repo, rep):
    r3_algebra_and_settings(repo, rep)
    r1_static(repo, rep)
    r1b_no_cache(repo, rep)
    r2_adaptive(repo, rep)


_B = "src/torchphysics/problem/samplers/sampler_base.py"
_R = "src/torchphysics/problem/samplers/random_samplers.py"
MUTANTS = [
    dict(id="C15-M60", file=_B, old="        if self.created_points is not None and self.counter < self.resample_interval:", new="        if self.created_points and self.counter < self.resample_interval:", rule="R-C15-1", what="cache tested by truth value (the repaired defect)"),
    dict(id="C15-M1", file=_B, old="self.counter < self.resample_interval", new="self.counter <= self.resample_interval", rule="R-C15-1", what="<="),
    dict(id="C15-M2", file=_B, old="        self.counter = 0\n        points = self.sampler.sample_points", new="        self.counter = 1\n        points = self.sampler.sample_points", rule="R-C15-1", what="reset to 1"),
    dict(id="C15-M3", file=_B, old="        self.counter += 1\n        # (a drawn set without any point is a set too: compare with None)\n        if self.created_points is not None and self.counter < self.resample_interval:\n            self._change_device(device=device)\n            return self.created_points",
         new="        if self.created_points is not None and self.counter < self.resample_interval:\n            self.counter += 1\n            self._change_device(device=device)\n            return self.created_points", rule="R-C15-1", what="increment after the test"),
    dict(id="C15-M4", file=_R, old="                unreduced_loss < min_l + (max_l - min_l) * self.resample_ratio", new="                unreduced_loss > min_l + (max_l - min_l) * self.resample_ratio", rule="R-C15-2", what=">"),
    dict(id="C15-M5", file=_R, old="filter_tensor = unreduced_loss < min_l + (max_l - min_l) * torch.rand_like(", new="filter_tensor = unreduced_loss >= min_l + (max_l - min_l) * torch.rand_like(", rule="R-C15-2", what=">="),
    dict(id="C15-M6", file=_R, old="                unreduced_loss < min_l + (max_l - min_l) * self.resample_ratio", new="                unreduced_loss < max_l - (max_l - min_l) * self.resample_ratio", rule="R-C15-2", what="threshold from the top"),
    dict(id="C15-M7", file=_B, old="        self.created_points = points\n        return points", new="        return points", rule="R-C15-1", what="miss does not cache"),
    dict(id="C15-M9", file=_R, old="            return rand_points.join(repeated_params)\n", new="            self._last = rand_points.join(repeated_params)\n            return self._last\n", rule="R-C15-1b", what="draw cached on a non-static sampler"),
    dict(id="C15-M8", file=_B, old="        self.resample_interval = resample_interval\n        return self", new="        self.resample_interval = resample_interval\n        self.created_points = None\n        return self", rule="R-C15-1", what="re-staticising drops the cache"),
]
TWINS = [
    dict(id="C15-T1", file=_B, old="        self.counter += 1\n        if self.created_points", new="        self.counter = self.counter + 1\n        if self.created_points", what="explicit increment"),
    dict(id="C15-T2", file=_B, old="self.counter < self.resample_interval", new="not (self.counter >= self.resample_interval)", what="negated comparison"),
    dict(id="C15-T3", file=_R, old="            filter_tensor = (\n                unreduced_loss < min_l + (max_l - min_l) * self.resample_ratio\n            )", new="            threshold = (max_l - min_l) * self.resample_ratio + min_l\n            filter_tensor = threshold > unreduced_loss", what="threshold temporary, flipped sides"),
]

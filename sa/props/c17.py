"""C17 — partially evaluating a domain is the same as supplying the parameters."""
from __future__ import annotations

import ast
from typing import Dict, List, Optional, Set, Tuple

from ..flow import RAISE, attr_chain, dump, kwarg, paths
from ..repo import AnalysisError, ClassInfo, Repo
from ..util import ends

EXPLANATION = (
    "Constructor round-trip dataflow for every concrete Domain.__call__: constructor parameters are classified from __init__ "
    "(shape function / sub-domain / plain value) and the re-created object must receive every one of them from its evaluated "
    "counterpart (shape functions partially evaluated, sub-domains called with the data, plain values and flags from self); state "
    "written by public setters must be carried over; every shape function is registered for necessary_variables, sub-domain sets "
    "are united into a fresh set; __call__ writes nothing on self."
)
ASSUMPTIONS = [
    "UserFunction.partially_evaluate returns the value or a deep-copied wrapper (decided by C13's rules, included here)",
    "equality of sampled values after partial evaluation is not decided",
]
DOM = "problem.domains"
SUBDOMAIN_PARAMS = ("domain", "domain_a", "domain_b")


def _ctor_info(repo: Repo, ci: ClassInfo):
    """-> (params, kind per param, attr per param) from the class's own __init__"""
    init = repo.resolve_method(ci, "__init__")
    if init is None:
        return None
    params = init.params[1:]
    kinds: Dict[str, str] = {}
    attr: Dict[str, str] = {}
    shape_vars: Set[str] = set()
    for n in ast.walk(init.node):
        if isinstance(n, ast.Assign) and isinstance(n.value, ast.Call) and dump(n.value.func) == "self.transform_to_user_functions":
            args = [dump(a) for a in n.value.args]
            tg = n.targets[0]
            names = [dump(t) for t in tg.elts] if isinstance(tg, (ast.Tuple, ast.List)) else [dump(tg)]
            for a in args:
                if a in params:
                    kinds[a] = "shape"
            for a, t in zip(args, names):
                if t.startswith("self."):
                    attr[a] = t[5:]
                else:
                    shape_vars.add(t)
                    attr.setdefault(a, None)
                    attr["__local__" + t] = a
        if isinstance(n, ast.Assign) and isinstance(n.value, ast.Subscript) and isinstance(n.value.value, ast.Call) and dump(n.value.value.func) == "self.transform_to_user_functions":
            # self.x = self.transform_to_user_functions(p)[0]
            a = dump(n.value.value.args[0]) if n.value.value.args else None
            t = dump(n.targets[0])
            if a in params:
                kinds[a] = "shape"
                if t.startswith("self."):
                    attr[a] = t[5:]
                else:
                    attr["__local__" + t] = a
    for n in ast.walk(init.node):
        if isinstance(n, ast.Assign) and len(n.targets) == 1 and dump(n.targets[0]).startswith("self.") and isinstance(n.value, ast.Name):
            t, v = dump(n.targets[0])[5:], n.value.id
            if v in params and attr.get(v) is None:
                attr[v] = t
            src = attr.get("__local__" + v)
            if src is not None and attr.get(src) is None:
                attr[src] = t
    for p in params:
        if p in kinds:
            continue
        kinds[p] = "domain" if p in SUBDOMAIN_PARAMS else "plain"
    return init, params, kinds, attr


# constructor parameters whose kind is only visible at construction sites
DECLARED_KINDS = {("IntervalSingleBoundaryPoint", "side"): ("shape", "Interval.boundary_left/right pass self.lower_bound / self.upper_bound")}


_DUNDER = {ast.Sub: "__sub__", ast.Add: "__add__", ast.BitAnd: "__and__", ast.Mult: "__mul__"}


def r1_roundtrip(repo: Repo, rep, rule_id="R-C17-1"):
    R = rep.rule(rule_id, "__call__ re-creates the domain passing EVERY constructor argument from its evaluated counterpart "
                 "(shape function -> partially_evaluate(**data), sub-domain -> sub(**data), plain value / flag -> self.<attr>)", floor=14,
                 why="a dropped flag (disjoint, contained, rotate_around, side) makes the evaluated domain denote a different set or measure")
    D = repo.cls(f"{DOM}.domain.Domain")
    for ci in repo.subclasses(D, strict=True):
        fi = ci.methods.get("__call__")
        if fi is None:
            continue
        rep.saw(fi)
        info = _ctor_info(repo, ci)
        if info is None:
            continue
        init, params, kinds, attr = info
        for (cn, pn), (k, why) in DECLARED_KINDS.items():
            if cn == ci.name and pn in kinds:
                kinds[pn] = k
        for p in paths(fi.node):
            if p.ret is RAISE or p.ret is None:
                continue
            r = p.ret
            if dump(r) == "self":
                has_dyn = [q for q in params if kinds[q] in ("shape", "domain")]
                if has_dyn == ["domain"]:
                    # boundary of a domain that itself evaluates to `self`
                    from .c05 import _domain_class_of
                    inner = _domain_class_of(repo, ci)
                    ic = inner.methods.get("__call__") if inner else None
                    if ic is not None and all(dump(q.ret) == "self" for q in paths(ic.node) if q.ret is not RAISE):
                        has_dyn = []
                rep.check(R, not has_dyn, fi.site(p.ret_node), fi.fq, "`return self` only for domains without shape functions / sub-domains", f"parameters {has_dyn}", "return self")
                continue
            if ci.name == "BoundaryDomain":
                rep.check(R, dump(r) == "self.domain(**data).boundary", fi.site(p.ret_node), fi.fq, "boundary of the evaluated domain", dump(r), dump(r))
                continue
            if isinstance(r, ast.BinOp) and type(r.op) in _DUNDER:
                # a domain operator: resolved through Domain.__sub__ / __add__ / __and__ / __mul__ to the constructor call it makes
                dn = D.methods.get(_DUNDER[type(r.op)])
                made = None
                if dn is not None and len(dn.params) == 2:
                    for q in paths(dn.node):
                        if q.ret is not RAISE and isinstance(q.ret, ast.Call) and isinstance(q.ret.func, ast.Name):
                            from ..flow import subst
                            made = subst(q.ret, {dn.params[0]: r.left, dn.params[1]: r.right})
                if made is not None:
                    r = made
            if isinstance(r, ast.Call) and attr_chain(r.func) in ("copy.copy", "copy.deepcopy", "copy", "deepcopy") and r.args and dump(r.args[0]) == "self":
                # copy-and-patch instead of re-construction: everything the constructor derives from its arguments (necessary_variables - for a shallow copy even
                # the very set object of the original - registered shape functions, the boundary) keeps the state of the unevaluated domain
                rep.violation(R, fi.site(p.ret_node), fi.fq, f"the evaluated domain is built by {ci.name}(...) from the evaluated arguments",
                              f"a patched {dump(r)[:40]}: constructor-derived state (necessary_variables, ...) is that of the unevaluated domain", "copy of self patched")
                continue
            if not (isinstance(r, ast.Call) and attr_chain(r.func) in (ci.name, "type(self)", "self.__class__")):
                rep.undecided(R, fi.site(p.ret_node), fi.fq, f"returns {ci.name}(...)", dump(r)[:80])
                continue
            given: Dict[str, ast.AST] = {}
            for q, a in zip(params, r.args):
                given[q] = a
            for k in r.keywords:
                if k.arg:
                    given[k.arg] = k.value
            for q in params:
                if q == "space" and q in given and dump(given[q]) == "self.space":
                    continue
                if q not in given:
                    rep.violation(R, fi.site(p.ret_node), fi.fq, f"constructor argument `{q}` ({kinds[q]}) is forwarded", f"`{q}` not passed to {ci.name}(...): the default is used", f"missing {q}")
                    continue
                v = given[q]
                a = attr.get(q) or q
                t = dump(v)
                if kinds[q] == "shape":
                    core = v
                    # allow shape normalisation helpers around the evaluated function
                    while isinstance(core, ast.Call) and dump(core.func).startswith("self._") and len(core.args) == 1:
                        core = core.args[0]
                    ok = dump(core) == f"self.{a}.partially_evaluate(**data)"
                    want = f"self.{a}.partially_evaluate(**data)"
                elif kinds[q] == "domain":
                    ok = t == f"self.{a}(**data)" or (ci.name == "ProductDomain" and _product_factor_ok(t, a))
                    want = f"self.{a}(**data)"
                else:
                    ok = t == f"self.{a}"
                    want = f"self.{a}"
                rep.check(R, ok, fi.site(p.ret_node), fi.fq, f"`{q}` = {want}", f"`{q}` = {t[:90]}", f"{q}={t[:90]}")


def r1b_motion_boundaries(repo: Repo, rep, rule_id="R-C17-1b"):
    R = rep.rule(rule_id, "the boundary of a translated / rotated domain is the same motion of the inner boundary: its constructor call receives EVERY argument of the motion "
                 "(shape functions and pivot as stored), only the domain is replaced by self.domain.boundary", floor=2,
                 why="a pivot that is not handed on rotates the boundary about the origin: boundary samples of the rotated domain lie off its boundary")
    for mod, cname in (("translate", "Translate"), ("rotate", "Rotate")):
        ci = repo.cls(f"{DOM}.domainoperations.{mod}.{cname}")
        fi = ci.methods.get("boundary")
        info = _ctor_info(repo, ci)
        if fi is None or info is None:
            rep.undecided(R, ci.module.relpath, ci.fq, "boundary property and constructor", "not found")
            continue
        rep.saw(fi)
        init, params, kinds, attr = info
        for p in paths(fi.node):
            if p.ret is RAISE or p.ret is None:
                continue
            r = p.ret
            if not (isinstance(r, ast.Call) and attr_chain(r.func) in (ci.name, "type(self)", "self.__class__")):
                rep.undecided(R, fi.site(p.ret_node), fi.fq, f"returns {ci.name}(...)", dump(r)[:80])
                continue
            given = dict(zip(params, r.args))
            given.update({k.arg: k.value for k in r.keywords if k.arg})
            for q in params:
                a = attr.get(q) or q
                want = "self.domain.boundary" if kinds.get(q) == "domain" else f"self.{a}"
                if q not in given:
                    rep.violation(R, fi.site(p.ret_node), fi.fq, f"`{q}` = {want}", f"`{q}` not passed: the constructor's default is used", f"{cname}.boundary: missing {q}")
                    continue
                rep.check(R, dump(given[q]) == want, fi.site(p.ret_node), fi.fq, f"`{q}` = {want}", f"`{q}` = {dump(given[q])[:80]}", f"{cname}.boundary: {q}={dump(given[q])[:60]}")


def _product_factor_ok(t: str, a: str) -> bool:
    # a factor all of whose variables are fixed becomes a Point at those values
    return t.startswith("Point(") or t == f"self.{a}(**data)"


SETTERS = {"set_volume": "_user_volume", "set_bounding_box": "bounds"}


def r2_setters(repo: Repo, rep, rule_id="R-C17-2"):
    R = rep.rule(rule_id, "state written by public setters (set_volume -> _user_volume, set_bounding_box -> bounds) survives __call__", floor=14,
                 why="a user-set volume / bounding box silently falls back to the estimate after partial evaluation")
    D = repo.cls(f"{DOM}.domain.Domain")
    for ci in repo.subclasses(D, strict=True):
        fi = ci.methods.get("__call__")
        if fi is None:
            continue
        rep.saw(fi)
        src = ast.unparse(fi.node)
        returns_self = all(dump(p.ret) == "self" for p in paths(fi.node) if p.ret is not RAISE and p.ret is not None)
        for setter, attr in SETTERS.items():
            owner = repo.resolve_method(ci, setter)
            if owner is None:
                continue
            # setters that delegate to the inner domain keep their state there (Translate/Rotate)
            delegating = any(isinstance(c, ast.Call) and dump(c.func) == f"self.domain.{setter}" for c in ast.walk(owner.node))
            if delegating or returns_self:
                rep.ok(R, fi.site(), fi.fq, f"{attr} survives partial evaluation", "kept on the same / inner object")
                continue
            if ci.name == "BoundaryDomain":
                rep.ok(R, fi.site(), fi.fq, f"{attr} survives partial evaluation", "boundary objects are re-derived from the evaluated domain")
                continue
            carried = attr in src or setter in src
            rep.check(R, carried, fi.site(), fi.fq, f"`{attr}` (written by {setter}) is carried over to the evaluated domain",
                      f"{ci.name}.__call__ never mentions {attr} / {setter}", f"{attr} dropped")
            if carried:
                # what is carried over is the user's function *evaluated at the fixed values*: the evaluated domain no longer declares those variables
                vals = [n.value for n in ast.walk(fi.node) if isinstance(n, ast.Assign) and any(isinstance(t, ast.Attribute) and t.attr == attr for t in n.targets)]
                vals += [c.args[0] for c in ast.walk(fi.node) if isinstance(c, ast.Call) and isinstance(c.func, ast.Attribute) and c.func.attr == setter and c.args]
                from ..util import deref, single_defs
                tmp = single_defs(fi.node)
                raw = [dump(v)[:60] for v in vals if "partially_evaluate" not in dump(deref(v, tmp)) and f"self.{attr}" in dump(deref(v, tmp))]
                rep.check(R, not raw, fi.site(), fi.fq, f"the carried `{attr}` is partially evaluated with the data of the call", f"copied unevaluated: {raw[:2]}", f"{attr} carried unevaluated")


def r3_necessary_variables(repo: Repo, rep):
    R = rep.rule("R-C17-3", "necessary_variables: every shape function created in __init__ is registered; sub-domain sets are united into a fresh set; always a `set`",
                 floor=14, why="the declared free variables decide how samplers and products treat the domain; an aliased set is mutated by later operations")
    D = repo.cls(f"{DOM}.domain.Domain")
    for ci in repo.subclasses(D, strict=True):
        init = ci.methods.get("__init__")
        if init is None:
            continue
        info = _ctor_info(repo, ci)
        rep.saw(init)
        _, params, kinds, attr = info
        shape_attrs = sorted({attr.get(q) for q in params if kinds[q] == "shape" and attr.get(q)})
        src_calls = [c for c in ast.walk(init.node) if isinstance(c, ast.Call) and dump(c.func) == "self.set_necessary_variables"]
        if shape_attrs:
            registered = set()
            for c in src_calls:
                for a in c.args:
                    t = dump(a)
                    registered.add(t[5:] if t.startswith("self.") else attr.get(t) or attr.get(attr.get("__local__" + t, ""), t))
            missing = [a for a in shape_attrs if a not in registered]
            rep.check(R, not missing, init.site(), init.fq, f"shape functions {shape_attrs} are passed to set_necessary_variables",
                      f"not registered: {missing}", f"unregistered {missing}")
        # value of self.necessary_variables on every path
        for p in paths(init.node, expand_self=False):
            if p.ret is RAISE:
                continue
            v = p.attrs.get("self.necessary_variables")
            events = [e for e in p.events if e.kind == "call" and isinstance(e.value, ast.Call) and isinstance(e.value.func, ast.Attribute)
                      and dump(e.value.func.value) == "self.necessary_variables"]
            if v is None:
                # set by set_necessary_variables (a fresh set) or by the base constructor
                ok = bool(src_calls) or any(dump(c.func) == "super().__init__" for c in ast.walk(init.node) if isinstance(c, ast.Call))
                if ci.name in ("Domain",):
                    continue
                rep.check(R, ok, init.site(), init.fq, "necessary_variables is initialised", "never assigned in the constructor chain", "uninitialised")
                continue
            t = dump(v)
            is_set = False
            aliased = None
            if isinstance(v, ast.Call) and isinstance(v.func, ast.Attribute) and v.func.attr in ("copy", "union") and "necessary_variables" in dump(v.func.value):
                is_set = True
            elif isinstance(v, ast.BinOp) and isinstance(v.op, (ast.BitOr, ast.Sub)) and "necessary_variables" in t:
                is_set = True
            elif isinstance(v, ast.Call) and attr_chain(v.func) == "set":
                is_set = True
            elif isinstance(v, ast.Set) or isinstance(v, ast.SetComp):
                is_set = True
            elif isinstance(v, ast.Attribute) and v.attr == "necessary_variables":
                is_set = True
                aliased = dump(v)
            if not is_set:
                rep.violation(R, init.site(), init.fq, "necessary_variables is a set", f"assigned `{t}`", f"necessary_variables = {t}")
                continue
            mutated = [dump(e.node) for e in events if e.value.func.attr in ("update", "add", "discard", "remove", "clear", "difference_update", "intersection_update")]
            aug = [dump(e.node) for e in p.events if e.kind == "aug" and dump(e.target).endswith("necessary_variables") or (e.kind == "aug" and "self.necessary_variables" in dump(e.node))]
            if aliased and (mutated or aug):
                rep.violation(R, init.site(), init.fq, "the sub-domain's set is copied before it is extended",
                              f"necessary_variables = {aliased} (same object) and then mutated in place: {(mutated + aug)[0]}", f"alias of {aliased} mutated")
            else:
                rep.ok(R, init.site(), init.fq, "necessary_variables is a (fresh or read-only shared) set", t)
    # order: set_necessary_variables() starts from a fresh set, so sub-domain variables must be united AFTER it
    ops_ = f"{DOM}.domainoperations"
    for mod, cname in (("translate", "Translate"), ("rotate", "Rotate")):
        ci = repo.cls(f"{ops_}.{mod}.{cname}")
        init = ci.methods.get("__init__")
        for p in paths(init.node, expand_self=False):
            if p.ret is RAISE:
                continue
            has_sub = False
            lost = None
            for e in p.events:
                v = e.value
                if e.kind == "attr" and dump(e.target) == "self.necessary_variables" and v is not None and "domain.necessary_variables" in dump(v):
                    has_sub = True
                elif e.kind == "call" and isinstance(v, ast.Call) and dump(v.func) in ("self.necessary_variables.update", "self.necessary_variables.union") and "domain.necessary_variables" in dump(v):
                    has_sub = True
                elif e.kind == "aug" and "necessary_variables" in dump(e.node) and "domain.necessary_variables" in dump(e.node):
                    has_sub = True
                elif e.kind == "call" and isinstance(v, ast.Call) and dump(v.func) == "self.set_necessary_variables":
                    if has_sub:
                        lost = dump(e.node)
                    has_sub = False
            rep.check(R, has_sub and lost is None, init.site(), init.fq, "the inner domain's variables are united after set_necessary_variables (which re-initialises the set)",
                      f"re-initialised by `{lost}` after uniting" if lost else "inner variables not united at the end of the constructor", "order of set_necessary_variables / update")
    # union of sub-domain variables in the operation classes
    ops = f"{DOM}.domainoperations"
    for mod, cname, subs in (("union", "UnionDomain", ("domain_a", "domain_b")), ("cut", "CutDomain", ("domain_a", "domain_b")),
                             ("intersection", "IntersectionDomain", ("domain_a", "domain_b")), ("translate", "Translate", ("domain",)), ("rotate", "Rotate", ("domain",))):
        ci = repo.cls(f"{ops}.{mod}.{cname}")
        init = ci.methods.get("__init__")
        src = ast.unparse(init.node)
        missing = [s for s in subs if f"{s}.necessary_variables" not in src]
        rep.check(R, not missing, init.site(), init.fq, f"variables of {subs} are united into necessary_variables", f"missing {missing}", f"missing {missing}")
    pd = repo.cls(f"{ops}.product.ProductDomain")
    init = pd.methods.get("__init__")
    for p in paths(init.node, expand_self=False):
        v = p.attrs.get("self.necessary_variables")
        t = dump(v).replace(" ", "")
        want = "self.domain_a.necessary_variables-self.domain_b.space.variables|self.domain_b.necessary_variables"
        want2 = "(self.domain_a.necessary_variables-self.domain_b.space.variables)|self.domain_b.necessary_variables"
        rep.check(R, t in (want, want2), init.site(), init.fq, "product: (vars(a) - space(b)) ∪ vars(b)", t, t)
    snv = repo.cls(f"{DOM}.domain.Domain").methods.get("set_necessary_variables")
    if snv is not None:
        rep.saw(snv)
        for p in paths(snv.node, expand_self=False):
            v = p.attrs.get("self.necessary_variables")
            va = snv.node.args.vararg.arg if snv.node.args.vararg else (snv.params[1] if len(snv.params) > 1 else "")
            fresh = v is not None and (dump(v) == "set()" or (isinstance(v, ast.SetComp) and dump(v.generators[0].iter) == va and all("necessary_args" in dump(g.iter) for g in v.generators[1:])
                                                             and not any(g.ifs for g in v.generators))
                                       or (isinstance(v, ast.Call) and attr_chain(v.func) == "set" and len(v.args) == 1 and isinstance(v.args[0], (ast.GeneratorExp, ast.ListComp))
                                           and dump(v.args[0].generators[0].iter) == va))
            rep.check(R, fresh, snv.site(), snv.fq, "set_necessary_variables starts from a fresh set()", dump(v), dump(v))
            srcs = sorted({n.attr for n in ast.walk(snv.node) if isinstance(n, ast.Attribute) and n.attr in ("necessary_args", "args", "defaults", "optional_args")})
            rep.check(R, srcs == ["necessary_args"], snv.site(), snv.fq, "the declared free variables are the shape functions' necessary_args (arguments without a bound value)",
                      f"collected from {srcs}", f"collected from {srcs}")
            rep.check(R, p.ret is None, snv.site(), snv.fq, "set_necessary_variables returns nothing (its result must not be assigned)", dump(p.ret), dump(p.ret))


def r4_call_pure(repo: Repo, rep):
    R = rep.rule("R-C17-4", "__call__ leaves the original domain unchanged (no attribute write on self or its sub-objects)", floor=14,
                 why="the original domain must stay usable with other parameter values")
    D = repo.cls(f"{DOM}.domain.Domain")
    for ci in repo.subclasses(D, strict=True):
        fi = ci.methods.get("__call__")
        if fi is None:
            continue
        rep.saw(fi)
        bad = []
        for p in paths(fi.node):
            for e in p.events:
                if e.kind in ("attr", "aug", "store") and e.target is not None and dump(e.target).startswith("self."):
                    bad.append(dump(e.node)[:70])
                if e.kind == "call" and isinstance(e.value, ast.Call) and isinstance(e.value.func, ast.Attribute) and e.value.func.attr in ("set_default", "remove_default", "update", "set_volume", "set_bounding_box") \
                        and dump(e.value.func.value).startswith("self"):
                    bad.append(dump(e.node)[:70])
        bad = sorted(set(bad))
        rep.check(R, not bad, fi.site(), fi.fq, "no write to self in __call__", str(bad[:2]), str(bad[:2]))
    # ProductDomain: symmetric branches (G-SYM) and extracted-but-unused values (G-DEAD)
    pd = repo.cls(f"{DOM}.domainoperations.product.ProductDomain")
    fi = pd.methods.get("__call__")
    ifs = [n for n in ast.walk(fi.node) if isinstance(n, ast.If)]
    for n in ifs:
        t = dump(n.test)
        side = "a" if t.startswith("a_") else "b" if t.startswith("b_") else None
        if side is None:
            continue
        other = "b" if side == "a" else "a"
        body = " ".join(dump(s) for s in n.body)
        wrong = f"self.domain_{other}." in body
        rep.check(R, not wrong, fi.site(n), fi.fq, f"G-SYM: the `{side}` branch only uses domain_{side}", f"the `{side}` branch refers to domain_{other}: {body[:120]}", f"branch {side} uses domain_{other}")
    cp = pd.methods.get("_create_point_data")
    if cp is not None:
        rep.saw(cp)
        for l in [n for n in ast.walk(cp.node) if isinstance(n, ast.For)]:
            taken = [s for s in l.body if isinstance(s, ast.Assign) and isinstance(s.value, ast.Subscript)]
            for s in taken:
                name = dump(s.targets[0])
                container = dump(s.value.value)
                uses = [n for st in l.body for n in ast.walk(st) if isinstance(n, ast.Call) and isinstance(n.func, ast.Attribute) and n.func.attr in ("append", "extend")]
                consumed = [u for u in uses if any(dump(a) == name for a in u.args)]
                whole = [u for u in uses if any(dump(a) == container for a in u.args)]
                rep.check(R, bool(consumed) and not whole, cp.site(s), cp.fq, f"G-DEAD: the extracted value `{name}` is what gets stored",
                          f"`{name}` is only type-tested; the whole container `{container}` is stored instead", f"{container} stored instead of {name}")


def r5_point_data(repo: Repo, rep):
    R = rep.rule("R-C17-5", "the Point replacing a fully fixed product factor takes its coordinates in the order of the factor's space, each looked up by name", floor=2,
                 why="keyword-argument order is the caller's: collecting in that order puts x-values into y-columns")
    from collections import OrderedDict
    from ..absdom.listeval import Evaluator, norm
    from ..absdom.poly import RF
    ci = repo.cls(f"{DOM}.domainoperations.product.ProductDomain")
    fi = ci.methods.get("_create_point_data")
    if fi is None:
        rep.undecided(R, ci.module.relpath, ci.fq, "_create_point_data helper", "vanished: idiom not recognised")
        return
    rep.saw(fi)
    space = OrderedDict((("x", 1), ("y", 1), ("z", 2)))
    X, Y, Z0, Z1, T = (RF.atom(n) for n in ("X", "Y", "Z0", "Z1", "T"))
    for order in (("x", "y", "z", "t"), ("z", "t", "y", "x"), ("y", "x", "t", "z")):
        vals = {"x": X, "y": Y, "z": [Z0, Z1], "t": T}
        data = OrderedDict((k, vals[k]) for k in order)
        fr = Evaluator().run(fi.node.body, {fi.params[1]: OrderedDict(space), fi.params[2]: data, "self": None})
        got = fr.ret
        if not isinstance(got, list):
            rep.undecided(R, fi.site(), fi.fq, f"point data evaluable for keyword order {order}", repr(got)[:80])
            continue
        rep.check(R, norm(got) == norm([X, Y, Z0, Z1]), fi.site(), fi.fq, f"data given in the order {order}: coordinates (x, y, z0, z1) of the space (x, y, z)", str(norm(got)), f"{order}: {norm(got)}")


def r7_product_call(repo: Repo, rep):
    R = rep.rule("R-C17-7", "ProductDomain.__call__ replaces a factor by a Point exactly when every variable of that factor is fixed by the data - for each factor on its own",
                 floor=6, why="fixing both factors in one call must fix both; fixing a part of a factor's variables must leave the factor (partially evaluated) in place")
    from collections import OrderedDict
    from ..absdom.listeval import Evaluator, Obj, Opaque, UNKNOWN
    ci = repo.cls(f"{DOM}.domainoperations.product.ProductDomain")
    fi = ci.methods.get("__call__")
    if fi is None:
        raise AnalysisError("ProductDomain.__call__ vanished")
    rep.saw(fi)
    kw = fi.node.args.kwarg.arg if fi.node.args.kwarg else None
    if kw is None:
        rep.undecided(R, fi.site(), fi.fq, "__call__(**data)", "no ** parameter")
        return
    sa, sb = OrderedDict((("x", 1), ("y", 1))), OrderedDict((("t", 1),))

    def on_call(e, name, args, kws, ev, f):
        args = args or []
        name = name.split(".")[-1] if isinstance(name, str) else name
        if name == "Point":
            return ("Point", tuple((kws.get("space") if "space" in kws else args[0] if args else {}).keys()))
        if name == "ProductDomain":
            a = kws.get("domain_a", args[0] if args else None)
            b = kws.get("domain_b", args[1] if len(args) > 1 else None)
            return ("Product", a, b)
        if name == "_create_point_data":
            return ["pd"]
        if name in ("domain_a", "domain_b"):
            return ("Eval", name)
        return None
    for given in ((), ("t",), ("x",), ("x", "y"), ("y", "x", "t"), ("y", "t"), ("t", "x", "y")):
        data = OrderedDict((k, 0.5) for k in given)
        fr = Evaluator(None, on_call).run(fi.node.body, {"self": Opaque("self"), kw: data},
                                          attrs={"self.domain_a.space": OrderedDict(sa), "self.domain_b.space": OrderedDict(sb),
                                                 "self.domain_a": Obj("self.domain_a", {"space": OrderedDict(sa)}), "self.domain_b": Obj("self.domain_b", {"space": OrderedDict(sb)})})
        got = fr.ret
        label = f"data fixes {list(given)}"
        if not (isinstance(got, tuple) and len(got) == 3 and got[0] == "Product"):
            rep.undecided(R, fi.site(), fi.fq, f"{label}: result evaluable", repr(got)[:80])
            continue
        kind = lambda v: "Point" if isinstance(v, tuple) and v and v[0] == "Point" else "Eval" if isinstance(v, tuple) and v and v[0] == "Eval" else repr(v)[:30]
        want = ("Point" if set(sa) <= set(given) else "Eval", "Point" if set(sb) <= set(given) else "Eval")
        have = (kind(got[1]), kind(got[2]))
        rep.check(R, have == want, fi.site(), fi.fq, f"{label}: factors (x, y) x (t) become {want}", f"{have}", f"{label}: {have}")
        for v, sp in ((got[1], sa), (got[2], sb)):
            if isinstance(v, tuple) and v and v[0] == "Point":
                rep.check(R, tuple(v[1]) == tuple(sp), fi.site(), fi.fq, f"{label}: the Point lives in its factor's space {tuple(sp)}", f"{v[1]}", f"{label}: point space {v[1]}")


def r6_derived_functions(repo: Repo, rep):
    R = rep.rule("R-C17-6", "a shape function class that post-processes the wrapped value in __call__ (angle -> rotation matrix) re-wraps the partially evaluated function in its own class", floor=1,
                 why="the parent's partial evaluation returns the wrapped function's raw value once every argument is bound: the evaluated domain would receive an angle where it expects a matrix")
    duf = repo.cls("utils.user_fun.DomainUserFunction")
    n = 0
    for ci in repo.subclasses(duf, strict=True):
        call = ci.methods.get("__call__")
        if call is None:
            continue
        n += 1
        rep.saw(call)
        pe = ci.methods.get("partially_evaluate")
        if pe is None:
            rep.violation(R, call.site(), ci.fq, "partially_evaluate is overridden together with __call__", "inherited: returns the raw wrapped value", "partially_evaluate inherited")
            continue
        rep.saw(pe)
        for p in paths(pe.node):
            if p.ret is RAISE or p.ret is None:
                continue
            r = p.ret
            ok = isinstance(r, ast.Call) and attr_chain(r.func) in (ci.name, "type(self)", "self.__class__") and r.args and "super().partially_evaluate(" in dump(r.args[0])
            rep.check(R, ok, pe.site(p.ret_node), pe.fq, f"returns {ci.name}(super().partially_evaluate(**args))", dump(r)[:100], dump(r)[:100])
    if n == 0:
        rep.undecided(R, duf.module.relpath, duf.fq, "derived shape-function classes with their own __call__", "none found")


def r9_plot_domains_are_evaluated(repo: Repo, rep):
    R = rep.rule("R-C17-9", "samplers that take a domain together with `data_for_other_variables` store that domain EVALUATED at the data: self.<x> = <domain parameter>(**<data>)", floor=2,
                 why="the stored interval / plot domain still declaring the variable is not `the original evaluated at D = 2`: sampling it without parameters raises `argument D is necessary`")
    for mname, m in repo.modules.items():
        if not mname.endswith(".plot_samplers"):
            continue
        for ci in m.classes.values():
            init = ci.methods.get("__init__")
            if init is None or "data_for_other_variables" not in init.params:
                continue
            doms = [p for p in init.params if p.endswith("_domain")]
            for n in ast.walk(init.node):
                if not (isinstance(n, ast.Assign) and any(isinstance(t, ast.Attribute) and dump(t.value) == "self" for t in n.targets)):
                    continue
                used = [x.id for x in ast.walk(n.value) if isinstance(x, ast.Name) and x.id in doms]
                if not used:
                    continue
                rep.saw(init)
                v = n.value
                ok = isinstance(v, ast.Call) and isinstance(v.func, ast.Name) and v.func.id in doms and any(k.arg is None and "data_for_other_variables" in dump(k.value) for k in v.keywords)
                rep.check(R, ok, init.site(n), init.fq, f"`{used[0]}` is stored evaluated at the data for the other variables", dump(n)[:100], dump(n)[:100])


def r8_unfiltered_data(repo: Repo, rep):
    R = rep.rule("R-C17-8", "whoever evaluates a domain / shape function with a mapping hands over the whole mapping: it is never pre-filtered by necessary_variables / necessary_args "
                 "(optional names - those with a default - are bound by a given value too)", floor=1,
                 why="a radius `def r(t=1.0)` does not list t as necessary: filtering the data to the necessary names evaluates the domain at the default while the points are labelled with the given t")
    from ..util import deref, single_defs
    n = 0
    for mname, m in repo.modules.items():
        if ".problem." not in mname and ".utils." not in mname:
            continue
        funcs = list(m.functions.values()) + [fi for ci in m.classes.values() for fi in ci.methods.values()]
        for fi in funcs:
            tmp = None
            for c in ast.walk(fi.node):
                if not isinstance(c, ast.Call):
                    continue
                stars = [k.value for k in c.keywords if k.arg is None]
                if not stars:
                    continue
                if tmp is None:
                    tmp = single_defs(fi.node)
                for sv in stars:
                    v = deref(sv, tmp)
                    n += 1
                    comps = [x for x in ast.walk(v) if isinstance(x, (ast.DictComp, ast.GeneratorExp, ast.ListComp))]
                    filt = [dump(i)[:60] for x in comps for g in x.generators for i in g.ifs if "necessary_variables" in dump(i) or "necessary_args" in dump(i)]
                    if filt:
                        rep.saw(fi)
                        rep.violation(R, fi.site(c), fi.fq, "the mapping is passed on whole", f"filtered by {filt[0]}", f"{fi.name}: ** mapping filtered by {filt[0]}")
    rep.check(R, n > 0, "src/torchphysics", "-", "calls with a ** mapping examined", f"{n} calls", "no ** call examined")


def run(repo: Repo, rep):
    from .generic import g_arg_constructor_parameters
    g_arg_constructor_parameters(repo, rep, lambda m: ".domains." in m or m.endswith(".user_fun"), floor=25,
                                 why="an evaluated domain rebuilt without one of its constructor arguments denotes another set")
    r7_product_call(repo, rep)
    r8_unfiltered_data(repo, rep)
    r9_plot_domains_are_evaluated(repo, rep)
    r6_derived_functions(repo, rep)
    r5_point_data(repo, rep)
    r1_roundtrip(repo, rep)
    r1b_motion_boundaries(repo, rep)
    r2_setters(repo, rep)
    r3_necessary_variables(repo, rep)
    r4_call_pure(repo, rep)
    from .c13 import r2_r3_mapping  # "the same as supplying the parameters": a value supplied in a parameter row wins over the stored default, as a fixed value does
    r2_r3_mapping(repo, rep)
    from .c13 import r5_copy_on_partial, r6_no_alias, r7_set_default  # partial evaluation of shape functions must not touch the original wrapper and must bind what it is given; re-wrapping (domain constructors, rotation matrices) keeps the values already fixed
    r5_copy_on_partial(repo, rep)
    r6_no_alias(repo, rep)
    r7_set_default(repo, rep)


_U = "src/torchphysics/problem/domains/domainoperations/union.py"
_CU = "src/torchphysics/problem/domains/domainoperations/cut.py"
_RO = "src/torchphysics/problem/domains/domainoperations/rotate.py"
_TR = "src/torchphysics/problem/domains/domainoperations/translate.py"
_CI = "src/torchphysics/problem/domains/domain2D/circle.py"
_IV = "src/torchphysics/problem/domains/domain1D/interval.py"
MUTANTS = [
    dict(id="C17-M8", file=_RO, old="        self.set_necessary_variables(self.rotation_fn, self.rotate_around)\n        self.necessary_variables.update(self.domain.necessary_variables)",
         new="        self.necessary_variables = set(self.domain.necessary_variables)\n        self.set_necessary_variables(self.rotation_fn, self.rotate_around)", rule="R-C17-3", what="inner variables united before the set is re-initialised"),
    dict(id="C17-M1", file=_RO, old="            rotate_around=new_rotate_around,\n        )", new="        )", rule="R-C17-1", what="rotate_around not forwarded"),
    dict(id="C17-M2", file=_CI, old="        return Circle(space=self.space, center=new_center, radius=new_radius)", new="        return Circle(space=self.space, center=new_center, radius=self.radius)", rule="R-C17-1", what="raw radius forwarded"),
    dict(id="C17-M3", file=_TR, old="        new_domain = self.domain(**data)\n        new_translate_fn", new="        new_domain = self.domain\n        new_translate_fn", rule="R-C17-1", what="inner domain not evaluated"),
    dict(id="C17-M4", file=_CI, old="        self.set_necessary_variables(self.radius, self.center)", new="        self.set_necessary_variables(self.radius)", rule="R-C17-3", what="centre not registered"),
    dict(id="C17-M5", file=_CU, old="        self.necessary_variables = domain_a.necessary_variables.copy()\n        self.necessary_variables.update(domain_b.necessary_variables)",
         new="        self.necessary_variables = domain_a.necessary_variables\n        self.necessary_variables |= domain_b.necessary_variables", rule="R-C17-3", what="operand's set aliased and mutated"),
    dict(id="C17-M6", file=_IV, old="        return Interval(\n            space=self.space, lower_bound=new_lower_bound, upper_bound=new_upper_bound\n        )",
         new="        self.lower_bound = new_lower_bound\n        return Interval(\n            space=self.space, lower_bound=new_lower_bound, upper_bound=new_upper_bound\n        )", rule="R-C17-4", what="__call__ overwrites the original"),
    dict(id="C17-M7", file=_U, old="        self.necessary_variables.update(domain_b.necessary_variables)\n\n    def _get_volume", new="\n    def _get_volume", rule="R-C17-3", what="variables of domain_b not united"),
]
TWINS = [
    dict(id="C17-T1", file=_CI, old="        return Circle(space=self.space, center=new_center, radius=new_radius)", new="        return Circle(self.space, new_center, new_radius)", what="positional construction"),
    dict(id="C17-T2", file=_CU, old="        self.necessary_variables = domain_a.necessary_variables.copy()\n        self.necessary_variables.update(domain_b.necessary_variables)",
         new="        self.necessary_variables = domain_a.necessary_variables | domain_b.necessary_variables", what="union expression"),
]

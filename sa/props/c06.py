"""C06 — boundary normals are finite outward unit vectors."""
from __future__ import annotations

import ast
from fractions import Fraction
from typing import Optional

from ..absdom.poly import RF, NotPoly, to_rf
from ..absdom.symtensor import NotSym, SymEval, Vec, binop, reduce_squares
from ..flow import RAISE, attr_chain, dump, kwarg, paths
from ..inline import expand_helpers
from ..repo import AnalysisError, Repo
from ..util import ends
from .c05 import _domain_class_of
from .c10 import shape_atom

EXPLANATION = (
    "Normals are decided structurally and symbolically: on Boolean boundaries the normal is where(on_a, n_a, s*n_b) with on_a the "
    "boundary membership of operand A on the same points and s = -1 exactly for the cut; edge normals of polygons are evaluated "
    "symbolically (in-place column updates modelled) and must be perpendicular to their edge (n·d = 0 as a polynomial identity) and "
    "of unit length (n·n = 1 after substituting norms); radial normals are (p - c)/r; the accumulated polygon normal is "
    "re-normalised; a fixed quarter-turn is outward for one vertex orientation only, so n·(opposite vertex - edge start) must be "
    "sign-definite (orientation factor or vertex order normalised at construction)."
)
ASSUMPTIONS = [
    "points passed to normal() lie on the boundary (as produced by the boundary samplers)",
    "outwardness of the operands' own normals (induction over the expression); NaN at degenerate corners is not decided",
    "trimesh's fix_normals makes face normals outward",
]
DOM = "problem.domains"


def r1_boolean(repo: Repo, rep):
    R = rep.rule("R-C06-1", "union/cut/intersection boundary normal = where(on_a(points), normal_a, s*normal_b), on_a from domain_a.boundary._contains on the same "
                 "points and params, s = -1 exactly for the cut", floor=3,
                 why="on the removed part of a cut the outward direction of A \\\\ B is the inward direction of B; selecting by anything else mixes the operands' normals")
    ops = f"{DOM}.domainoperations"
    for mod, cname, sign in (("union", "UnionBoundaryDomain", 1), ("cut", "CutBoundaryDomain", -1), ("intersection", "IntersectionBoundaryDomain", 1)):
        ci = repo.cls(f"{ops}.{mod}.{cname}")
        fi = ci.methods.get("normal")
        if fi is None:
            raise AnalysisError(f"{cname}.normal vanished")
        rep.saw(fi)
        for p in paths(fi.node):
            if p.ret is RAISE:
                continue
            r = p.ret
            T = "self._transform_input_for_normals(points, params, device)"
            pts, prm = f"{T}[0]", f"{T}[1]"
            mask_txt = f"self.domain.domain_a.boundary._contains({pts}, {prm})"
            m = a = b = None
            if isinstance(r, ast.Call) and attr_chain(r.func) == "torch.where" and len(r.args) == 3:
                m, a, b = r.args
            else:
                # short cuts: the mask is uniform on this path — all(mask): the A branch alone; not any(mask): the B branch alone
                uni = None
                for g, pol, k in p.guards:
                    if k == "if" and isinstance(g, ast.Call) and attr_chain(g.func) in ("torch.all", "torch.any") and g.args and dump(g.args[0]) == mask_txt:
                        if attr_chain(g.func) == "torch.all" and pol:
                            uni = True
                        if attr_chain(g.func) == "torch.any" and not pol:
                            uni = False
                if uni is None:
                    rep.undecided(R, fi.site(p.ret_node), fi.fq, "torch.where(mask, n_a, ±n_b)", dump(r)[:100])
                    continue
                if uni:
                    a = r
                else:
                    b = r
            if m is not None:
                okm = dump(m) == mask_txt
                rep.check(R, okm, fi.site(p.ret_node), fi.fq, "mask = domain_a.boundary._contains(points, params) on the transformed points/params", dump(m)[:140], dump(m)[:140])
            if a is not None:
                oka = dump(a).startswith(f"self.domain.domain_a.boundary.normal({pts}, {prm}")
                rep.check(R, oka, fi.site(p.ret_node), fi.fq, "where the mask holds: the normal of A's boundary at those points", dump(a)[:120], dump(a)[:120])
            if b is None:
                continue
            neg = False
            bb = b
            if isinstance(bb, ast.UnaryOp) and isinstance(bb.op, ast.USub):
                neg, bb = True, bb.operand
            elif isinstance(bb, ast.BinOp) and isinstance(bb.op, ast.Mult) and dump(bb.left) in ("-1", "-1.0"):
                neg, bb = True, bb.right
            elif isinstance(bb, ast.Call) and attr_chain(bb.func) in ("torch.neg", "torch.negative") and bb.args:
                neg, bb = True, bb.args[0]
            okb = dump(bb).startswith(f"self.domain.domain_b.boundary.normal({pts}, {prm}")
            rep.check(R, okb and (neg == (sign == -1)), fi.site(p.ret_node), fi.fq,
                      f"elsewhere: {'-' if sign == -1 else '+'} the normal of B's boundary", dump(b)[:120], ("-" if neg else "+") + dump(bb)[:100])


def _edge_atom(n, ev):
    got = shape_atom(n, ev)
    if got is not None:
        return got
    if isinstance(n, ast.Name) and n.id in ("direction", "dir"):
        return Vec([RF.atom("d.0"), RF.atom("d.1")])
    if isinstance(n, ast.Name) and n.id in ("conect_vector",):
        return Vec([RF.atom("d.0"), RF.atom("d.1")])
    return None


def r2_r3_edges(repo: Repo, rep):
    R2 = rep.rule("R-C06-2", "unit length: edge normals are divided by their norm, the accumulated polygon normal is re-normalised, radial normals are (p - c)/r, "
                  "interval normals are ±1", floor=7, why="a normal that is not of unit length scales every flux / Neumann condition")
    R3 = rep.rule("R-C06-3", "perpendicularity: the edge normal is the edge direction with swapped components and exactly one sign change (n·d = 0 identically)", floor=2,
                  why="negating both or neither component gives a vector along the edge")
    # polygons with stored side normals (shapely): normal() hands out rows of the normalised list, or re-normalises what it combines
    sb = repo.cls(f"{DOM}.domain2D.shapely_polygon.ShapelyBoundary")
    nm = sb.methods.get("normal")
    if nm is None:
        raise AnalysisError("ShapelyBoundary.normal vanished")
    rep.saw(nm)
    for p in paths(nm.node):
        if p.ret is RAISE or p.ret is None:
            continue
        r = p.ret
        while isinstance(r, ast.Call) and isinstance(r.func, ast.Attribute) and r.func.attr in ("to", "float", "clone", "contiguous", "detach"):
            r = r.func.value
        selection = isinstance(r, ast.Subscript) and dump(r.value) == "self.normal_list"
        renorm = isinstance(r, ast.BinOp) and isinstance(r.op, ast.Div) and any(isinstance(c, ast.Call) and (attr_chain(c.func) or "").endswith("norm") for c in ast.walk(r.right))
        rep.check(R2, selection or renorm, nm.site(p.ret_node), nm.fq, "the returned normals are rows of the normalised side list, or a combination divided by its norm",
                  dump(r)[:100], f"combined side normals not re-normalised: {dump(r)[:60]}")
    for mod, cname in (("parallelogram", "ParallelogramBoundary"), ("triangle", "TriangleBoundary")):
        ci = repo.cls(f"{DOM}.domain2D.{mod}.{cname}")
        gd = ci.methods.get("_get_normal_direction")
        if gd is None:
            rep.undecided(R3, ci.module.relpath, ci.fq, "_get_normal_direction helper", "vanished: idiom not recognised")
            continue
        rep.saw(gd)
        dn = gd.params[1]
        for p in paths(gd.node, track_stores=True):
            if p.ret is RAISE or p.ret is None:
                continue

            def atom(n, ev, dn=dn):
                if isinstance(n, ast.Name) and n.id == dn:
                    return Vec([RF.atom("d.0"), RF.atom("d.1")])
                return None
            ev = SymEval(atom)
            try:
                v = ev.ev(p.ret)
            except (NotSym, NotPoly) as err:
                rep.undecided(R3, gd.site(), gd.fq, "edge normal evaluable", str(err))
                continue
            if not isinstance(v, Vec) or len(v) != 2:
                rep.undecided(R3, gd.site(), gd.fq, "edge normal is a 2-vector", repr(v)[:80])
                continue
            d = Vec([RF.atom("d.0"), RF.atom("d.1")])
            dot = v.c[0] * d.c[0] + v.c[1] * d.c[1]
            rep.check(R3, dot == RF.const(0), gd.site(), gd.fq, "n · d == 0", f"n = {v!r}; n·d = {dot!r}", f"n·d = {dot!r}")
            try:
                nn = reduce_squares(v.c[0] * v.c[0] + v.c[1] * v.c[1], ev)
                rep.check(R2, nn == RF.const(1), gd.site(), gd.fq, "n · n == 1", f"n·n = {nn!r}", f"n·n = {nn!r}")
            except (NotSym, NotPoly) as err:
                rep.undecided(R2, gd.site(), gd.fq, "n·n evaluable", str(err))
        nm = ci.methods.get("normal")
        if nm is None:
            raise AnalysisError(f"{cname}.normal vanished")
        rep.saw(nm)
        for p in paths(nm.node):
            if p.ret is RAISE or p.ret is None:
                continue
            r = p.ret
            good = False
            if isinstance(r, ast.Call) and attr_chain(r.func) in ("torch.divide", "torch.div") and len(r.args) == 2:
                num, den = r.args
                good = "torch.linalg.norm(" in dump(den) and dump(num) in dump(den)
            elif isinstance(r, ast.BinOp) and isinstance(r.op, ast.Div):
                good = "torch.linalg.norm(" in dump(r.right) and dump(r.left) in dump(r.right)
            elif isinstance(r, ast.Call) and ends(attr_chain(r.func), "normalize"):
                good = True
            rep.check(R2, good, nm.site(p.ret_node), nm.fq, "returns normals / |normals| (corner contributions re-normalised)", dump(r)[:120], dump(r)[:120])
    # radial normals
    for mod, sub, cname, dim in (("circle", "domain2D", "CircleBoundary", 2), ("sphere", "domain3D", "SphereBoundary", 3)):
        ci = repo.cls(f"{DOM}.{sub}.{mod}.{cname}")
        nm = ci.methods.get("normal")
        if nm is None:
            raise AnalysisError(f"{cname}.normal vanished")
        rep.saw(nm)
        dci = _domain_class_of(repo, ci)
        for p in paths(nm.node):
            if p.ret is RAISE or p.ret is None:
                continue
            e = expand_helpers(repo, ci, p.ret, domain_cls=dci, accept=lambda f: f.name.startswith("_compute"))

            def atom(n, ev, dim=dim):
                got = shape_atom(n, ev)
                if got is not None:
                    return got
                x = n
                while isinstance(x, ast.Call) and isinstance(x.func, ast.Attribute) and x.func.attr in ("reshape", "view"):
                    x = x.func.value
                if isinstance(x, ast.Call) and (attr_chain(x.func) or "").endswith(".center"):
                    return Vec([RF.atom(f"c.{i}") for i in range(dim)])
                if isinstance(x, ast.Attribute) and x.attr == "as_tensor" and isinstance(x.value, ast.Subscript) and "self.space" in dump(x.value.slice):
                    return Vec([RF.atom(f"x.{i}") for i in range(dim)])
                return None
            ev = SymEval(atom)
            try:
                v = ev.ev(e)
                want = Vec([(RF.atom(f"x.{i}") - RF.atom(f"c.{i}")) / RF.atom("r") for i in range(dim)])
                rep.check(R2, v == want, nm.site(p.ret_node), nm.fq, "normal = (x - c) / r (unit on the boundary, outward)", repr(v)[:120], repr(v)[:120])
            except (NotSym, NotPoly) as err:
                rep.undecided(R2, nm.site(p.ret_node), nm.fq, "radial normal evaluable", str(err))
    # interval
    ib = repo.cls(f"{DOM}.domain1D.interval.IntervalBoundary")
    nm = ib.methods.get("normal")
    rep.saw(nm)
    for p in paths(nm.node):
        if p.ret is RAISE or p.ret is None:
            continue
        r = p.ret
        x = r.func.value if isinstance(r, ast.Call) and isinstance(r.func, ast.Attribute) and r.func.attr == "reshape" else r
        good = isinstance(x, ast.Call) and attr_chain(x.func) == "torch.where" and len(x.args) == 3 and dump(x.args[1]) == "-1" and dump(x.args[2]) == "1" and "_check_close_left_right" in dump(x.args[0]) and dump(x.args[0]).endswith("[0]")
        rep.check(R2, good, nm.site(p.ret_node), nm.fq, "normal = -1 at the left end, +1 at the right end", dump(r)[:120], dump(r)[:120])


def r4_orientation(repo: Repo, rep):
    R = rep.rule("R-C06-4", "polygon normals are outward for either vertex orientation: n·(opposite vertex - edge start) is sign-definite "
                 "(orientation factor in the normal, or vertex order normalised at construction)", floor=3,
                 why="a fixed quarter-turn of the edge direction is outward for one orientation of the corners and inward for the other")
    o = Vec([RF.atom("o.0"), RF.atom("o.1")])
    pv = Vec([RF.atom("p.0"), RF.atom("p.1")])
    q = Vec([RF.atom("q.0"), RF.atom("q.1")])
    d1 = binop("-", pv, o)
    other = binop("-", q, o)
    det = d1.c[0] * other.c[1] - d1.c[1] * other.c[0]
    for mod, cname in (("parallelogram", "ParallelogramBoundary"), ("triangle", "TriangleBoundary")):
        ci = repo.cls(f"{DOM}.domain2D.{mod}.{cname}")
        gd = ci.methods.get("_get_normal_direction")
        nm = ci.methods.get("normal")
        if gd is None or nm is None:
            rep.undecided(R, ci.module.relpath, ci.fq, "normal / _get_normal_direction", "vanished")
            continue
        rep.saw(nm)
        # orientation handled anywhere in the normal computation or in the constructor?
        srcs = " ".join(ast.unparse(f.node) for f in ci.methods.values() if f.name in ("normal", "_get_normal_direction", "_add_local_normal_vector", "__init__"))
        dci = _domain_class_of(repo, ci)
        ctor = ast.unparse(dci.methods["__init__"].node) if dci and "__init__" in dci.methods else ""
        handled = any(k in srcs for k in ("torch.sign(", ".sign()", "orientation", "_determinant", "torch.det", "det")) or "orient" in ctor
        dn = gd.params[1]
        verdict = None
        for p in paths(gd.node, track_stores=True):
            if p.ret is RAISE or p.ret is None:
                continue

            def atom(n, ev, dn=dn):
                if isinstance(n, ast.Name) and n.id == dn:
                    return d1
                return None
            ev = SymEval(atom)
            try:
                v = ev.ev(p.ret)
                s = v.c[0] * other.c[0] + v.c[1] * other.c[1]
                # multiply by the (positive) norm to get a polynomial
                nrm = ev.norm_of(d1)
                sp = reduce_squares(s * nrm, ev)
                odd = sp == det or sp == -det
                verdict = (odd, repr(sp))
            except (NotSym, NotPoly, AttributeError) as err:
                verdict = (None, str(err))
        if verdict is None or verdict[0] is None:
            rep.undecided(R, nm.site(), nm.fq, "n·(q - o) evaluable for the first edge", verdict[1] if verdict else "no path")
            continue
        odd, txt = verdict
        # an explicit orientation factor must be the sign of the determinant of the two spanning directions
        wrong_factor = None
        for f in ci.methods.values():
            if f.name not in ("normal", "_get_normal_direction", "_add_local_normal_vector"):
                continue
            for c in ast.walk(f.node):
                arg = None
                if isinstance(c, ast.Call) and attr_chain(c.func) in ("torch.sign", "torch.sgn") and c.args:
                    arg = c.args[0]
                elif isinstance(c, ast.Call) and isinstance(c.func, ast.Attribute) and c.func.attr in ("sign", "sgn") and not c.args and not (attr_chain(c.func) or "").startswith("torch."):
                    arg = c.func.value
                if arg is None:
                    continue
                from ..util import deref, single_defs
                arg = deref(arg, single_defs(f.node))
                free = {x.id for x in ast.walk(arg) if isinstance(x, ast.Name)} - {"torch"}
                if not free or not free <= {"dir_1", "dir_2"}:
                    continue

                def atom2(x, ev):
                    if isinstance(x, ast.Name) and x.id == "dir_1":
                        return d1
                    if isinstance(x, ast.Name) and x.id == "dir_2":
                        return other
                    return None
                try:
                    val = SymEval(atom2).ev(arg)
                    if isinstance(val, Vec) and len(val) == 1:
                        val = val.c[0]
                    if not (val == det or val == -det):
                        wrong_factor = (f, c, repr(val))
                except (NotSym, NotPoly, AttributeError):
                    pass
        if wrong_factor is not None:
            f, c, txt2 = wrong_factor
            rep.violation(R, f.site(c), f.fq, "an orientation factor is sign(det(dir_1, dir_2)) = sign(d1.x*d2.y - d1.y*d2.x)", f"sign of {txt2}", f"orientation factor {txt2}")
            continue
        if odd and not handled:
            rep.violation(R, nm.site(), nm.fq, "n·(q - o) keeps one sign for clockwise and counter-clockwise corners",
                          f"|d|·n·(q - o) = {txt} = ±det(p - o, q - o): changes sign with the vertex orientation, and no orientation factor / vertex re-ordering is applied",
                          "fixed quarter-turn without orientation handling")
        else:
            rep.ok(R, nm.site(), nm.fq, "n·(q - o) keeps one sign for either orientation", f"|d|·n·(q-o) = {txt}; orientation handled = {handled}")
    sh = repo.cls(f"{DOM}.domain2D.shapely_polygon.ShapelyPolygon")
    init = sh.methods.get("__init__")
    rep.saw(init)
    oriented = any(isinstance(c, ast.Call) and ends(attr_chain(c.func), "orient") for c in ast.walk(init.node))
    for p in paths(init.node, expand_self=False):
        if p.ret is RAISE:
            continue
        v = p.attrs.get("self.polygon")
        rep.check(R, v is not None and "orient(" in dump(v), init.site(), init.fq, "shapely polygons are re-oriented at construction (fixed quarter-turn is then outward)", dump(v)[:80], dump(v)[:80])
    r4c_mesh_outward(repo, rep, R)


def r4c_mesh_outward(repo: Repo, rep, R="R-C06-4b"):
    if R == "R-C06-4b":
        R = rep.rule("R-C06-4b", "a triangle mesh is made outward-facing at construction (mesh.fix_normals() on every path)", floor=1,
                     why="a consistently inward-wound mesh has inward normals and a negative signed volume")
    tm = repo.cls(f"{DOM}.domain3D.trimesh_polyhedron.TrimeshPolyhedron")
    init = tm.methods.get("__init__")
    rep.saw(init)
    n_paths = 0
    for p in paths(init.node, expand_self=False):
        if p.ret is RAISE:
            continue
        n_paths += 1
        fixes = [e for e in p.events if e.kind == "call" and isinstance(e.value, ast.Call) and dump(e.value.func) == "self.mesh.fix_normals"]
        uncond = bool(fixes) and all(not any("winding" in dump(g) or "normals" in dump(g) for g, pol, k in e.guards) for e in fixes)
        rep.check(R, uncond, init.site(), init.fq, "mesh.fix_normals() runs on every construction path (also for consistently inverted winding)",
                  f"{len(fixes)} call(s); guards {[dump(g)[:40] for e in fixes for g, pol, k in e.guards][:2]}", "fix_normals conditional/missing")
    # fix_normals repairs the winding through the face adjacency, which exists only after trimesh merged duplicate vertices (its default
    # processing): a mesh built with process=False from independent triangles has no adjacency to repair
    for c in ast.walk(init.node):
        if isinstance(c, ast.Call) and (attr_chain(c.func) or "").endswith("Trimesh"):
            off = [k for k in c.keywords if k.arg in ("process", "merge_vertices") and isinstance(k.value, ast.Constant) and k.value.value is False]
            unknown = [k for k in c.keywords if k.arg in ("process",) and not isinstance(k.value, ast.Constant)]
            if unknown:
                rep.undecided(R, init.site(c), init.fq, "trimesh's vertex merging is left on", dump(c)[:80])
            else:
                rep.check(R, not off, init.site(c), init.fq, "the mesh is built with trimesh's default processing (vertices merged: fix_normals needs the face adjacency)",
                          dump(c)[:100], "processing switched off")


def r5_single_point(repo: Repo, rep):
    R = rep.rule("R-C06-5", "the end-point boundaries of an interval carry their direction as a constructor constant (-1 left, +1 right) that normal() returns and "
                 "partial evaluation forwards", floor=4,
                 why="a direction recomputed from object identity is lost when __call__ re-wraps the bound functions")
    iv = repo.cls(f"{DOM}.domain1D.interval.Interval")
    sb = repo.cls(f"{DOM}.domain1D.interval.IntervalSingleBoundaryPoint")
    for prop, want_side, want_dir in (("boundary_left", "self.lower_bound", -1), ("boundary_right", "self.upper_bound", 1)):
        fi = iv.methods.get(prop)
        if fi is None:
            raise AnalysisError(f"Interval.{prop} vanished")
        rep.saw(fi)
        init = sb.methods.get("__init__")
        default = None
        a = init.node.args
        names = [x.arg for x in a.args]
        if "normal_vec" in names:
            i = names.index("normal_vec") - (len(names) - len(a.defaults))
            if i >= 0:
                default = a.defaults[i]
        for p in paths(fi.node):
            if p.ret is RAISE:
                continue
            r = p.ret
            good = isinstance(r, ast.Call) and ends(attr_chain(r.func), "IntervalSingleBoundaryPoint")
            if good:
                side = kwarg(r, "side", 1)
                nv = kwarg(r, "normal_vec", 2) or default
                good = side is not None and dump(side) == want_side and nv is not None and dump(nv) in (str(want_dir), f"{want_dir}.0")
            rep.check(R, good, fi.site(), fi.fq, f"{prop} = IntervalSingleBoundaryPoint(self, side={want_side}, normal_vec={want_dir})", dump(r)[:120], dump(r)[:120])
    init = sb.methods.get("__init__")
    rep.saw(init)
    for p in paths(init.node, expand_self=False):
        if p.ret is RAISE:
            continue
        v = p.attrs.get("self.normal_vec")
        if v is None:
            rep.violation(R, init.site(), init.fq, "self.normal_vec is set from the constructor argument", "not assigned", "normal_vec unassigned")
        elif dump(v) == "normal_vec":
            rep.ok(R, init.site(), init.fq, "self.normal_vec is set from the constructor argument", "normal_vec")
        elif any(isinstance(n, ast.Compare) and any(isinstance(o, (ast.Is, ast.IsNot)) for o in n.ops) for n in ast.walk(v)):
            rep.violation(R, init.site(), init.fq, "the direction does not depend on object identity", f"self.normal_vec = {dump(v)}", f"identity test: {dump(v)}")
        else:
            rep.undecided(R, init.site(), init.fq, "self.normal_vec is set from the constructor argument", dump(v))
    nm = sb.methods.get("normal")
    rep.saw(nm)
    for p in paths(nm.node):
        if p.ret is RAISE or p.ret is None:
            continue
        t = dump(p.ret)
        rep.check(R, t.endswith("* self.normal_vec") and "torch.ones(" in t, nm.site(), nm.fq, "normal = ones * self.normal_vec", t[:120], t[:120])
    from .c17 import r1_roundtrip
    r1_roundtrip(repo, rep, rule_id="R-C17-1")


def _is_zero(e: ast.AST) -> bool:
    if isinstance(e, ast.Constant):
        return e.value in (0, 0.0) and not isinstance(e.value, bool)
    if isinstance(e, ast.Call) and attr_chain(e.func) in ("torch.zeros_like", "torch.zeros"):
        return True
    if isinstance(e, ast.Call) and attr_chain(e.func) in ("torch.tensor", "torch.as_tensor") and e.args:
        return _is_zero(e.args[0])
    return False


def r6_edge_tests(repo: Repo, rep, records=()):
    R = rep.rule("R-C06-6", "polygon normals detect the edge of a point with the closeness test of the boundary's membership predicate: isclose(coordinate, edge value) with at "
                 "least (and at most 100x) the effective tolerance atol + rtol*|value| of that predicate", floor=5,
                 why="a boundary point the membership test accepts but no edge test matches accumulates no normal: 0/0 = NaN")
    for mod, cname in (("parallelogram", "ParallelogramBoundary"), ("triangle", "TriangleBoundary")):
        ci = repo.cls(f"{DOM}.domain2D.{mod}.{cname}")
        member, normal = [], []
        for mname, fi in ci.methods.items():
            seen = set()
            for p in paths(fi.node):
                for e in p.events:
                    if e.value is None:
                        continue
                    for c in ast.walk(e.value):
                        if isinstance(c, ast.Call) and attr_chain(c.func) == "torch.isclose" and len(c.args) >= 2 and dump(c) not in seen:
                            seen.add(dump(c))
                            (normal if "normal" in mname else member).append((fi, c))
        tol_m = {tuple(sorted((k.arg, dump(k.value)) for k in c.keywords)) for fi, c in member}
        for fi, c in normal:
            rep.saw(fi)
            subj, tgt = c.args[0], c.args[1]
            tol = tuple(sorted((k.arg, dump(k.value)) for k in c.keywords))
            if not records:
                rep.check(R, not tol_m or tol in tol_m, fi.site(c), fi.fq, "same tolerances as the membership predicate of this boundary", f"{tol} vs {sorted(tol_m)}", f"tolerances {tol}")
        # every edge value the membership test accepts within a tolerance is found by normal() within at least that tolerance - and not a
        # coarser one by orders of magnitude (a wider test claims points of the neighbouring edge)
        mine = [r for r in records if r[0] == cname]
        for c0 in sorted({r[2] for r in mine if "_contains" in r[1] and "normal" not in r[1]}):
            em = max(r[3] for r in mine if r[2] == c0 and "_contains" in r[1] and "normal" not in r[1])
            ns = [r for r in mine if r[2] == c0 and "normal" in r[1] and "_contains" not in r[1]]
            if not ns:
                continue  # R-C06-7 decides which values normal() tests
            for r in ns:
                ok = em <= r[3] <= 100 * em
                rep.check(R, ok, r[4].site(r[5]), r[4].fq, f"edge value {c0:g}: tolerance of the membership test ({em:g}) <= tolerance in normal() <= 100x that",
                          f"{r[3]:g}", f"edge value {c0:g}: normal tolerance {r[3]:g} vs membership {em:g}")
        if not normal:
            rep.undecided(R, ci.module.relpath, ci.fq, "isclose edge tests in the normal computation", "none found: idiom not recognised")


class EdgeSet(set):
    """closeness tests {(coordinate, value)} plus, per LINE `coordinate - value = 0` (normalised up to sign), the effective absolute tolerances it is tested with"""

    def __init__(self, *a):
        super().__init__(*a)
        self.lines = {}

    def note(self, subj, value, band):
        from fractions import Fraction
        line = subj - RF.const(Fraction(str(value)))
        neg = RF.const(0) - line
        key = min(repr(line), repr(neg))
        self.lines.setdefault(key, []).append(band)


def _line_key(coord: str, value: float) -> str:
    from fractions import Fraction
    terms = RF.const(0)
    for part in coord.split("+"):
        terms = terms + RF.atom(part.strip())
    line = terms - RF.const(Fraction(str(value)))
    return min(repr(line), repr(RF.const(0) - line))


def _edge_tests(repo, ci, fi):
    """set of (normal form of the tested coordinate over the barycentric pair X, Y; target value) of every isclose reached from `fi`,
    helpers of the class inlined under their call-site bindings; None when something is not understood"""
    from ..flow import subst
    from ..inline import bind_args
    out = EdgeSet()

    def atom(n):
        if isinstance(n, ast.Subscript) and getattr(n, "_tuple_elt", False) and isinstance(n.value, ast.Call) and dump(n.value.func).endswith("_solve_lgs"):
            return RF.atom("X" if n.slice.value == 0 else "Y")
        return None

    def const(n):
        if isinstance(n, ast.Call) and attr_chain(n.func) in ("torch.zeros_like", "torch.zeros"):
            return 0.0
        if isinstance(n, ast.Call) and attr_chain(n.func) in ("torch.ones_like", "torch.ones"):
            return 1.0
        if isinstance(n, ast.Call) and attr_chain(n.func) in ("torch.tensor", "torch.as_tensor") and n.args:
            n = n.args[0]
        if isinstance(n, ast.Constant) and isinstance(n.value, (int, float)) and not isinstance(n.value, bool):
            return float(n.value)
        return None

    def scan(expr, depth=0):
        for c in ast.walk(expr):
            if isinstance(c, ast.Call) and attr_chain(c.func) == "torch.isclose" and len(c.args) >= 2:
                try:
                    subj = to_rf(c.args[0], atom)
                except NotPoly:
                    return False
                t = const(c.args[1])
                if t is None:
                    return False
                out.add((repr(subj), t))
                at, rt = kwarg(c, "atol", 3), kwarg(c, "rtol", 2)
                atol = 1e-8 if at is None else const(at)
                rtol = 1e-5 if rt is None else const(rt)
                out.note(subj, t, None if atol is None or rtol is None else atol + rtol * abs(t))
            # explicit forms of the same test: |x| <= c, |x - v| <= c (also torch.abs / x.abs()), with a small constant c
            if isinstance(c, ast.Compare) and len(c.ops) == 1 and isinstance(c.ops[0], (ast.LtE, ast.Lt, ast.GtE, ast.Gt)):
                small, big = (c.left, c.comparators[0]) if isinstance(c.ops[0], (ast.LtE, ast.Lt)) else (c.comparators[0], c.left)
                inner = None
                if isinstance(small, ast.Call) and (attr_chain(small.func) in ("torch.abs", "abs", "torch.absolute")) and len(small.args) == 1:
                    inner = small.args[0]
                elif isinstance(small, ast.Call) and isinstance(small.func, ast.Attribute) and small.func.attr in ("abs", "absolute") and not small.args:
                    inner = small.func.value
                bound = const(big)
                if inner is not None and bound is not None and bound <= 1e-2:
                    target = 0.0
                    if isinstance(inner, ast.BinOp) and isinstance(inner.op, ast.Sub) and const(inner.right) is not None:
                        inner, target = inner.left, const(inner.right)
                    try:
                        subj = to_rf(inner, atom)
                    except NotPoly:
                        return False
                    out.add((repr(subj), float(target)))
                    out.note(subj, float(target), bound)
        return True

    def visit(fn, env, depth):
        if depth > 3:
            return True
        ok = True
        for p in paths(fn.node):
            if p.ret is RAISE:
                continue
            vals = [e.value for e in p.events if e.value is not None]
            for v in vals:
                v = subst(v, env) if env else v
                ok = scan(v) and ok
                for c in ast.walk(v):
                    if isinstance(c, ast.Call) and isinstance(c.func, ast.Attribute) and dump(c.func.value) == "self" and c.func.attr.startswith("_") and c.func.attr in ci.methods \
                            and ("close" in c.func.attr or "local_normal" in c.func.attr):
                        tgt = ci.methods[c.func.attr]
                        b = bind_args(tgt, c)
                        if b is None:
                            return False
                        ok = visit(tgt, b, depth + 1) and ok
        return ok
    return out if visit(fi, {}, 0) else None


def r7_edge_agreement(repo: Repo, rep):
    from ..absdom.poly import to_rf as _t  # noqa: F401
    R = rep.rule("R-C06-7", "the edge tests of a polygon boundary's normal() are closeness tests to the SAME lines as its membership predicate, with an effective tolerance (atol + rtol*|value|) that "
                 "covers the membership's", floor=2,
                 why="a boundary point the membership accepts but no edge test matches accumulates no normal: 0/0; `1 - x - y` against 0 drops the relative part of the tolerance, which matters unless the absolute part covers it")
    for mod, cname in (("parallelogram", "ParallelogramBoundary"), ("triangle", "TriangleBoundary")):
        ci = repo.cls(f"{DOM}.domain2D.{mod}.{cname}")
        mem, nor = ci.methods.get("_contains"), ci.methods.get("normal")
        if mem is None or nor is None:
            raise AnalysisError(f"{cname}._contains / normal vanished")
        rep.saw(mem), rep.saw(nor)
        a, b = _edge_tests(repo, ci, mem), _edge_tests(repo, ci, nor)
        if not a or not b:
            rep.undecided(R, nor.site(), nor.fq, "edge tests of membership and normal extractable", f"membership {a}, normal {b}")
            continue
        la, lb = set(a.lines), set(b.lines)
        rep.check(R, la == lb, nor.site(), nor.fq, f"normal() tests closeness to exactly the lines {sorted(la)}", f"normal tests {sorted(lb)}", f"{sorted(lb)} vs {sorted(la)}")
        # every point the membership accepts near a line is matched by normal(): its tolerance is not smaller - up to half a float32 step of a
        # barycentric coordinate (no float32 number lies between two bounds that close) - and not coarser by orders of magnitude
        RES = 2.0 ** -24
        for line in sorted(la & lb):
            bm, bn = a.lines[line], b.lines[line]
            if any(x is None for x in bm + bn):
                rep.undecided(R, nor.site(), nor.fq, f"line {line}: constant tolerances", f"membership {bm}, normal {bn}")
                continue
            em, en = max(bm), min(bn)
            rep.check(R, em - RES <= en and max(bn) <= 100 * em, nor.site(), nor.fq, f"line {line} = 0: tolerance in normal() covers that of the membership ({em:g}) and stays within 100x",
                      f"normal tolerance {en:g}", f"line {line}: normal tolerance {en:g} vs membership {em:g}")


EDGE_TABLE = {  # the lines that carry the sides, in barycentric coordinates (X along dir_1, Y along dir_2)
    "ParallelogramBoundary": [("X", 0.0), ("X", 1.0), ("Y", 0.0), ("Y", 1.0)],
    "TriangleBoundary": [("X", 0.0), ("X + Y", 1.0), ("Y", 0.0)],
}


def r9_normal_inputs_keep_their_variables(repo: Repo, rep):
    R = rep.rule("R-C06-9", "the common input preparation of normal() hands the points on with ALL their variables (the shape parameters may travel inside the points): "
                 "it wraps a raw tensor into Points(points, self.space) and otherwise returns the points it was given", floor=1,
                 why="normal() evaluates centre / radius / corners on points.join(params): points sampled on boundary(t) x Interval(t) carry t themselves - cut down to the domain's own columns, the shape functions cannot be evaluated")
    dom = repo.cls(f"{DOM}.domain.Domain")
    fi = repo.resolve_method(repo.cls(f"{DOM}.domain.BoundaryDomain"), "_transform_input_for_normals") or dom.methods.get("_transform_input_for_normals")
    if fi is None:
        raise AnalysisError("_transform_input_for_normals vanished")
    rep.saw(fi)
    pname = fi.params[1]
    for p in paths(fi.node):
        if p.ret is RAISE:
            continue
        r = p.ret
        first = r.elts[0] if isinstance(r, ast.Tuple) and r.elts else r
        # every value the points name took on this path
        vals = [e.value for e in p.events if e.kind == "assign" and e.target is not None and dump(e.target) == pname and e.value is not None]
        vals.append(first)
        bad = [v for v in vals if any(isinstance(x, ast.Subscript) and isinstance(x.value, ast.Name) and x.value.id == pname for x in ast.walk(v))]
        shown = "; ".join(dump(v)[:70] for v in bad)
        rep.check(R, not bad, fi.site(p.ret_node), fi.fq, "no selection of columns / variables from the points", shown, shown)


def r7b_edge_table(repo: Repo, rep):
    R = rep.rule("R-C06-7b", "boundary membership of parallelogram / triangle tests closeness to exactly the lines that carry its sides "
                 "(parallelogram: X = 0, X = 1, Y = 0, Y = 1; triangle: X = 0, Y = 0, X + Y = 1)", floor=2,
                 why="a triangle tested with the parallelogram's helper also accepts X = 1 and Y = 1: points on those lines are outside the triangle")
    for mod, cname in (("parallelogram", "ParallelogramBoundary"), ("triangle", "TriangleBoundary")):
        ci = repo.cls(f"{DOM}.domain2D.{mod}.{cname}")
        mem = ci.methods.get("_contains")
        if mem is None:
            raise AnalysisError(f"{cname}._contains vanished")
        rep.saw(mem)
        got = _edge_tests(repo, ci, mem)
        if not got:
            rep.undecided(R, mem.site(), mem.fq, "edge tests of the membership extractable", "none")
            continue
        want = sorted(_line_key(c, v) for c, v in EDGE_TABLE[cname])
        rep.check(R, sorted(got.lines) == want, mem.site(), mem.fq, f"closeness is tested to exactly the lines {want} (= 0)", f"{sorted(got.lines)}", f"{cname}: {sorted(got.lines)}")


# R-C06-8 ("the side walk accumulates into a zero buffer, the origin is added last") was removed: it was written when the side tests used the
# default atol of 1e-8; since the repair 3e214e0 (atol = 1e-5) the order of the additions no longer decides whether the sampler's own points are
# found on a side (both orders lose them only beyond |origin| ~ 200, where (p + o) - o itself is off by more than the tolerance) - the rule fired on a
# change that preserves the property and could not be made sound.


def run(repo: Repo, rep):
    from .c05 import r8_side_tolerance, r14_scale_of_tolerances  # operand selection of Boolean normals is boundary membership: it must accept the sampler's float32 points of shapes of every size
    records = r8_side_tolerance(repo, rep)
    r14_scale_of_tolerances(repo, rep)
    r7_edge_agreement(repo, rep)
    r7b_edge_table(repo, rep)
    r9_normal_inputs_keep_their_variables(repo, rep)
    r6_edge_tests(repo, rep, records)
    r1_boolean(repo, rep)
    r2_r3_edges(repo, rep)
    r4_orientation(repo, rep)
    r5_single_point(repo, rep)
    from .c05 import r1_truth_tables, r7_own_columns  # normals are selected by boundary membership; its Boolean structure must be the set algebra; own coordinates by name; sides found with float32-sized slack
    r1_truth_tables(repo, rep)
    r7_own_columns(repo, rep)
    from .c01 import r1_facts  # normals are promised at the points the boundary samplers return: those must lie on the boundary of the expression
    r1_facts(repo, rep)
    from .c02 import r15_quota_loops  # normals are promised at the returned boundary samples: a rejection loop that gives up returns the zero row, which is on no boundary
    r15_quota_loops(repo, rep)
    from .c05 import r4_cramer  # the side a boundary point lies on is read off its barycentric coordinates: the solve must be exact for triangles of every size
    r4_cramer(repo, rep)
    from .c12 import r6_empty_and_slices  # `points[:, list(space.keys())]` relies on Space[[names]] listing the names in the requested order
    r6_empty_and_slices(repo, rep)


_U = "src/torchphysics/problem/domains/domainoperations/union.py"
_CU = "src/torchphysics/problem/domains/domainoperations/cut.py"
_PA = "src/torchphysics/problem/domains/domain2D/parallelogram.py"
_TR = "src/torchphysics/problem/domains/domain2D/triangle.py"
_CI = "src/torchphysics/problem/domains/domain2D/circle.py"
_TM = "src/torchphysics/problem/domains/domain3D/trimesh_polyhedron.py"
MUTANTS = [
    dict(id="C06-M40", file=_TR, old="torch.isclose(bary_coord, torch.tensor(i), atol=1e-5)", new="torch.isclose(bary_coord, torch.tensor(i))", rule="R-C05-8", what="side lookup of the normal with the default atol"),
    dict(id="C06-M20", file=_TR, old="torch.isclose(bary_coord, torch.tensor(i), atol=1e-5)", new="torch.isclose(bary_coord - i, torch.zeros_like(bary_coord))", rule="R-C06-7", what="shifted difference compared with zero: the default atol of 1e-8 is all that is left"),
    dict(id="C06-M21", file=_PA, old="torch.isclose(bary_y, torch.tensor(i), atol=1e-5)", new="torch.isclose(bary_y, torch.tensor(i), atol=1e-5, rtol=1.0)", rule="R-C06-6", what="other tolerance than the membership test"),
    dict(id="C06-M1", file=_CU, old="        normals = torch.where(on_a, a_normals, -b_normals)", new="        normals = torch.where(on_a, a_normals, b_normals)", rule="R-C06-1", what="cut normals not flipped"),
    dict(id="C06-M2", file=_U, old="        normals = torch.where(on_a, a_normals, b_normals)\n        return normals", new="        normals = torch.where(on_a, a_normals, -b_normals)\n        return normals", rule="R-C06-1", what="union normals flipped"),
    dict(id="C06-M3", file=_PA, old="        return torch.divide(normals, torch.linalg.norm(normals, dim=1).reshape(-1, 1))", new="        return normals", rule="R-C06-2", what="final normalisation removed"),
    dict(id="C06-M4", file=_PA, old="        normal[:, :1] *= -1\n", new="        normal *= -1\n", rule="R-C06-3", what="both components negated"),
    dict(id="C06-M5", file=_TR, old="        normal[:, 1:] *= -1\n", new="", rule="R-C06-3", what="no sign change"),
    dict(id="C06-M6", file=_CI, old="        return torch.divide(normal[:, None], radius).reshape(-1, 2)", new="        return normal.reshape(-1, 2)", rule="R-C06-2", what="radial normal not normalised"),
    dict(id="C06-M7", file=_CU, old="        on_a = self.domain.domain_a.boundary._contains(points, params)\n        normals = torch.where(on_a, a_normals, -b_normals)", new="        on_a = self.domain.domain_b.boundary._contains(points, params)\n        normals = torch.where(on_a, a_normals, -b_normals)", rule="R-C06-1", what="selection by B's boundary"),
    dict(id="C06-M8", file=_TM, old="        self.mesh.fix_normals()\n", new="        if not self.mesh.is_winding_consistent:\n            self.mesh.fix_normals()\n", rule="R-C06-4", what="fix_normals only for inconsistent winding"),
]
TWINS = [
    dict(id="C06-T1", file=_CU, old="        normals = torch.where(on_a, a_normals, -b_normals)", new="        flipped = -1 * b_normals\n        normals = torch.where(on_a, a_normals, flipped)", what="flip via multiplication, temporary"),
    dict(id="C06-T2", file=_PA, old="        normal[:, :1] *= -1\n", new="        normal[:, 0] = -normal[:, 0]\n", what="explicit negation of the first component"),
]

"""C11 — samplers follow their named laws (narrow: the *construction* named by the
mechanism anchors is decided; no distributional statement is).  An algorithm
replacement is reported UNDECIDED, never VIOLATION."""
from __future__ import annotations

import ast
from fractions import Fraction
from typing import List, Optional

from ..absdom.poly import RF, NotPoly
from ..absdom.symtensor import PI, NotSym, SymEval, Vec, binop
from ..flow import RAISE, attr_chain, def_id, dump, kwarg, paths
from ..inline import expand_helpers
from ..repo import AnalysisError, Repo
from ..util import ends
from .c05 import _domain_class_of
from .c10 import shape_atom

EXPLANATION = (
    "The inverse-CDF constructions are extracted symbolically and compared in rational normal form with rational exponents: radial "
    "variate U^(1/dim)*radius, azimuth 2*pi*U, polar angle arccos(2U-1) - pi/2, arclength position U*total_length with total_length the "
    "sum of the side lengths that the perimeter walk consumes, each direction paired with its own length and the directions closing "
    "the polygon, triangle mirror (u,v)->(1-u,1-v) iff u+v>=1, union acceptance in_a or U <= vol_a/(vol_a+vol_b), dependent-product "
    "acceptance max(vol)*U < vol, LHS strata lo + (hi-lo)/n*(i+U_i) with one independent permutation per axis, Gaussian proposals "
    "Normal(mean, std) rejected by membership only."
)
ASSUMPTIONS = [
    "torch.rand is uniform on [0,1), torch.randperm a uniform permutation, torch.distributions.Normal the normal law (trusted)",
    "only the construction is decided: uniformity / evenness as distributional statements are NOT",
]
DOM = "problem.domains"


def _rand_atom(dim_center=2):
    def atom(n, ev):
        got = shape_atom(n, ev)
        if got is not None:
            return got
        return None
    return atom


def _env_expr(p, name):
    return p.env.get(name)


def r1_r2_radial(repo: Repo, rep):
    import re
    from ..absdom.symtensor import reduce_squares
    from .c01 import _prim_atom
    R1 = rep.rule("R-C11-1", "radial variate of disc / ball sampling is U^(1/dim) * radius (|p - c|^2 == r^2 U^(2/dim))", floor=2,
                  why="any other exponent concentrates the points at the centre or the rim")
    R2 = rep.rule("R-C11-2", "azimuth is 2*pi*U; the polar angle of (surface) sphere sampling is arccos(2U - 1) - pi/2; independent uniforms", floor=4,
                  why="a uniform polar angle clusters points at the poles; a shared uniform couples radius and angle")
    specs = [("domain2D.circle", "Circle", 2, True), ("domain3D.sphere", "Sphere", 3, True), ("domain2D.circle", "CircleBoundary", 2, False), ("domain3D.sphere", "SphereBoundary", 3, False)]
    for mod, cname, dim, radial in specs:
        ci = repo.cls(f"{DOM}.{mod}.{cname}")
        dci = _domain_class_of(repo, ci)
        fi = ci.methods.get("sample_random_uniform")
        if fi is None:
            raise AnalysisError(f"{cname}.sample_random_uniform vanished")
        rep.saw(fi)
        for p in paths(fi.node):
            if p.ret is RAISE or p.ret is None:
                continue
            r = p.ret
            val = r.args[0] if isinstance(r, ast.Call) and attr_chain(r.func) == "Points" and r.args else r
            val = expand_helpers(repo, ci, val, domain_cls=dci, accept=lambda f: f.name.startswith("_compute_center"))
            ev = SymEval(_prim_atom(dim))
            try:
                v = ev.ev(val)
                if not (isinstance(v, Vec) and len(v) == dim):
                    rep.undecided(R1 if radial else R2, fi.site(p.ret_node), fi.fq, f"{dim}-vector per row", repr(v)[:80])
                    break
                c = Vec([RF.atom(f"c.{k}") for k in range(dim)])
                d = binop("-", v, c)
                sq = RF.const(0)
                for x in d.c:
                    sq = sq + x * x
                sq = reduce_squares(sq, ev)
            except (NotSym, NotPoly) as err:
                rep.undecided(R1 if radial else R2, fi.site(p.ret_node), fi.fq, "sampled point evaluable", str(err))
                break
            uniforms = sorted(set(ev.fresh.values()))
            rad = RF.atom("r")
            used_radial = None
            if radial:
                ok = False
                for u in uniforms:
                    if sq == rad * rad * RF.atom(u, Fraction(2, dim)):
                        ok, used_radial = True, u
                rep.check(R1, ok, fi.site(p.ret_node), fi.fq, f"|p - c|^2 == r^2 * U^(2/{dim})", f"|p - c|^2 = {sq!r}"[:200], f"{sq!r}"[:160])
            # trigonometric arguments
            args = set()
            for x in d.c:
                for a in x.atoms():
                    m = re.match(r"^(cos|sin)\[(.*)\]$", a)
                    if m:
                        args.add(m.group(2))
            az = {repr(RF.const(2) * PI * RF.atom(u)): u for u in uniforms}
            pol = {repr(RF.atom(f"arccos[{(RF.const(2) * RF.atom(u) - RF.const(1))!r}]") - PI / RF.const(2)): u for u in uniforms}
            used_az = [az[a] for a in args if a in az]
            used_pol = [pol[a] for a in args if a in pol]
            foreign = sorted(a for a in args if a not in az and a not in pol)
            want_pol = 1 if dim == 3 else 0
            ok = len(set(used_az)) == 1 and len(set(used_pol)) == want_pol and not foreign
            distinct = len({u for u in [used_radial] + used_az + used_pol if u}) == (1 if radial else 0) + 1 + want_pol
            rep.check(R2, ok and distinct, fi.site(p.ret_node), fi.fq,
                      "angles: azimuth 2*pi*U" + (", polar arccos(2U-1) - pi/2" if dim == 3 else "") + ", each from its own uniform draw",
                      f"trig arguments {sorted(args)}; uniforms radial={used_radial} azimuth={used_az} polar={used_pol}"[:260], f"{sorted(args)}"[:200])
            break


def r3_arclength(repo: Repo, rep):
    R = rep.rule("R-C11-3", "boundary position = U * total_length; total_length is the sum of the side lengths the walk consumes; each direction is paired with its own "
                 "length, in order, and the directions close the polygon; interval end points are chosen with threshold 1/2", floor=8,
                 why="a side walked with another side's length receives a share of the points that is not proportional to its length")
    for mod, cname, nsides in (("parallelogram", "ParallelogramBoundary", 4), ("triangle", "TriangleBoundary", 3)):
        ci = repo.cls(f"{DOM}.domain2D.{mod}.{cname}")
        tr = ci.methods.get("_transform_interval_to_boundary")
        sc = ci.methods.get("_scale_points_on_side")
        su = ci.methods.get("sample_random_uniform")
        if tr is None or sc is None or su is None:
            rep.undecided(R, ci.module.relpath, ci.fq, "perimeter walk helpers", "vanished: construction replaced")
            continue
        rep.saw(tr), rep.saw(sc), rep.saw(su)
        params = tr.params[1:]
        dirs = [p for p in params if p.startswith("dir")]
        sides = [p for p in params if p.startswith("side")]
        calls = [c for c in ast.walk(tr.node) if isinstance(c, ast.Call) and dump(c.func) == "self._scale_points_on_side"]
        calls.sort(key=lambda c: (c.lineno, c.col_offset))
        loops = [l for l in ast.walk(tr.node) if isinstance(l, (ast.For, ast.While))]
        if loops:
            # walk written as a loop over (direction, length) pairs: unroll literal lists
            seq = []
            for p in paths(tr.node):
                for e in p.events:
                    if e.kind == "call" and isinstance(e.value, ast.Call) and dump(e.value.func) == "self._scale_points_on_side":
                        seq.append((dump(e.value.args[0]), dump(e.value.args[1])))
                break
        else:
            seq = [(dump(c.args[0]), dump(c.args[1])) for c in calls]
        if len(seq) != nsides:
            rep.violation(R, tr.site(), tr.fq, f"{nsides} sides are walked", f"{len(seq)} side(s): {seq}", f"{len(seq)} sides")
            continue
        # pairing: direction ±dir_k with side_k
        bad = []
        total = {}
        for d, s in seq:
            dn = d.lstrip("-")
            k = dirs.index(dn) if dn in dirs else None
            want = sides[k] if k is not None and k < len(sides) else None
            if want is None or s != want:
                bad.append(f"({d}, {s})")
            sign = -1 if d.startswith("-") else 1
            total[dn] = total.get(dn, 0) + sign
        rep.check(R, not bad, tr.site(), tr.fq, "each walked direction is paired with the length of that same side", f"walk {seq}; mismatched {bad}", f"walk {seq}")
        if cname == "ParallelogramBoundary":
            closed = all(v == 0 for v in total.values()) and len(total) == 2
            rep.check(R, closed, tr.site(), tr.fq, "directions close the polygon (d1, d2, -d1, -d2)", f"{seq}", f"dirs {seq}")
        # the caller hands over directions and norms of those directions in the same order
        dci = _domain_class_of(repo, ci)
        for p in paths(su.node):
            if p.ret is RAISE:
                continue
            tc = [e.value for e in p.events if e.kind == "call" and isinstance(e.value, ast.Call) and dump(e.value.func) == "self._transform_interval_to_boundary"]
            if not tc:
                rep.undecided(R, su.site(), su.fq, "perimeter walk called", "not found")
                continue
            c = tc[0]
            flat = []
            for a in c.args:
                if isinstance(a, ast.Starred):
                    # f(*dirs, *lengths, ..): the unpacked value is a tuple display once the helper that built it is expanded
                    v = a.value if isinstance(a.value, (ast.Tuple, ast.List)) else expand_helpers(repo, ci, a.value, domain_cls=dci)
                    if isinstance(v, ast.Subscript) and isinstance(v.value, (ast.Tuple, ast.List)) and isinstance(v.slice, ast.Slice) \
                            and all(x is None or isinstance(x, ast.Constant) for x in (v.slice.lower, v.slice.upper, v.slice.step)):
                        sl = slice(*(None if x is None else x.value for x in (v.slice.lower, v.slice.upper, v.slice.step)))
                        v = ast.Tuple(elts=list(v.value.elts)[sl], ctx=ast.Load())
                    if isinstance(v, (ast.Tuple, ast.List)):
                        flat.extend(v.elts)
                        continue
                flat.append(a)
            args = {prm: a for prm, a in zip(params, flat)}
            ev = SymEval(shape_atom)
            try:
                okn = True
                lens = []
                for dk, sk in zip(dirs, sides):
                    dv = ev.ev(expand_helpers(repo, ci, args[dk], domain_cls=dci))
                    sv = ev.ev(expand_helpers(repo, ci, args[sk], domain_cls=dci))
                    lens.append(sv)
                    if not (isinstance(dv, Vec) and sv == ev.norm_of(dv)):
                        okn = False
                rep.check(R, okn, su.site(), su.fq, "side_k == |dir_k| for every side handed to the walk", "a length does not belong to its direction", "side/dir mismatch")
                bl = ev.ev(expand_helpers(repo, ci, args["bound_location"], domain_cls=dci))
                tot = RF.const(0)
                for (d, s) in seq:
                    tot = tot + lens[sides.index(s)] if s in sides else tot
                us = sorted(a for a in bl.atoms() if a.startswith("U"))
                ok = len(us) == 1 and bl == RF.atom(us[0]) * tot
                rep.check(R, ok, su.site(), su.fq, "bound_location = U * (sum of the walked side lengths)", f"bound_location = {bl!r}; walked length = {tot!r}", f"{bl!r}")
            except (NotSym, NotPoly, KeyError, AttributeError) as err:
                rep.undecided(R, su.site(), su.fq, "arclength position evaluable", str(err))
        # one step of the walk
        pts, loc = sc.params[3], sc.params[4]
        d_, s_ = sc.params[1], sc.params[2]
        for q in paths(sc.node):
            augs = {dump(e.node.target): (e.op, dump(e.value).replace(" ", "")) for e in q.events if e.kind == "aug" and isinstance(e.node, ast.AugAssign)}
            clamp = f"torch.clamp({loc}/{s_},min=0,max=1)"
            okp = augs.get(pts, (None, ""))[0] == "Add" and augs[pts][1] in (f"{clamp}*{d_}.unsqueeze(1)", f"{d_}.unsqueeze(1)*{clamp}")
            okl = augs.get(loc) == ("Sub", s_)
            rep.check(R, okp and okl, sc.site(), sc.fq, "walk step: points += clamp(location/len, 0, 1) * dir; location -= len", str(augs)[:200], str(sorted(augs.items()))[:200])
            break
    ib = repo.cls(f"{DOM}.domain1D.interval.IntervalBoundary")
    fi = ib.methods.get("sample_random_uniform")
    rep.saw(fi)
    for p in paths(fi.node):
        if p.ret is RAISE or p.ret is None:
            continue
        t = dump(p.ret).replace(" ", "")
        ok = "torch.where(torch.rand(" in t and "<0.5,self.domain.lower_bound(" in t and ",self.domain.upper_bound(" in t
        rep.check(R, ok, fi.site(), fi.fq, "left end iff U < 1/2, else right end", t[:140], "interval boundary threshold")


def subst_env(e, p):
    from ..flow import subst
    return subst(e, {k: v for k, v in p.env.items() if isinstance(k, str) and "." not in k})


def r4_mirror(repo: Repo, rep):
    R = rep.rule("R-C11-4", "triangle: barycentric pairs with u + v >= 1 are mirrored to (1 - u, 1 - v), the others kept (also inside the triangles of a triangulated polygon)", floor=3,
                 why="without (or with a wrong) mirror half of the unit-square proposals fall outside / pile up")
    tri = repo.cls(f"{DOM}.domain2D.triangle.Triangle")
    fi = tri.methods.get("_handle_sum_greater_1")
    if fi is None:
        rep.undecided(R, tri.module.relpath, tri.fq, "_handle_sum_greater_1", "vanished: construction replaced")
        return
    rep.saw(fi)
    b = fi.params[2]
    n = 0
    for p in paths(fi.node):
        if p.ret is RAISE:
            continue
        dpath = [pol for g, pol, k in p.guards if dump(g) == fi.params[1]]
        if dpath and dpath[0]:
            continue  # density branch: plain rejection (documented)
        n += 1
        stores = [e for e in p.events if e.kind == "store"]
        good = len(stores) == 1
        if good:
            st = stores[0]
            good = isinstance(st.target, ast.Subscript) and dump(st.target.value) == b and _mirror_mask(st.target.slice, b)
            v = st.value
            good = good and isinstance(v, ast.BinOp) and isinstance(v.op, ast.Sub) and dump(v.right) == dump(st.target) and _all_ones(v.left)
        rep.check(R, good, fi.site(), fi.fq, "bary[u+v >= 1] = (1, 1) - bary[u+v >= 1]", dump(stores[0].node)[:140] if stores else "no store", dump(stores[0].node)[:140] if stores else "")
    if n == 0:
        rep.undecided(R, fi.site(), fi.fq, "a mirroring path", "none")
    r4b_index_provenance(repo, rep, R)
    # the triangles of a triangulated polygon are filled the same way: unit-square pairs, those with u + v > 1 mirrored, then used as they are
    sp = repo.cls(f"{DOM}.domain2D.shapely_polygon.ShapelyPolygon")
    fi = sp.methods.get("_random_points_in_triangle")
    if fi is None:
        rep.undecided(R, sp.module.relpath, sp.fq, "_random_points_in_triangle", "vanished: construction replaced")
        return
    rep.saw(fi)
    for p in paths(fi.node):
        if p.ret is RAISE or p.ret is None:
            continue
        stores = [e for e in p.events if e.kind == "store" and e.raw is not None and isinstance(e.raw.value, ast.Name)]
        good = len(stores) == 1
        detail = dump(stores[0].node)[:120] if stores else "no mirror store"
        if good:
            st = stores[0]
            bname = st.raw.value.id
            v = st.value
            good = _mirror_mask(subst_env(st.raw.slice, p), dump(subst_env(ast.Name(id=bname, ctx=ast.Load()), p)), axes=("1", "-1")) and isinstance(v, ast.BinOp) and isinstance(v.op, ast.Sub) and _all_ones(v.left) \
                and isinstance(v.right, ast.Subscript) and dump(v.right.slice) == dump(st.target.slice)
        rep.check(R, good, fi.site(), fi.fq, "pairs[u+v > 1] = (1, 1) - pairs[u+v > 1]", detail, detail)
        # the multipliers of the two edge vectors are the (mirrored) columns themselves - not rescaled
        mults = []
        for m in ast.walk(p.ret):
            if isinstance(m, ast.BinOp) and isinstance(m.op, ast.Mult):
                for edge, coef in ((m.left, m.right), (m.right, m.left)):
                    if "corners" in dump(edge) and "corners" not in dump(coef):
                        mults.append(coef)
        plain = [isinstance(c, ast.Subscript) and isinstance(c.slice, ast.Tuple) and len(c.slice.elts) == 2 and isinstance(c.slice.elts[1], ast.Slice)
                 and not any(isinstance(x, ast.BinOp) for x in ast.walk(c.value)) for c in mults]
        rep.check(R, len(mults) == 2 and all(plain), fi.site(p.ret_node), fi.fq, "point = corner_0 + u * edge_1 + v * edge_2 with the two columns of the mirrored pairs",
                  f"multipliers {[dump(c)[:50] for c in mults]}", f"multipliers {[dump(c)[:40] for c in mults]}")


def _mask_subject(idx: ast.AST):
    """tensor whose rows an index / mask was computed from: where(sum(Y, ..) ⋄ c) / sum(Y, ..) ⋄ c -> Y"""
    if isinstance(idx, ast.Tuple) and len(idx.elts) == 1:
        idx = idx.elts[0]
    if isinstance(idx, ast.Call) and attr_chain(idx.func) in ("torch.where", "torch.nonzero") and len(idx.args) == 1:
        idx = idx.args[0]
    if isinstance(idx, ast.Compare) and len(idx.ops) == 1:
        for side in (idx.left, idx.comparators[0]):
            if isinstance(side, ast.Call) and attr_chain(side.func) == "torch.sum" and side.args:
                return side.args[0]
    return None


def r4b_index_provenance(repo: Repo, rep, R):
    """an index computed from the rows of one tensor selects rows of THAT tensor"""
    tri = repo.cls(f"{DOM}.domain2D.triangle.Triangle")
    n = 0
    for mname, fi in tri.methods.items():
        for p in paths(fi.node, track_stores=False):
            if p.ret is RAISE:
                continue
            # value of every local *before* each store: replay the events in order
            for e in p.events:
                if e.kind != "store" or e.raw is None or not isinstance(e.raw, ast.Subscript) or not isinstance(e.raw.value, ast.Name):
                    continue
                subj = _mask_subject(e.target.slice if isinstance(e.target, ast.Subscript) else None)
                if subj is None:
                    continue
                n += 1
                base = e.target.value
                same = dump(subj) == dump(base)
                rep.check(R, same, fi.site(e.node), fi.fq, "rows selected by a mask are rows of the tensor the mask was computed from",
                          f"mask from `{dump(subj)[:70]}` applied to `{dump(base)[:70]}`", f"mask of {dump(subj)[:50]} on {dump(base)[:50]}")
    return n


def _mirror_mask(idx: ast.AST, b: str, axes=("2", "-1")) -> bool:
    """index selecting the pairs with u + v >= 1: M, (M,), torch.where(M), torch.where(M)[0] with M = sum(b, last axis) >= 1"""
    if isinstance(idx, ast.Tuple) and len(idx.elts) == 1:
        idx = idx.elts[0]
    if isinstance(idx, ast.Subscript) and isinstance(idx.slice, ast.Constant) and idx.slice.value == 0 and isinstance(idx.value, ast.Call):
        idx = idx.value
    if isinstance(idx, ast.Call) and attr_chain(idx.func) in ("torch.where", "torch.nonzero") and len(idx.args) == 1:
        idx = idx.args[0]
    if not (isinstance(idx, ast.Compare) and len(idx.ops) == 1):
        return False
    l, op, r = idx.left, idx.ops[0], idx.comparators[0]
    if isinstance(op, (ast.LtE, ast.Lt)):
        l, r = r, l
    elif not isinstance(op, (ast.GtE, ast.Gt)):
        return False
    if not (isinstance(r, ast.Constant) and r.value in (1, 1.0)):
        return False
    if not (isinstance(l, ast.Call) and attr_chain(l.func) == "torch.sum" and l.args and dump(l.args[0]) == b):
        return False
    ax = kwarg(l, "dim", 1) or kwarg(l, "axis")
    return ax is not None and dump(ax) in axes


def _all_ones(e: ast.AST) -> bool:
    if isinstance(e, ast.Constant):
        return e.value in (1, 1.0) and not isinstance(e.value, bool)
    if isinstance(e, ast.Call) and attr_chain(e.func) in ("torch.tensor", "torch.as_tensor", "torch.Tensor") and e.args:
        vals = [n.value for n in ast.walk(e.args[0]) if isinstance(n, ast.Constant)]
        only = all(isinstance(n, (ast.List, ast.Tuple, ast.Constant)) for n in ast.walk(e.args[0]) if not isinstance(n, (ast.Load,)))
        return bool(vals) and only and all(v in (1, 1.0) and not isinstance(v, bool) for v in vals)
    if isinstance(e, ast.Call) and attr_chain(e.func) in ("torch.ones", "torch.ones_like"):
        return True
    return False


def r5_r6_mixtures(repo: Repo, rep):
    R5 = rep.rule("R-C11-5", "union: a row takes the A sample iff the B sample lies in A or U <= vol_a / (vol_a + vol_b)", floor=1,
                  why="the mixture weight decides the share of points per operand")
    R6 = rep.rule("R-C11-6", "dependent product: a second-factor point b is accepted iff max(vol) * U < vol(A(b))", floor=1,
                  why="without the volume-weighted acceptance the joint samples are uniform in b instead of uniform on the product set")
    un = repo.cls(f"{DOM}.domainoperations.union.UnionDomain")
    fi = un.methods.get("_sample_random_with_n")
    if fi is None:
        rep.undecided(R5, un.module.relpath, un.fq, "_sample_random_with_n", "vanished")
    else:
        rep.saw(fi)
        for p in paths(fi.node):
            if p.ret is RAISE or p.ret is None:
                continue
            r = p.ret
            w = r.args[0] if isinstance(r, ast.Call) and attr_chain(r.func) == "Points" and r.args else r
            ok = False
            detail = dump(w)[:200]
            if isinstance(w, ast.Call) and attr_chain(w.func) == "torch.where" and len(w.args) == 3:
                m, a, b = w.args
                a_ok = "self.domain_a.sample_random_uniform(" in dump(a) and "self.domain_b.sample_random_uniform(" in dump(b)
                if isinstance(m, ast.Call) and attr_chain(m.func) == "torch.logical_or" and len(m.args) == 2:
                    ina = [x for x in m.args if "self.domain_a._contains(" in dump(x)]
                    cmp = [x for x in m.args if isinstance(x, ast.Compare)]
                    if ina and cmp and "self.domain_b.sample_random_uniform(" in dump(ina[0]):
                        c = cmp[0]
                        lhs, rhs = dump(c.left), c.comparators[0]
                        le = isinstance(c.ops[0], (ast.LtE, ast.Lt))
                        ratio_ok = False
                        if isinstance(rhs, ast.BinOp) and isinstance(rhs.op, ast.Div):
                            num, den = dump(rhs.left), dump(rhs.right)
                            ratio_ok = (num.endswith("[1]") and den.endswith("[0]") and "_get_volume(" in num and isinstance(rhs.left, ast.Subscript)
                                        and isinstance(rhs.right, ast.Subscript) and dump(rhs.left.value) == dump(rhs.right.value))
                        ok = a_ok and le and lhs.startswith("torch.rand(") and ratio_ok
            rep.check(R5, ok, fi.site(p.ret_node), fi.fq, "where(in_a(b_points) or U <= vol_a/vol_total, a_points, b_points)", detail, detail)
        gv = un.methods.get("_get_volume")
        for p in paths(gv.node):
            if isinstance(p.ret, ast.Tuple) and len(p.ret.elts) == 3:
                t = [dump(x) for x in p.ret.elts]
                ok = t[0] in (f"{t[1]} + {t[2]}", f"{t[2]} + {t[1]}") and "domain_a" in t[1] and "domain_b" in t[2]
                rep.check(R5, ok, gv.site(p.ret_node), gv.fq, "(vol_a + vol_b, vol_a, vol_b) in this order", str(t)[:160], str(t)[:160])
    pd = repo.cls(f"{DOM}.domainoperations.product.ProductDomain")
    fi = pd.methods.get("_sample_uniform_b_points")
    if fi is None:
        rep.undecided(R6, pd.module.relpath, pd.fq, "_sample_uniform_b_points", "vanished")
    else:
        rep.saw(fi)
        found = False
        for p in paths(fi.node):
            f = None
            if isinstance(p.ret, ast.Tuple) and len(p.ret.elts) == 3 and isinstance(p.ret.elts[1], ast.Subscript):
                sl = p.ret.elts[1].slice
                f = sl.elts[0] if isinstance(sl, ast.Tuple) else sl
            if f is None or not isinstance(f, ast.Compare):
                continue
            found = True
            ok = False
            if isinstance(f, ast.Compare) and len(f.ops) == 1 and isinstance(f.ops[0], (ast.Lt, ast.LtE)):
                l, r = f.left, f.comparators[0]
                vol = dump(r)
                lt = dump(l).replace(" ", "")
                ok = "self.domain_a.volume(" in vol and lt in (f"torch.max({vol})*torch.rand_like({vol},device=device)".replace(" ", ""), f"torch.max({vol})*torch.rand_like({vol})".replace(" ", ""),
                                                               f"torch.rand_like({vol},device=device)*torch.max({vol})".replace(" ", ""))
                # the volume is evaluated at the sampled b points
                ok = ok and "self.domain_b.sample_random_uniform(" in vol
            rep.check(R6, ok, fi.site(), fi.fq, "filter = max(vol_a(b)) * U < vol_a(b), vol_a evaluated at the sampled b points", dump(f)[:200], dump(f)[:200])
            break
        if not found:
            rep.undecided(R6, fi.site(), fi.fq, "acceptance filter", "not found")
        su = pd.methods.get("sample_random_uniform")
        src = ast.unparse(su.node)
        rep.check(R6, "self._is_constant" in src and "_sample_uniform_b_points" in src, su.site(), su.fq, "the weighted acceptance is used exactly when the first factor depends on the second",
                  "branch on self._is_constant missing", "dispatch")


def r7_lhs(repo: Repo, rep):
    R = rep.rule("R-C11-7", "LHS: per axis n strata lo + (hi - lo)/n * (i + U_i), i = 0..n-1, and an independent random permutation per axis", floor=3,
                 why="a shared permutation puts all points on the diagonal; a wrong stride leaves slabs empty")
    lhs = repo.cls("problem.samplers.random_samplers.LHSSampler")
    fi = lhs.methods.get("_create_lhs_in_bounding_box")
    if fi is None:
        raise AnalysisError("LHSSampler._create_lhs_in_bounding_box vanished")
    rep.saw(fi)
    bb = fi.params[1]
    for p in paths(fi.node):
        if p.ret is RAISE:
            continue
        stores = [e for e in p.events if e.kind == "store"]
        if len(stores) != 1:
            rep.undecided(R, fi.site(), fi.fq, "one column store per axis", f"{len(stores)} stores")
            continue
        st = stores[0]
        axis = [k for k, it in p.loopvars.items() if "range(self.domain.dim)" in dump(it).replace(" ", "")]
        rep.check(R, bool(axis) and st.raw is not None and dump(st.raw).replace(" ", "").endswith(f"[:,{axis[0]}]"),
                  fi.site(st.node), fi.fq, "column i of the result receives axis i", dump(st.raw)[:60] if st.raw is not None else "", dump(st.raw)[:60] if st.raw is not None else "")
        v = st.value
        good = isinstance(v, ast.Subscript) and isinstance(v.slice, ast.Call) and attr_chain(v.slice.func) == "torch.randperm" and dump(v.slice.args[0]) == "self.n_points"
        pid = def_id(v.slice) if good else None
        perm_in_loop = good and any(e.loop >= 1 and e.value is not None and any(def_id(n) == pid for n in ast.walk(e.value)) for e in p.events)
        rep.check(R, good and perm_in_loop, fi.site(st.node), fi.fq, "axis points permuted by a fresh randperm(n) drawn inside the axis loop", dump(v)[-80:], "perm: " + dump(v.slice)[:40] if good else dump(v)[:60])
        if good:
            try:
                val, want = lhs_axis_formula(p, v.value, bb, axis[0] if axis else "i")
                rep.check(R, want is not None and val == want, fi.site(st.node), fi.fq, "axis point i = lo + (hi - lo)/n * (i + U_i)", f"{val!r}", f"{val!r}")
            except (NotSym, NotPoly) as err:
                rep.undecided(R, fi.site(st.node), fi.fq, "stratum formula evaluable", str(err))


def lhs_axis_formula(p, expr, bb, i):
    """symbolic value of the un-permuted axis points: (value, lo + (hi - lo)/n * (I + U)) with I the stratum index"""
    def atom(n, ev, i=i):
        if isinstance(n, ast.Subscript) and dump(n.value) == bb:
            t = dump(n.slice).replace(" ", "")
            if t == f"2*{i}":
                return RF.atom("LO")
            if t in (f"2*{i}+1", f"1+2*{i}"):
                return RF.atom("HI")
            return RF.atom(f"box[{t}]")  # another entry of the box than this axis' bounds
        if isinstance(n, ast.Attribute) and dump(n) == "self.n_points":
            return RF.atom("n")
        if isinstance(n, ast.Call) and attr_chain(n.func) == "torch.arange" and len(n.args) == 1 and dump(n.args[0]) == "self.n_points":
            return RF.atom("I")
        if isinstance(n, ast.Call) and attr_chain(n.func) == "torch.linspace" and len(n.args) >= 2:
            # all nodes of a grid with S points: lo + (hi - lo)/(S - 1) * I
            steps = kwarg(n, "steps", 2)
            if steps is not None:
                lo, hi, S = ev.ev(n.args[0]), ev.ev(n.args[1]), ev.ev(steps)
                return lo + (hi - lo) / (S - RF.const(1)) * RF.atom("I")
            return None
        if isinstance(n, ast.Subscript) and isinstance(n.value, ast.Call) and attr_chain(n.value.func) == "torch.linspace" and dump(n.slice).replace(" ", "") in (":-1", ":self.n_points"):
            c = n.value
            steps = kwarg(c, "steps", 2)
            if steps is not None and dump(steps).replace(" ", "") in ("self.n_points+1", "1+self.n_points"):
                lo, hi = ev.ev(c.args[0]), ev.ev(c.args[1])
                return lo + (hi - lo) / RF.atom("n") * RF.atom("I")  # i-th node of n+1 nodes, last dropped
            return None
        return None
    ev = SymEval(atom)
    val = ev.ev(expr)
    us = sorted(a for a in val.atoms() if a.startswith("U"))
    want = RF.atom("LO") + (RF.atom("HI") - RF.atom("LO")) / RF.atom("n") * (RF.atom("I") + RF.atom(us[0])) if len(us) == 1 else None
    return val, want


def r6b_dependency_flags(repo: Repo, rep):
    R = rep.rule("R-C11-6b", "a product is sampled with the volume-weighted acceptance exactly when the first factor depends on SOME variable of the second factor's space", floor=4,
                 why="classifying a dependent product as constant draws the second factor's points uniformly, whatever the size of the fibre over them")
    from ..absdom.listeval import Evaluator, UNKNOWN, Opaque
    pd = repo.cls(f"{DOM}.domainoperations.product.ProductDomain")
    fi = pd.methods.get("_check_variable_dependencies")
    if fi is None:
        rep.undecided(R, pd.module.relpath, pd.fq, "_check_variable_dependencies", "vanished")
        return
    rep.saw(fi)
    from collections import OrderedDict
    space_a = OrderedDict((("x", 1),))
    space_b = OrderedDict((("t", 1), ("s", 1)))
    for nec_a, want in ((set(), True), ({"t"}, False), ({"s"}, False), ({"t", "s"}, False), ({"u"}, True), ({"t", "u"}, False)):
        def resolve(e, ev, f, nec_a=nec_a):
            t = dump(e).replace(" ", "")
            table = {"self.domain_a.space": space_a, "self.domain_b.space": space_b, "self.domain_a.necessary_variables": set(nec_a), "self.domain_b.necessary_variables": set(),
                     "self.domain_a.space.variables": set(space_a), "self.domain_b.space.variables": set(space_b)}
            if t in table:
                return table[t]
            if t.endswith(".__class__.__name__"):
                return "Domain"
            return None
        fr = Evaluator(resolve).run(fi.node.body, {"self": Opaque("self")})
        got = fr.attrs.get("self._is_constant", UNKNOWN)
        label = f"first factor needs {sorted(nec_a) or 'nothing'}, second factor's space is (t, s)"
        if got is UNKNOWN or not isinstance(got, bool):
            rep.undecided(R, fi.site(), fi.fq, f"_is_constant evaluable ({label})", repr(got)[:60])
            continue
        rep.check(R, got == want, fi.site(), fi.fq, f"{label}: _is_constant == {want}", f"_is_constant = {got}", f"{sorted(nec_a)} -> {got}")


def r8_gaussian(repo: Repo, rep):
    R = rep.rule("R-C11-8", "Gaussian sampler: proposals from Normal(loc=mean, scale=std), rejected by domain membership only", floor=2,
                 why="another law or an extra filter changes the conditional distribution")
    gs = repo.cls("problem.samplers.random_samplers.GaussianSampler")
    fi = gs.methods.get("_sample_points")
    if fi is None:
        raise AnalysisError("GaussianSampler._sample_points vanished")
    rep.saw(fi)
    dists = [c for c in ast.walk(fi.node) if isinstance(c, ast.Call) and ends(attr_chain(c.func), "Normal")]
    good = len(dists) == 1 and dump(kwarg(dists[0], "loc", 0)) == "self.mean" and dump(kwarg(dists[0], "scale", 1)) == "self.std"
    rep.check(R, good, fi.site(), fi.fq, "torch.distributions.Normal(loc=self.mean, scale=self.std)", dump(dists[0])[:100] if dists else "no Normal", dump(dists[0])[:100] if dists else "")
    samples = [c for c in ast.walk(fi.node) if isinstance(c, ast.Call) and isinstance(c.func, ast.Attribute) and c.func.attr in ("sample", "rsample")]
    filters = [dump(c.func) for c in ast.walk(fi.node) if isinstance(c, ast.Call) and dump(c.func) in ("self._check_inside_domain", "self._apply_filter")]
    rep.check(R, len(samples) == 1 and filters == ["self._check_inside_domain"], fi.site(), fi.fq, "one proposal draw per round, filtered by membership only", f"samples {len(samples)}, filters {filters}", str(filters))
    init = gs.methods.get("__init__")
    rep.saw(init)
    for p in paths(init.node, expand_self=False):
        m, s = p.attrs.get("self.mean"), p.attrs.get("self.std")
        rep.check(R, m is not None and dump(m) == "mean" and s is not None and "std" in dump(s), init.site(), init.fq, "mean / std stored from the constructor arguments", f"{dump(m)}, {dump(s)}", f"{dump(m)}|{dump(s)}")
        break


def r9_boundary_grid_shares(repo: Repo, rep):
    from ..absdom.poly import RF, NotPoly, to_rf
    R = rep.rule("R-C11-9", "the rescaled grid requests on the two operand boundaries of a Boolean boundary are in the ratio of the operands' boundary measures", floor=1,
                 why="equal requests give the shorter boundary a denser grid: the spacing differs from piece to piece")
    m = repo.module("problem.domains.domainoperations.sampler_helper")
    fi = m.functions.get("_boundary_grid_with_n")
    if fi is None:
        raise AnalysisError("_boundary_grid_with_n vanished")
    rep.saw(fi)

    def core(e):
        # int(x) + 1, max(int(x), 1), round up / floor wrappers around the real-valued share
        while True:
            if isinstance(e, ast.Call) and attr_chain(e.func) in ("int", "math.ceil", "math.floor", "round", "torch.ceil", "torch.floor") and e.args:
                e = e.args[0]
            elif isinstance(e, ast.Call) and attr_chain(e.func) in ("max", "min") and len(e.args) == 2 and any(isinstance(a, ast.Constant) for a in e.args):
                e = e.args[0] if isinstance(e.args[1], ast.Constant) else e.args[1]
            elif isinstance(e, ast.BinOp) and isinstance(e.op, (ast.Add, ast.Sub)) and isinstance(e.right, ast.Constant):
                e = e.left
            else:
                return e

    def atom(n):
        if isinstance(n, ast.Call) and isinstance(n.func, ast.Attribute) and n.func.attr in ("volume", "_get_volume") and dump(n.func.value) in ("domain_a.boundary", "domain_b.boundary"):
            return RF.atom("A" if "domain_a" in dump(n.func.value) else "B")
        if isinstance(n, ast.Name):
            return RF.atom(n.id)
        if isinstance(n, ast.Call) and attr_chain(n.func) in ("max", "min", "len", "int", "float"):
            return RF.atom(dump(n).replace(" ", "")[:40])
        if isinstance(n, ast.Subscript) and getattr(n, "_tuple_elt", False):
            return RF.atom(f"t{n.slice.value}")
        return None
    decided = 0
    for p in paths(fi.node):
        if p.ret is RAISE or p.ret is None:
            continue
        reqs = {}
        for e in p.events:
            if e.value is None:
                continue
            for c in ast.walk(e.value):
                if isinstance(c, ast.Call) and isinstance(c.func, ast.Attribute) and c.func.attr == "sample_grid" and dump(c.func.value) in ("domain_a.boundary", "domain_b.boundary"):
                    nreq = kwarg(c, "n", 0)
                    if nreq is not None and dump(nreq) != "n":
                        reqs["A" if "domain_a" in dump(c.func.value) else "B"] = nreq
        if set(reqs) != {"A", "B"}:
            continue
        decided += 1
        try:
            ra, rb = to_rf(core(reqs["A"]), atom), to_rf(core(reqs["B"]), atom)
            ok = ra * RF.atom("B") == rb * RF.atom("A")
            detail = f"request on A ~ {ra!r}, on B ~ {rb!r}"
        except NotPoly as err:
            rep.undecided(R, fi.site(), fi.fq, "rescaled requests are rational in the measures", str(err)[:100])
            continue
        rep.check(R, ok, fi.site(), fi.fq, "request_a : request_b == |boundary a| : |boundary b|", detail, detail[:150])
        break
    if decided == 0:
        rep.undecided(R, fi.site(), fi.fq, "a second pass with rescaled requests on both operand boundaries", "not found")


def r11_inside_grid_request(repo: Repo, rep):
    R = rep.rule("R-C11-11", "the second grid of a cut / intersection is requested with the proportional estimate int(n * n / number kept) - no inflation factor: the surplus is cut "
                 "from the END of an ordered grid (decided by evaluating the helper on row-count models for several (n, kept) pairs)", floor=1,
                 why="asking for 20 % more and cutting to n removes the last rows of a lattice / the outer ring of a sunflower grid: those cells stay empty")
    from .c02 import grid_helper_evaluator
    from ..absdom.listeval import NotEval
    evaluate, Need, Loud, Pts, helper = grid_helper_evaluator(repo)
    fi = helper.functions.get("_inside_grid_with_n")
    if fi is None:
        raise AnalysisError("_inside_grid_with_n vanished")
    rep.saw(fi)
    bad, unknown, done = [], None, 0
    for n, kept in ((12, 8), (10, 4), (9, 2), (20, 19), (7, 3), (30, 7)):
        for invert in (False, True):
            first = kept if not invert else n - kept  # rows the membership in b keeps; the helper negates the mask when invert is set
            try:
                fr, zero, req = evaluate(fi, n, [first, 0], {"invert": invert})
            except Need:
                unknown = f"n={n}, kept={kept}: more than two membership tests"
                break
            except (NotEval, Loud, ZeroDivisionError) as ex:
                unknown = f"n={n}, kept={kept}: {ex}"
                break
            grids = [m for tag, meth, m in req if tag == "a" and meth == "sample_grid"]
            if len(grids) < 2 or grids[0] != n:
                unknown = f"n={n}, kept={kept}: grid requests {grids}"
                break
            done += 1
            want = (n * n) // kept
            if grids[1] != want:
                bad.append((n, kept, grids[1], want))
    if unknown is not None and not bad:
        rep.undecided(R, fi.site(), fi.fq, "second grid request evaluable", unknown[:160])
        return
    w = bad[0] if bad else None
    rep.check(R, not bad and done > 0, fi.site(), fi.fq, "second request == int(n^2 / kept) for every instantiated (n, kept)",
              f"n={w[0]}, {w[1]} kept: requests {w[2]} instead of {w[3]}" if w else f"{done} instantiations", f"second request {w[2]} vs {w[3]} (n={w[0]}, kept={w[1]})" if w else "ok")


def r16_sphere_lattice_heights(repo: Repo, rep):
    R = rep.rule("R-C11-16", "the spiral lattice on the sphere surface spaces its points EVENLY IN HEIGHT: one coordinate is an affine function of the point number, the other two are "
                 "sqrt(1 - h^2) * (cos, sin) of the spiral angle (h^2 + a^2 + b^2 == 1)", floor=1,
                 why="bands of equal height have equal area (Archimedes): heights sin(latitude) with evenly spaced latitudes put as many points on the small polar caps as on the equator belt")
    from ..absdom.symtensor import reduce_squares
    from ..util import deref, single_defs
    ci = repo.cls(f"{DOM}.domain3D.sphere.SphereBoundary")
    fi = ci.methods.get("sample_grid")
    if fi is None:
        raise AnalysisError("SphereBoundary.sample_grid vanished")
    rep.saw(fi)
    tmp = single_defs(fi.node)
    joins = [c for c in ast.walk(fi.node) if isinstance(c, ast.Call) and attr_chain(c.func) in ("torch.column_stack", "torch.stack", "torch.cat", "torch.hstack")
             and c.args and isinstance(c.args[0], (ast.Tuple, ast.List)) and len(c.args[0].elts) == 3]
    if not joins:
        rep.undecided(R, fi.site(), fi.fq, "the three coordinate columns are joined in one call", "no such join")
        return

    def atom(n, ev=None):
        if isinstance(n, ast.Call) and attr_chain(n.func) in ("torch.arange", "np.arange", "range"):
            return RF.atom("IDX")
        if isinstance(n, ast.Call) and attr_chain(n.func) in ("max", "min", "float", "int"):
            return RF.atom("M")
        if isinstance(n, ast.Name) and n.id in fi.params:
            return RF.atom(n.id)
        if isinstance(n, ast.Call) and attr_chain(n.func) in ("np.sqrt", "math.sqrt") and n.args and isinstance(n.args[0], ast.Constant):
            return RF.atom(f"sqrt{n.args[0].value}")
        return None
    import copy

    def last_defs(before):
        # straight-line code: the value a temporary holds at the join is its last assignment above it (parameters stay symbols)
        out = {}
        for n in ast.walk(fi.node):
            if isinstance(n, ast.Assign) and len(n.targets) == 1 and isinstance(n.targets[0], ast.Name) and n.lineno < before and n.targets[0].id not in fi.params:
                if n.targets[0].id not in out or out[n.targets[0].id].lineno < n.lineno:
                    out[n.targets[0].id] = n
        return {k: v.value for k, v in out.items() if not any(isinstance(x, ast.Name) and x.id == k for x in ast.walk(v.value))}
    for j in joins:
        cols = []
        tmp = last_defs(j.lineno)
        sev = SymEval(atom)
        try:
            for c in j.args[0].elts:
                v = sev.ev(deref(c, tmp))
                if not isinstance(v, RF):
                    raise NotSym("column is not a scalar per point")
                cols.append(v)
        except (NotSym, NotPoly) as err:
            rep.undecided(R, fi.site(j), fi.fq, "lattice columns evaluable", str(err)[:80])
            continue
        idx = RF.atom("IDX")
        affine = []
        for k, v in enumerate(cols):
            a = v.coeff_of("IDX")
            rest = v - a * idx
            if "IDX" in v.atoms() and not any("IDX" in t for t in a.atoms()) and not any("IDX" in t for t in rest.atoms()):
                affine.append(k)
        rep.check(R, len(affine) == 1, fi.site(j), fi.fq, "exactly one coordinate is affine in the point number (evenly spaced heights)",
                  f"affine columns {affine}; columns {[repr(c)[:60] for c in cols]}", f"affine columns {affine}")
        if len(affine) == 1:
            sq = RF.const(0)
            for v in cols:
                sq = sq + v * v
            try:
                sq = reduce_squares(sq, sev)
            except (NotSym, NotPoly):
                pass
            rep.check(R, sq == RF.const(1), fi.site(j), fi.fq, "the three columns lie on the unit sphere (h^2 + a^2 + b^2 == 1)", repr(sq)[:120], repr(sq)[:100])


def r12_lattice_layout(repo: Repo, rep):
    R = rep.rule("R-C11-12", "a lattice built with torch.stack(torch.meshgrid(..)) is flattened to rows only after the coordinate axis (axis 0 of the stack) was moved to the END "
                 "(permute(.., 0) / .T / movedim(0, -1) / stack(dim=-1)): reshape(-1, d) then yields one (x, y, ..) tuple per row", floor=4,
                 why="`.mT` swaps only the last two grid axes: reshape(-1, 3) then cuts rows out of ONE coordinate array - 27 rows with 4 distinct points instead of a 3 x 3 x 3 lattice")
    from ..util import deref, single_defs
    n = 0
    for mname, m in repo.modules.items():
        if ".problem.domains." not in mname:
            continue
        funcs = list(m.functions.values()) + [fi for ci in m.classes.values() for fi in ci.methods.values()]
        for fi in funcs:
            if not any(isinstance(c, ast.Call) and attr_chain(c.func) == "torch.meshgrid" for c in ast.walk(fi.node)):
                continue
            tmp = single_defs(fi.node)
            seen_here = False
            for c in ast.walk(fi.node):
                if not (isinstance(c, ast.Call) and isinstance(c.func, ast.Attribute) and c.func.attr in ("reshape", "view") and c.args and dump(c.args[0]) in ("-1", "(-1", ) or
                        (isinstance(c, ast.Call) and isinstance(c.func, ast.Attribute) and c.func.attr in ("reshape", "view") and c.args and isinstance(c.args[0], ast.Tuple) and c.args[0].elts and dump(c.args[0].elts[0]) == "-1")):
                    continue
                recv = deref(c.func.value, tmp)
                if not any(isinstance(x, ast.Call) and attr_chain(x.func) == "torch.meshgrid" for x in ast.walk(recv)):
                    continue
                seen_here = True
                n += 1
                rep.saw(fi)
                # peel operations from the outside in, collecting them; then replay from the stack outwards
                ops, cur = [], recv
                verdict = None
                while True:
                    ch = attr_chain(cur.func) if isinstance(cur, ast.Call) else None
                    if isinstance(cur, ast.Call) and ch == "torch.stack" and cur.args and isinstance(cur.args[0], ast.Call) and attr_chain(cur.args[0].func) == "torch.meshgrid":
                        mg = cur.args[0]
                        k = len(mg.args[0].elts) if len(mg.args) == 1 and isinstance(mg.args[0], (ast.Tuple, ast.List)) else len(mg.args)
                        d = kwarg(cur, "dim", 1)
                        pos = 0 if d is None else (d.value if isinstance(d, ast.Constant) and isinstance(d.value, int) else (-(d.operand.value) if isinstance(d, ast.UnaryOp) and isinstance(d.op, ast.USub) and isinstance(d.operand, ast.Constant) else None))
                        rank = k + 1
                        if pos is None:
                            verdict = (None, "stack axis not constant")
                            break
                        pos %= rank
                        for kind, arg in reversed(ops):
                            if kind == "permute":
                                if len(arg) != rank:
                                    pos = None
                                    break
                                pos = [a % rank for a in arg].index(pos)
                            elif kind == "T":
                                pos = rank - 1 - pos
                            elif kind == "mT":
                                pos = rank - 1 if pos == rank - 2 else rank - 2 if pos == rank - 1 else pos
                            elif kind == "transpose":
                                a, b = arg[0] % rank, arg[1] % rank
                                pos = b if pos == a else a if pos == b else pos
                            elif kind == "movedim":
                                a, b = arg[0] % rank, arg[1] % rank
                                order = [i for i in range(rank) if i != a]
                                order.insert(b, a)
                                pos = order.index(pos)
                        verdict = (pos == rank - 1, f"coordinate axis at position {pos} of {rank} when the rows are cut") if pos is not None else (None, "permutation of another rank")
                        break
                    if isinstance(cur, ast.Attribute) and cur.attr in ("T", "mT"):
                        ops.append((cur.attr, None))
                        cur = cur.value
                        continue
                    if isinstance(cur, ast.Call) and (ch in ("torch.permute", "torch.transpose", "torch.movedim") or (isinstance(cur.func, ast.Attribute) and cur.func.attr in ("permute", "transpose", "movedim", "contiguous", "to", "float"))):
                        name = cur.func.attr
                        fn_form = ch is not None and ch.startswith("torch.")
                        args = cur.args[1:] if fn_form else cur.args
                        inner = cur.args[0] if fn_form else cur.func.value
                        if name in ("contiguous", "to", "float"):
                            cur = inner
                            continue
                        vals = list(args[0].elts) if len(args) == 1 and isinstance(args[0], (ast.Tuple, ast.List)) else list(args)
                        try:
                            nums = [ast.literal_eval(v) for v in vals]
                        except Exception:
                            verdict = (None, f"non-constant axes in {dump(cur)[:50]}")
                            break
                        ops.append((name, nums))
                        cur = inner
                        continue
                    verdict = (None, f"operation {dump(cur)[:60]}")
                    break
                if verdict[0] is None:
                    rep.undecided(R, fi.site(c), fi.fq, "axis bookkeeping of the lattice decidable", verdict[1])
                else:
                    rep.check(R, verdict[0], fi.site(c), fi.fq, "coordinate axis last before reshape(-1, d)", verdict[1], f"lattice flattened with {verdict[1]}")
            if not seen_here:
                n += 1
                rep.undecided(R, fi.site(), fi.fq, "the flattening reshape(-1, d) of the meshgrid lattice", "not found")
    if n == 0:
        rep.undecided(R, "src/torchphysics/problem/domains", "-", "meshgrid lattices", "none found")


def r13_operand_choice(repo: Repo, rep):
    R = rep.rule("R-C11-13", "one-point boundary proposals of a Boolean domain pick the operand boundary at random (in proportion to the measures), not in a fixed order; and the "
                 "fixed-n union sampler selects between its two candidate samples by the volume-ratio draw alone", floor=2,
                 why="always proposing on the first operand's boundary first puts every accepted point there (0 % on the second square of a disjoint union); replacing a b-candidate that "
                     "lies in a by the a-candidate raises P(a) from vol(a)/vol(a ∪ b) to q + (1 - q) p (74.6 % instead of 66.7 % for two half-overlapping squares)")
    from ..util import deref, single_defs
    h = repo.module("problem.domains.domainoperations.sampler_helper")
    fi = h.functions.get("_random_boundary_points_if_n_eq_1")
    if fi is None:
        raise AnalysisError("_random_boundary_points_if_n_eq_1 vanished")
    rep.saw(fi)
    # the index that selects the operand boundary of a proposal
    sel = None
    for c in ast.walk(fi.node):
        if isinstance(c, ast.Call) and isinstance(c.func, ast.Attribute) and c.func.attr == "sample_random_uniform" and isinstance(c.func.value, ast.Subscript) and isinstance(c.func.value.slice, ast.Name):
            sel = c.func.value.slice.id
    if sel is None:
        rep.undecided(R, fi.site(), fi.fq, "proposals drawn from a list of the two operand boundaries indexed by a selector", "idiom not recognised")
    else:
        binds = [a.value for a in ast.walk(fi.node) if isinstance(a, ast.Assign) and any(isinstance(t, ast.Name) and t.id == sel for t in a.targets)]
        random_src = any(isinstance(x, ast.Call) and (attr_chain(x.func) or "").split(".")[-1] in ("rand", "rand_like", "randint", "bernoulli", "multinomial", "random", "choice") for b in binds for x in ast.walk(b))
        fixed = all(isinstance(b, ast.Constant) or (isinstance(b, ast.UnaryOp) and isinstance(b.op, ast.Not) and dump(b.operand) == sel)
                    or (isinstance(b, ast.BinOp) and isinstance(b.op, ast.Sub) and dump(b.left) == "1" and dump(b.right) == sel) for b in binds)
        if random_src:
            rep.ok(R, fi.site(), fi.fq, "operand boundary chosen at random", f"{sel} := {[dump(b)[:40] for b in binds]}")
        elif fixed and binds:
            rep.violation(R, fi.site(), fi.fq, "the operand boundary of a proposal is chosen at random, in proportion to the boundary measures",
                          f"`{sel}` starts at {dump(binds[0])} and alternates: the first operand is always tried first", "fixed alternation starting with the first operand")
        else:
            rep.undecided(R, fi.site(), fi.fq, "selector recognisable as random or as a fixed alternation", f"{[dump(b)[:40] for b in binds]}")
    ci = repo.cls(f"{DOM}.domainoperations.union.UnionDomain")
    f2 = ci.methods.get("_sample_random_with_n")
    if f2 is None:
        raise AnalysisError("UnionDomain._sample_random_with_n vanished")
    rep.saw(f2)
    tmp = single_defs(f2.node)
    wh = [c for c in ast.walk(f2.node) if isinstance(c, ast.Call) and attr_chain(c.func) == "torch.where" and len(c.args) == 3]
    if not wh:
        rep.undecided(R, f2.site(), f2.fq, "row-wise selection torch.where(mask, a-sample, b-sample)", "not found")
        return
    for c in wh:
        m = c.args[0]
        # follow re-bound selector names through every assignment
        texts = [m]
        if isinstance(m, ast.Name):
            texts = [a.value for a in ast.walk(f2.node) if isinstance(a, ast.Assign) and any(isinstance(t, ast.Name) and t.id == m.id for t in a.targets)]
        member = any(isinstance(x, ast.Call) and isinstance(x.func, ast.Attribute) and x.func.attr == "_contains" for t in texts for x in ast.walk(deref(t, tmp)))
        rep.check(R, not member, f2.site(c), f2.fq, "the selection mask is the volume-ratio draw alone (a b-candidate inside a is rejected and redrawn, not swapped for the a-candidate)",
                  "the mask also holds where the b-candidate lies in a: those rows take the a-candidate", "membership of the b-candidate ORed into the selection")


def r14_lattice_aspect(repo: Repo, rep):
    from ..absdom.poly import RF, NotPoly, to_rf
    from ..util import deref, single_defs
    R = rep.rule("R-C11-14", "the barycentric lattice of a parallelogram has its line counts in the ratio of the side lengths (n_1 : n_2 = |dir_1| : |dir_2|, n_1 * n_2 ~ n): "
                 "the first lattice axis multiplies dir_1", floor=1,
                 why="with the ratio inverted a 4 x 1 box gets a 5 x 20 lattice: equal-measure strips across the long side receive no point at all")
    ci = repo.cls(f"{DOM}.domain2D.parallelogram.Parallelogram")
    fi = ci.methods.get("_compute_barycentric_grid")
    if fi is None:
        raise AnalysisError("Parallelogram._compute_barycentric_grid vanished")
    rep.saw(fi)
    tmp = single_defs(fi.node)
    d1, d2 = fi.params[2], fi.params[3]
    mg = [c for c in ast.walk(fi.node) if isinstance(c, ast.Call) and attr_chain(c.func) == "torch.meshgrid"]
    if not mg:
        rep.undecided(R, fi.site(), fi.fq, "torch.meshgrid of the two lattice axes", "not found")
        return
    axes = list(mg[0].args[0].elts) if len(mg[0].args) == 1 and isinstance(mg[0].args[0], (ast.Tuple, ast.List)) else list(mg[0].args)
    if len(axes) != 2:
        rep.undecided(R, fi.site(mg[0]), fi.fq, "two lattice axes", f"{len(axes)}")
        return

    def count_of(axis):
        v = deref(axis, tmp)
        while isinstance(v, ast.Subscript):
            v = v.value
        if not (isinstance(v, ast.Call) and attr_chain(v.func) == "torch.linspace"):
            return None
        steps = kwarg(v, "steps", 2)
        if steps is None:
            return None
        e = deref(steps, tmp)
        # n_k + 2  ->  n_k  ->  int(sqrt(E))  ->  E
        while True:
            if isinstance(e, ast.BinOp) and isinstance(e.op, (ast.Add, ast.Sub)) and isinstance(e.right, ast.Constant):
                e = e.left
            elif isinstance(e, ast.Call) and attr_chain(e.func) in ("int", "round", "math.floor", "math.ceil", "torch.floor", "torch.ceil", "max") and e.args:
                e = e.args[0]
            else:
                break
        if isinstance(e, ast.Call) and attr_chain(e.func) in ("torch.sqrt", "math.sqrt", "np.sqrt") and e.args:
            return e.args[0]
        if isinstance(e, ast.BinOp) and isinstance(e.op, ast.Pow) and dump(e.right) in ("0.5", "1 / 2"):
            return e.left
        return None

    def atom(x):
        if isinstance(x, ast.Call) and (attr_chain(x.func) or "").endswith("linalg.norm") and x.args:
            a = dump(deref(x.args[0], tmp))
            return RF.atom("S1") if a == d1 else RF.atom("S2") if a == d2 else None
        if isinstance(x, ast.Name):
            return RF.atom(x.id)
        return None
    e1, e2 = count_of(axes[0]), count_of(axes[1])
    if e1 is None or e2 is None:
        rep.undecided(R, fi.site(), fi.fq, "line counts of the form int(sqrt(E)) (+ constant)", f"{dump(axes[0])[:40]} / {dump(axes[1])[:40]}")
        return
    try:
        E1, E2 = to_rf(deref(e1, tmp), atom), to_rf(deref(e2, tmp), atom)
    except NotPoly as err:
        rep.undecided(R, fi.site(), fi.fq, "line counts rational in n and the side lengths", str(err)[:100])
        return
    n_, S1, S2 = RF.atom(fi.params[1]), RF.atom("S1"), RF.atom("S2")
    ok = E1 * E2 == n_ * n_ and E1 * S2 * S2 == E2 * S1 * S1
    rep.check(R, ok, fi.site(), fi.fq, "n_1^2 = n |dir_1| / |dir_2| and n_2^2 = n |dir_2| / |dir_1| (first axis along dir_1)", f"n_1^2 = {E1!r}, n_2^2 = {E2!r} (S1 = |dir_1|, S2 = |dir_2|)", f"{E1!r} | {E2!r}")


def r15_boundary_round_shares(repo: Repo, rep):
    from ..absdom.poly import RF, NotPoly, to_rf
    from ..util import deref, single_defs
    R = rep.rule("R-C11-15", "random points on a Boolean boundary are requested round by round in the ratio of the two operand boundaries' measures (_compute_boundary_ratio), "
                 "not `whatever is still missing` from the operand whose turn it is", floor=2,
                 why="asking the first operand for all n points leaves only left-overs for the second: a circular hole in a square gets no point (its share should be 28 %)")
    h = repo.module("problem.domains.domainoperations.sampler_helper")
    fi, fr = h.functions.get("_random_points_boundary"), h.functions.get("_compute_boundary_ratio")
    if fi is None or fr is None:
        raise AnalysisError("_random_points_boundary / _compute_boundary_ratio vanished")
    rep.saw(fi), rep.saw(fr)
    seen_req = {}
    for p in paths(fi.node):
        if p.ret is RAISE:
            continue
        for e in p.events:
            if e.value is None:
                continue
            for c in ast.walk(e.value):
                if isinstance(c, ast.Call) and isinstance(c.func, ast.Attribute) and c.func.attr == "sample_random_uniform" and "boundary" in dump(c.func.value):
                    v = kwarg(c, "n", 0)
                    from_ratio = v is not None and any(isinstance(x, ast.Call) and (attr_chain(x.func) or "").endswith("_compute_boundary_ratio") for x in ast.walk(v)) \
                        and isinstance(v, ast.Subscript)
                    key = dump(v)[:80] if v is not None else "None"
                    seen_req.setdefault(key, (from_ratio, c))
    if not seen_req:
        rep.undecided(R, fi.site(), fi.fq, "per-round proposal calls", "none found")
    for key, (from_ratio, c) in seen_req.items():
        rep.check(R, from_ratio, fi.site(c), fi.fq, "the request of a round is the operand's entry of _compute_boundary_ratio(..)", f"n = {key}", f"round request {key[:60]}")
    # the helper's two entries are proportional to the operand boundary measures

    def atom(x):
        if isinstance(x, ast.Call) and isinstance(x.func, ast.Attribute) and x.func.attr in ("volume", "_get_volume"):
            t = dump(x.func.value)
            return RF.atom("A" if "domain_a" in t else "B" if "domain_b" in t else "M")
        if isinstance(x, ast.Name):
            return RF.atom(x.id)
        return None

    def core(e):
        while True:
            if isinstance(e, ast.Call) and attr_chain(e.func) in ("int", "math.ceil", "math.floor", "round", "max") and e.args:
                e = e.args[0]
            elif isinstance(e, ast.BinOp) and isinstance(e.op, (ast.Add, ast.Sub)) and isinstance(e.right, ast.Constant):
                e = e.left
            else:
                return e
    tmp2 = single_defs(fr.node)
    for p in paths(fr.node):
        if p.ret is RAISE or p.ret is None:
            continue
        elts = p.ret.elts if isinstance(p.ret, (ast.List, ast.Tuple)) else None
        if not elts or len(elts) != 2:
            rep.undecided(R, fr.site(), fr.fq, "returns the two requests", dump(p.ret)[:80])
            continue
        try:
            ra, rb = to_rf(core(elts[0]), atom), to_rf(core(elts[1]), atom)
        except NotPoly as err:
            rep.undecided(R, fr.site(), fr.fq, "requests rational in the measures", str(err)[:80])
            continue
        rep.check(R, ra * RF.atom("B") == rb * RF.atom("A"), fr.site(), fr.fq, "request_a : request_b == |boundary a| : |boundary b|", f"{ra!r} vs {rb!r}", f"{ra!r}|{rb!r}")


def r10_weighted_second_factor(repo: Repo, rep):
    R = rep.rule("R-C11-10", "dependent product: every value of the second factor enters through the volume-weighted acceptance (_sample_uniform_b_points), also the ones that fill a shortfall", floor=1,
                 why="values drawn directly from the second factor are uniform in b instead of proportional to the measure of the slice A(b)")
    ci = repo.cls(f"{DOM}.domainoperations.product.ProductDomain")
    fi = ci.methods.get("sample_random_uniform")
    if fi is None:
        raise AnalysisError("ProductDomain.sample_random_uniform vanished")
    rep.saw(fi)
    seen = 0
    for p in paths(fi.node):
        if p.ret is RAISE or p.ret is None:
            continue
        dep = [pol for g, pol, k in p.guards if dump(g) == "self._is_constant"]
        if not dep or dep[0]:
            continue
        seen += 1
        direct = [dump(c)[:70] for e in p.events if e.value is not None for c in ast.walk(e.value)
                  if isinstance(c, ast.Call) and dump(c.func) in ("self.domain_b.sample_random_uniform", "self.domain_b.sample_grid")]
        weighted = any(isinstance(c, ast.Call) and dump(c.func) == "self._sample_uniform_b_points" for e in p.events if e.value is not None for c in ast.walk(e.value))
        rep.check(R, weighted and not direct, fi.site(), fi.fq, "second-factor values come from _sample_uniform_b_points only", f"direct draws {direct[:1]}; weighted acceptance used: {weighted}", f"unweighted draw {direct[:1]}")
        if direct:
            break
    if seen == 0:
        rep.undecided(R, fi.site(), fi.fq, "the dependent branch (not self._is_constant)", "not found")


def run(repo: Repo, rep):
    from .c01 import r2_filtering  # the documented distribution of a filtering sampler is the proposal restricted to the domain: unfiltered or substituted rows follow another law
    r2_filtering(repo, rep)
    from .c18 import r4_r6_motions  # LHS strata are laid out in the box of the moved domain: a wrong box replaces the stratified proposals by plain random ones
    r4_r6_motions(repo, rep)
    r10_weighted_second_factor(repo, rep)
    r9_boundary_grid_shares(repo, rep)
    r11_inside_grid_request(repo, rep)
    r12_lattice_layout(repo, rep)
    r16_sphere_lattice_heights(repo, rep)
    r13_operand_choice(repo, rep)
    r14_lattice_aspect(repo, rep)
    r15_boundary_round_shares(repo, rep)
    from .c10 import r1_r2_formulas  # mixture weights and the acceptance of dependent products use the measures: a signed / wrong volume shifts the point density between members
    r1_r2_formulas(repo, rep)
    r6b_dependency_flags(repo, rep)
    from .c02 import r9_motion_params  # a row's points are the uniformly sampled inner points moved with THAT row's motion
    r9_motion_params(repo, rep)
    r1_r2_radial(repo, rep)
    r3_arclength(repo, rep)
    r4_mirror(repo, rep)
    r5_r6_mixtures(repo, rep)
    r7_lhs(repo, rep)
    r8_gaussian(repo, rep)
    from .c18 import r5_consumers  # LHS strata must be built in the box of the current parameter row
    r5_consumers(repo, rep)
    from .c18 import r15_lhs_per_row_per_axis  # one point per slab of EVERY axis needs independent permutations per axis; strata in the current row's box
    r15_lhs_per_row_per_axis(repo, rep)
    from .c17 import r3_necessary_variables  # declared free variables switch the volume-weighted acceptance of dependent products
    r3_necessary_variables(repo, rep)
    from .c10 import r5d_exclusive_contributions  # a boundary piece kept from both operands receives twice the density of the rest
    r5d_exclusive_contributions(repo, rep)
    from .c10 import r5_density  # uniformity of density-sampled unions: every piece gets ceil(d * measure) points - a doubled piece is twice as dense
    r5_density(repo, rep)


_CI = "src/torchphysics/problem/domains/domain2D/circle.py"
_SP = "src/torchphysics/problem/domains/domain3D/sphere.py"
_PA = "src/torchphysics/problem/domains/domain2D/parallelogram.py"
_TR = "src/torchphysics/problem/domains/domain2D/triangle.py"
_U = "src/torchphysics/problem/domains/domainoperations/union.py"
_P = "src/torchphysics/problem/domains/domainoperations/product.py"
_RS = "src/torchphysics/problem/samplers/random_samplers.py"
_TM = "src/torchphysics/problem/domains/domain3D/trimesh_polyhedron.py"
MUTANTS = [
    dict(id="C11-M60", file=_TM, old="        points = torch.permute(\n            torch.stack(torch.meshgrid(x_axis, y_axis, z_axis)), (3, 2, 1, 0)\n        )", new="        points = torch.stack(torch.meshgrid(x_axis, y_axis, z_axis)).mT", rule="R-C11-12", what="lattice flattened with the coordinate axis first (the repaired defect)"),
    dict(id="C11-M1", file=_CI, old="        r = torch.sqrt(torch.rand((num_of_params, n, 1), device=device))", new="        r = torch.rand((num_of_params, n, 1), device=device)", rule="R-C11-1", what="sqrt dropped"),
    dict(id="C11-M2", file=_SP, old="        r = torch.pow(torch.rand((num_of_params, n, 1), device=device), 1 / 3.0)", new="        r = torch.pow(torch.rand((num_of_params, n, 1), device=device), 1 / 2.0)", rule="R-C11-1", what="exponent 1/2 in the ball"),
    dict(id="C11-M3", file=_SP, old="        theta = torch.arccos(2 * theta - 1) - np.pi / 2.0\n        x = torch.multiply(torch.multiply(r,", new="        theta = torch.arccos(theta) - np.pi / 2.0\n        x = torch.multiply(torch.multiply(r,", rule="R-C11-2", what="arccos(U)"),
    dict(id="C11-M4", file=_TR, old="        total_length = side_1 + side_2 + side_3\n        num_of_params = self.len_of_params(params)\n        points = torch.zeros((num_of_params, n, 2), device=device)\n        bound_location = torch.rand(",
         new="        total_length = side_1 + side_2\n        num_of_params = self.len_of_params(params)\n        points = torch.zeros((num_of_params, n, 2), device=device)\n        bound_location = torch.rand(", rule="R-C11-3", what="total length without one side"),
    dict(id="C11-M5", file=_U, old="        volume_ratio = torch.divide(volume_a, volume_approx)", new="        volume_ratio = torch.divide(volume_approx - volume_a, volume_approx)", rule="R-C11-5", what="mixture ratio of b"),
    dict(id="C11-M6", file=_RS, old="            permutation = torch.randperm(self.n_points)\n            lhs_points[:, i] = axis_points[permutation]\n        return lhs_points",
         new="            lhs_points[:, i] = axis_points[permutation]\n        return lhs_points", rule=None, what="(setup for M7)"),
    dict(id="C11-M8", file=_PA, old="        self._scale_points_on_side(-dir_1, side_1, points, bound_location)\n        self._scale_points_on_side(-dir_2, side_2, points, bound_location)",
         new="        self._scale_points_on_side(-dir_1, side_2, points, bound_location)\n        self._scale_points_on_side(-dir_2, side_1, points, bound_location)", rule="R-C11-3", what="third/fourth side walked with the other length"),
    dict(id="C11-M9", file=_P, old="        filter_ = torch.max(volumes) * torch.rand_like(volumes, device=device) < volumes", new="        filter_ = torch.rand_like(volumes, device=device) < 2.0", rule="R-C11-6", what="acceptance not volume-weighted"),
    dict(id="C11-M10", file=_RS, old="        torch_dis = torch.distributions.normal.Normal(loc=self.mean, scale=self.std)", new="        torch_dis = torch.distributions.normal.Normal(loc=self.mean, scale=self.std**2)", rule="R-C11-8", what="variance passed as scale"),
    dict(id="C11-M11", file=_RS, old="            permutation = torch.randperm(self.n_points)\n            lhs_points[:, i] = axis_points[permutation]", new="            lhs_points[:, i] = axis_points", rule="R-C11-7", what="no permutation: points on the diagonal"),
    dict(id="C11-M12", file=_TR, old="        bary_coords[index] = torch.subtract(\n            torch.tensor([[1.0, 1.0]]), bary_coords[index]\n        )\n        return bary_coords", new="        bary_coords[index] = torch.subtract(\n            torch.tensor([[1.0, 0.0]]), bary_coords[index]\n        )\n        return bary_coords", rule="R-C11-4", what="mirror only in u"),
]
MUTANTS = [m for m in MUTANTS if m["id"] != "C11-M6"]
TWINS = [
    dict(id="C11-T60", file=_TM, old="        points = torch.permute(\n            torch.stack(torch.meshgrid(x_axis, y_axis, z_axis)), (3, 2, 1, 0)\n        )", new="        lattice = torch.stack(torch.meshgrid(x_axis, y_axis, z_axis))\n        points = lattice.permute(3, 2, 1, 0)", what="method form of the permutation through a temporary"),
    dict(id="C11-T1", file=_CI, old="        r = torch.sqrt(torch.rand((num_of_params, n, 1), device=device))", new="        r = torch.rand((num_of_params, n, 1), device=device) ** 0.5", what="** 0.5"),
    dict(id="C11-T2", file=_SP, old="        r = torch.pow(torch.rand((num_of_params, n, 1), device=device), 1 / 3.0)", new="        u = torch.rand((num_of_params, n, 1), device=device)\n        r = u ** (1.0 / 3)", what="temporary, ** (1/3)"),
]

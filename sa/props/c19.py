"""C19 — checkpoints and saved weights restore training exactly (narrow).

Decided: learnable state complete in state_dict (registration), the callbacks save
the right object at the right hook under distinct names without buffering, solver
hooks do not touch optimizer / scheduler state, the dummy data loader does not
depend on the resume position, and an inventory of training-relevant mutable state
that no checkpoint captures.  Not decided: everything Lightning does; bit-exact resume."""
from __future__ import annotations

import ast
from typing import Dict, List, Set

from ..flow import RAISE, attr_chain, def_id, dump, kwarg, paths
from ..repo import AnalysisError, Repo
from ..util import ends

EXPLANATION = (
    "Ownership / effect inventory: every learnable tensor must be registered under the LightningModule (rules of C07); "
    "WeightSaveCallback must pass a state_dict evaluated in the same hook straight to torch.save under three distinct file names, "
    "the minimal-loss file only on improvement with the compared value stored; TrainerStateCheckpoint must forward weights_only and "
    "save at batch_idx % interval == 0; Solver hooks other than configure_optimizers must not write optimizer/scheduler state and "
    "the dummy data loader must not depend on the global step; all plain attributes written during a training step are listed and "
    "must be on a reasoned allow-list or be a recorded finding."
)
ASSUMPTIONS = [
    "pytorch_lightning.Trainer.save_checkpoint / resume restore module state_dict, optimizer and scheduler state (trusted)",
    "sampler caches are excluded by the property's 'deterministic sampling' proviso",
]
CB = "utils.callbacks"


def r1_registration(repo: Repo, rep):
    from .c07 import r2_optimizer, r3_registration
    r2_optimizer(repo, rep)
    r3_registration(repo, rep)


def _saves(fn_node) -> List[ast.Call]:
    return [c for c in ast.walk(fn_node) if isinstance(c, ast.Call) and attr_chain(c.func) == "torch.save"]


def r2_callbacks(repo: Repo, rep):
    R = rep.rule("R-C19-2", "WeightSaveCallback writes self.model.state_dict() (evaluated in that hook) with torch.save at train start (_init), on improved loss (_min_loss) "
                 "and at train end (_final) under distinct names; TrainerStateCheckpoint saves the trainer state every check_interval batches with the configured weights_only",
                 floor=9, why="a buffered or aliased state dict, or a wrong object, makes the file hold other weights than those of the documented step")
    ws = repo.cls(f"{CB}.WeightSaveCallback")
    suffixes = {}
    for hook, flag, suffix in (("on_train_start", "self.save_initial_model", "_init.pt"), ("on_train_batch_start", None, "_min_loss.pt"), ("on_train_end", "self.save_final_model", "_final.pt")):
        fi = ws.methods.get(hook)
        if fi is None:
            rep.violation(R, ws.module.relpath, ws.fq, f"hook {hook} saves the weights", "hook missing", f"{hook} missing")
            continue
        rep.saw(fi)
        saves = []
        seen_ids = set()
        for p in paths(fi.node):
            for e in p.events:
                if e.value is None:
                    continue
                for c in ast.walk(e.value):
                    if isinstance(c, ast.Call) and attr_chain(c.func) == "torch.save":
                        key = (getattr(c, "lineno", 0), dump(c))
                        if key not in seen_ids:
                            seen_ids.add(key)
                            saves.append(c)
        if not saves:
            rep.violation(R, fi.site(), fi.fq, f"{hook} writes the weight file directly", "no torch.save in this hook (buffered / deferred save)", "no torch.save")
            continue
        for c in saves:
            obj = c.args[0] if c.args else None
            pth = c.args[1] if len(c.args) > 1 else kwarg(c, "f")
            rep.check(R, obj is not None and dump(obj) == "self.model.state_dict()", fi.site(c), fi.fq, "saved object is self.model.state_dict() evaluated here", dump(obj)[:80], dump(obj)[:80])
            t = dump(pth) if pth is not None else ""
            rep.check(R, t.endswith(f"'{suffix}'") and "self.path" in t and "self.name" in t, fi.site(c), fi.fq, f"file name path/name{suffix}", t[:80], t[:80])
            suffixes.setdefault(suffix, hook)
        # the saved mapping is the state dict as returned: nothing is added to / removed from it before the save
        for c in _saves(fi.node):
            o = c.args[0] if c.args else None
            if isinstance(o, ast.Name):
                edits = [dump(x)[:60] for x in ast.walk(fi.node) if (isinstance(x, ast.Assign) and any(isinstance(t, ast.Subscript) and dump(t.value) == o.id for t in x.targets))
                         or (isinstance(x, ast.Call) and isinstance(x.func, ast.Attribute) and dump(x.func.value) == o.id and x.func.attr in ("update", "pop", "setdefault", "__setitem__", "clear", "popitem"))
                         or (isinstance(x, ast.Delete) and any(isinstance(t, ast.Subscript) and dump(t.value) == o.id for t in x.targets))]
                rep.check(R, not edits, fi.site(c), fi.fq, "the saved mapping has exactly the keys of model.state_dict() (load_state_dict of a fresh model accepts it)", f"edited before the save: {edits[:1]}",
                          f"{hook}: saved mapping edited {edits[:1]}")
        # no state dict / tensors buffered on self
        buf = [dump(n)[:70] for n in ast.walk(fi.node) if isinstance(n, ast.Assign) and any(isinstance(t, ast.Attribute) and dump(t.value) == "self" for t in n.targets)
               and ("state_dict" in dump(n.value) or "detach" in dump(n.value) or "clone" in dump(n.value))]
        rep.check(R, not buf, fi.site(), fi.fq, "no weights buffered on the callback for a later save", str(buf[:1]), str(buf[:1]))
        for p in paths(fi.node):
            if p.ret is RAISE:
                continue
            did_save = any(e.value is not None and "torch.save(" in dump(e.value) for e in p.events)
            if flag is not None:
                on = [pol for g, pol, k in p.guards if dump(g) == flag]
                if on:
                    rep.check(R, did_save == on[0], fi.site(), fi.fq, f"saves iff {flag}", f"flag={on[0]} saved={did_save}", f"{flag}")
            else:
                # improvement logic
                if did_save:
                    gs = [dump(g).replace(" ", "") for g, pol, k in p.guards if pol]
                    improved = any("trainer.logged_metrics['train/loss']<self.current_loss" in g for g in gs)
                    stored = p.env.get("self.current_loss")
                    ok = improved and stored is not None and dump(stored) == "trainer.logged_metrics['train/loss']"
                    rep.check(R, ok, fi.site(), fi.fq, "min-loss file written only on improvement, and the improved value is remembered", f"guards {gs[:2]}; current_loss := {dump(stored)[:50]}", "min-loss logic")
                    interval = any("self.check_interval" in g and "%" in g for g in gs)
                    rep.check(R, interval, fi.site(), fi.fq, "checks happen every check_interval batches", str(gs[:2])[:160], "interval")
    rep.check(R, len(suffixes) == 3, ws.module.relpath, ws.fq, "three distinct file names (_init, _min_loss, _final)", str(sorted(suffixes)), str(sorted(suffixes)))
    init = ws.methods.get("__init__")
    rep.saw(init)
    for p in paths(init.node, expand_self=False):
        m = p.attrs.get("self.model")
        rep.check(R, m is not None and dump(m) == "model", init.site(), init.fq, "the callback saves the model it was given", dump(m), dump(m))
        cl = p.attrs.get("self.current_loss")
        rep.check(R, cl is not None and dump(cl).replace('"', "'") == "float('inf')", init.site(), init.fq, "best loss starts at +inf", dump(cl), dump(cl))
        break
    ts = repo.cls(f"{CB}.TrainerStateCheckpoint")
    fi = ts.methods.get("on_train_batch_end")
    if fi is None:
        raise AnalysisError("TrainerStateCheckpoint.on_train_batch_end vanished")
    rep.saw(fi)
    n = 0
    for p in paths(fi.node):
        if p.ret is RAISE:
            continue
        calls = [e.value for e in p.events if e.kind == "call" and isinstance(e.value, ast.Call) and dump(e.value.func) == "trainer.save_checkpoint"]
        gs = [(dump(g).replace(" ", ""), pol) for g, pol, k in p.guards]
        due = [pol for g, pol in gs if g == "batch_idx%self.check_interval==0"]
        if not due:
            rep.undecided(R, fi.site(), fi.fq, "guard batch_idx % self.check_interval == 0", str(gs))
            continue
        if due[0]:
            n += 1
            fp = dump(kwarg(calls[0], "filepath", 0)) if calls else ""
            ok = len(calls) == 1 and dump(kwarg(calls[0], "weights_only", 1)) == "self.weights_only" and "self.path" in fp and "self.name" in fp and fp.endswith("'.ckpt'")
            rep.check(R, ok, fi.site(), fi.fq, "trainer.save_checkpoint(path/name.ckpt, weights_only=self.weights_only)", dump(calls[0])[:120] if calls else "no call", dump(calls[0])[:120] if calls else "")
        else:
            rep.check(R, not calls, fi.site(), fi.fq, "no save between the check intervals", str(len(calls)), "extra save")
    # every checkpoint this callback writes (whatever the hook) carries the configured content
    for mname, m2 in ts.methods.items():
        for c in ast.walk(m2.node):
            if isinstance(c, ast.Call) and isinstance(c.func, ast.Attribute) and c.func.attr == "save_checkpoint":
                rep.saw(m2)
                wo = kwarg(c, "weights_only", 1)
                rep.check(R, wo is not None and dump(wo) == "self.weights_only", m2.site(c), m2.fq, "save_checkpoint(.., weights_only=self.weights_only) in every hook", f"weights_only={dump(wo) if wo is not None else None}",
                          f"{mname}: weights_only={dump(wo) if wo is not None else None}")
    init = ts.methods.get("__init__")
    for p in paths(init.node, expand_self=False):
        w = p.attrs.get("self.weights_only")
        rep.check(R, w is not None and dump(w) == "weights_only", init.site(), init.fq, "weights_only stored from the constructor argument", dump(w), dump(w))
        break


OPT_STATE = ("optimizers", "lr_schedulers", "param_groups", "param_group", "load_state_dict", "optimizer_step", "state_dict")


def r4_solver_hooks(repo: Repo, rep):
    R = rep.rule("R-C19-4", "Solver hooks other than configure_optimizers do not write optimizer / scheduler state; the dummy train data loader depends only on trainer.max_steps",
                 floor=6, why="state rewritten in on_train_start runs AFTER Lightning restored the checkpoint and overrides the restored (e.g. decayed) learning rate; "
                 "a loader length that depends on the resume position shifts epoch-based scheduler steps")
    S = repo.cls("solver.Solver")
    for name, fi in S.methods.items():
        if name in ("configure_optimizers", "__init__"):
            continue
        rep.saw(fi)
        bad = []
        for n in ast.walk(fi.node):
            if isinstance(n, ast.Attribute) and n.attr in ("optimizers", "lr_schedulers", "param_groups"):
                bad.append(dump(n)[:50])
            if isinstance(n, (ast.Assign, ast.AugAssign)):
                for t in (n.targets if isinstance(n, ast.Assign) else [n.target]):
                    if isinstance(t, ast.Subscript) and isinstance(t.slice, ast.Constant) and t.slice.value in ("lr", "weight_decay", "momentum", "betas"):
                        bad.append(dump(n)[:60])
        rep.check(R, not bad, fi.site(), fi.fq, "no access to optimizers / schedulers / param groups", str(sorted(set(bad))[:2]), str(sorted(set(bad))[:2]))
    fi = S.methods.get("train_dataloader")
    if fi is None:
        raise AnalysisError("Solver.train_dataloader vanished")
    for p in paths(fi.node):
        if p.ret is RAISE or p.ret is None:
            continue
        r = p.ret
        ds = (r.args[0] if r.args else next((k.value for k in r.keywords if k.arg == "dataset"), None)) if isinstance(r, ast.Call) else None
        ok = isinstance(r, ast.Call) and ends(attr_chain(r.func), "DataLoader") and ds is not None
        size = dump(ds) if ok else ""
        dep = [k for k in ("global_step", "current_epoch", "n_training_step", "batch_idx") if k in size]
        good = ok and size in ("torch.empty(self.trainer.max_steps)", "torch.empty(1000)") and not dep
        rep.check(R, good, fi.site(p.ret_node), fi.fq, "DataLoader(torch.empty(max_steps)) — independent of the resume position", size[:100], size[:100])
    # Lightning restores the loop state (global_step) of a checkpoint after on_fit_start / setup and before on_train_start:
    # the counter must be re-derived in a hook that runs after the restore
    AFTER_RESTORE = ("on_train_start", "on_train_epoch_start", "on_train_batch_start", "training_step")
    from ..util import deref, single_defs
    derive = []
    for name, m in S.methods.items():
        tmp = single_defs(m.node)
        for n in ast.walk(m.node):
            if isinstance(n, ast.Assign) and any(dump(t) == "self.n_training_step" for t in n.targets) and "global_step" in dump(deref(n.value, tmp)):
                derive.append((name, m))
    late = [name for name, m in derive if name in AFTER_RESTORE]
    early = [name for name, m in derive if name not in AFTER_RESTORE]
    rep.check(R, bool(late), S.module.relpath, S.fq, "the step counter is re-derived from trainer.global_step in a hook that runs after the checkpoint was restored "
              f"({', '.join(AFTER_RESTORE)})", f"derived in {early or 'no hook'}" + (" only: global_step is still 0 there when resuming" if early else ""), f"counter derived in {early}")
    ots = S.methods.get("on_train_start")
    if ots is not None:
        for p in paths(ots.node):
            if p.ret is RAISE:
                continue
            v = p.env.get("self.n_training_step")
            rep.check(R, v is not None and dump(v) in ("self.trainer.global_step", "self.global_step"), ots.site(), ots.fq,
                      "the step counter handed to the conditions continues from the trainer's (restored) global step", f"n_training_step := {dump(v)}", f"n_training_step := {dump(v)}")
        writes = sorted({dump(t) for n in ast.walk(ots.node) if isinstance(n, (ast.Assign, ast.AugAssign)) for t in (n.targets if isinstance(n, ast.Assign) else [n.target])
                         if not isinstance(t, ast.Name)})  # local temporaries are not state
        rep.check(R, set(writes) <= {"self.n_training_step"}, ots.site(), ots.fq, "on_train_start writes only the step counter", str(writes), str(writes))


# attribute -> reason it may be lost by a checkpoint without breaking the property
INVENTORY_ALLOW = {
    "last_unreduced_loss": "derived from the last forward; recomputed before use (adaptive samplers are random: outside the proviso)",
    "created_points": "sampler cache: excluded by the property's deterministic-sampling proviso",
    "counter": "sampler cache bookkeeping: deterministic-sampling proviso",
    "last_points": "adaptive sampler state: random sampling, outside the proviso",
    "length": "derived sampler length",
    "current_out": "branch cache, recomputed at the next forward",
    "n_training_step": "re-derived from trainer.global_step in on_train_start (R-C19-4)",
    "current_iteration_num": "function-set resampling marker (random function sets: outside the proviso)",
    "param_batch": "function-set sample (random): outside the proviso",
    "mean": "device move", "std": "device move", "points": "device move", "fun": "device move of pre-evaluated data",
    "device": "plot sampler device", "data_for_other_variables": "device move",
}


def r3_inventory(repo: Repo, rep):
    R = rep.rule("R-C19-3", "inventory: plain attributes written while a training step runs are either allow-listed with a reason or recorded as findings", floor=2,
                 why="state that influences later steps but is neither a parameter/buffer nor saved by a checkpoint hook is lost on resume")
    written: Dict[str, List[str]] = {}
    roots = []
    S = repo.cls("solver.Solver")
    roots.append(S.methods["training_step"])
    cond = repo.cls("problem.conditions.condition.Condition")
    for ci in repo.subclasses(cond):
        if "forward" in ci.methods:
            roots.append(ci.methods["forward"])
        if "_compute_dist" in ci.methods:
            roots.append(ci.methods["_compute_dist"])
    smp = repo.cls("problem.samplers.sampler_base.PointSampler")
    for ci in repo.subclasses(smp):
        if ci.module.name.endswith("plot_samplers"):
            continue  # plotting is not part of a training step
        for m in ci.methods.values():
            if "sample" in m.name or m.name in ("set_length", "_change_device"):
                roots.append(m)
    for fi in roots:
        rep.saw(fi)
        for n in ast.walk(fi.node):
            tg = []
            if isinstance(n, ast.Assign):
                tg = n.targets
            elif isinstance(n, ast.AugAssign):
                tg = [n.target]
            for t in tg:
                if isinstance(t, ast.Attribute) and isinstance(t.value, ast.Name) and t.value.id == "self":
                    written.setdefault(t.attr, []).append(f"{fi.fq.split('.')[-2]}.{fi.name}")
    rep.extra["step_written_attributes"] = {k: sorted(set(v))[:4] for k, v in sorted(written.items())}
    for attr, where in sorted(written.items()):
        site = f"{sorted(set(where))[0]}"
        if attr in INVENTORY_ALLOW:
            rep.ok(R, "-", f"attribute `{attr}`", "allow-listed step-written state", INVENTORY_ALLOW[attr])
        else:
            rep.violation(R, "-", f"attribute `{attr}`", "step-written state is saved by a checkpoint or allow-listed",
                          f"`self.{attr}` is written during a training step in {sorted(set(where))[:3]} and is not part of any checkpoint", f"self.{attr} written in {sorted(set(where))[:3]}")


def r5_state_layout(repo: Repo, rep):
    R = rep.rule("R-C19-5", "the set of parameters / buffers / sub-modules of every nn.Module of the package is fixed by its constructor: nothing is registered in hooks, forward or setup methods", floor=6,
                 why="Lightning loads the checkpoint's state_dict into a freshly built module BEFORE on_train_start: a key created later is 'unexpected' on resume (or silently not restored)")
    n = 0
    for fi in repo.all_functions():
        if fi.cls is None:
            continue
        calls = [c for c in ast.walk(fi.node) if isinstance(c, ast.Call) and isinstance(c.func, ast.Attribute) and c.func.attr in ("register_buffer", "register_parameter", "add_module", "register_module")
                 and dump(c.func.value) == "self"]
        if not calls:
            continue
        n += 1
        rep.saw(fi)
        ok = fi.name == "__init__"
        if not ok:
            # a helper called from the constructor of the same class only
            init = fi.cls.methods.get("__init__")
            called_from_init = init is not None and any(isinstance(c, ast.Call) and dump(c.func) == f"self.{fi.name}" for c in ast.walk(init.node))
            elsewhere = [m.name for m in fi.cls.methods.values() if m.name not in ("__init__", fi.name) and any(isinstance(c, ast.Call) and dump(c.func) == f"self.{fi.name}" for c in ast.walk(m.node))]
            ok = called_from_init and not elsewhere
        rep.check(R, ok, fi.site(calls[0]), fi.fq, "registration happens during construction", f"`{dump(calls[0])[:70]}` in {fi.name}", f"{dump(calls[0].func)} in {fi.name}")
    if n == 0:
        rep.undecided(R, "src/torchphysics", "package", "registration calls", "none found")


RESTORE_HOOKS = ("load_state_dict", "_load_from_state_dict", "on_load_checkpoint", "on_save_checkpoint", "state_dict", "__setstate__", "__getstate__")


def r6_restore_path(repo: Repo, rep):
    R = rep.rule("R-C19-6", "modules of the package leave Lightning's restore path alone: checkpoint hooks remove nothing from the checkpoint, and a load_state_dict override "
                 "copies into the existing tensors (no assign=True)", floor=15,
                 why="dropping `loops` restarts the step count at 0; assigned tensors are new objects: Parameter wrappers and optimizer references keep pointing at the old ones")
    mods = [m for name, m in repo.modules.items() if name.split(".")[-1] in ("solver", "condition", "deeponet_condition", "callbacks", "parameter", "model")]
    seen = 0
    for m in mods:
        for ci in m.classes.values():
            hooks = [fi for n, fi in ci.methods.items() if n in RESTORE_HOOKS]
            if not hooks:
                seen += 1
                rep.ok(R, ci.module.relpath, ci.fq, "no override of the checkpoint / state-dict protocol", "-")
                continue
            for fi in hooks:
                seen += 1
                rep.saw(fi)
                params = set(fi.params[1:])
                given = set(params)
                for _ in range(3):  # names bound to (parts of) the checkpoint: `sd = checkpoint["state_dict"]`, `a, b = checkpoint[..], set()`, `for st in checkpoint[..]`
                    for n in ast.walk(fi.node):
                        if isinstance(n, ast.Assign) and any(isinstance(x, ast.Name) and x.id in params for x in ast.walk(n.value)):
                            params |= {x.id for t in n.targets for x in ast.walk(t) if isinstance(x, ast.Name) and isinstance(x.ctx, ast.Store)}
                        if isinstance(n, (ast.For, ast.comprehension)) and any(isinstance(x, ast.Name) and x.id in params for x in ast.walk(n.iter)):
                            params |= {x.id for x in ast.walk(n.target) if isinstance(x, ast.Name)}
                bad = []
                if fi.name in ("on_save_checkpoint", "on_load_checkpoint", "state_dict", "load_state_dict"):
                    # entries of what is saved / restored are not replaced either (a new top-level key of the hook's own is no replacement)
                    for n in ast.walk(fi.node):
                        if isinstance(n, (ast.Assign, ast.AugAssign)):
                            for t in (n.targets if isinstance(n, ast.Assign) else [n.target]):
                                if isinstance(t, ast.Subscript) and isinstance(t.value, ast.Name) and t.value.id in params and t.value.id not in given:
                                    bad.append(f"{dump(t)[:40]} = .. (an entry of the checkpoint is rewritten)")
                                if isinstance(t, ast.Subscript) and isinstance(t.value, ast.Subscript):
                                    root = t.value
                                    while isinstance(root, ast.Subscript):
                                        root = root.value
                                    if isinstance(root, ast.Name) and root.id in params:
                                        bad.append(f"{dump(t)[:40]} = .. (an entry of the checkpoint is rewritten)")
                for n in ast.walk(fi.node):
                    if isinstance(n, ast.Call) and isinstance(n.func, ast.Attribute) and n.func.attr in ("pop", "popitem", "clear") and isinstance(n.func.value, ast.Name) and n.func.value.id in params:
                        bad.append(dump(n)[:60])
                    if isinstance(n, ast.Delete):
                        for t in n.targets:
                            if isinstance(t, ast.Subscript) and isinstance(t.value, ast.Name) and t.value.id in params:
                                bad.append(dump(n)[:60])
                    if isinstance(n, ast.Call) and isinstance(n.func, ast.Attribute) and n.func.attr == "load_state_dict":
                        a = kwarg(n, "assign", 2)
                        if a is not None and not (isinstance(a, ast.Constant) and a.value is False) and not (isinstance(a, ast.Name) and a.id in params):
                            bad.append(f"load_state_dict(.., assign={dump(a)})")
                if fi.name == "load_state_dict":
                    a = fi.node.args
                    names = [x.arg for x in a.args]
                    if "assign" in names:
                        i = names.index("assign") - (len(names) - len(a.defaults))
                        if i >= 0 and isinstance(a.defaults[i], ast.Constant) and a.defaults[i].value is True:
                            bad.append("assign defaults to True")
                rep.check(R, not bad, fi.site(), fi.fq, "the restore protocol is passed through unchanged", str(sorted(set(bad))[:3]), str(sorted(set(bad))[:3]))
    # strict loading stays on: a module that switches it off turns every key missing from a checkpoint into a silently re-initialised weight
    for fi in repo.all_functions():
        for n in ast.walk(fi.node):
            if isinstance(n, ast.Assign) and any(isinstance(t, ast.Attribute) and t.attr == "strict_loading" for t in n.targets) and not (isinstance(n.value, ast.Constant) and n.value.value is True):
                rep.saw(fi)
                rep.violation(R, fi.site(n), fi.fq, "strict loading of checkpoints is left on", dump(n)[:60], dump(n)[:60])
    if seen == 0:
        rep.undecided(R, "src/torchphysics", "package", "classes of the solver / condition modules", "none found")


def r8_parameters_move_only_by_the_optimizer(repo: Repo, rep):
    R = rep.rule("R-C19-8", "outside constructors no method of a solver / condition / callback changes a registered tensor of the module in place (x.op_(..), x.data = ..): "
                 "learnable state at step N is what the optimizer made of the restored state", floor=20,
                 why="a hook that rescales the adaptive point weights `at the start of every training` is a no-op for fresh weights and overwrites the restored weights of a resumed run")
    mods = [m for name, m in repo.modules.items() if name.split(".")[-1] in ("solver", "condition", "deeponet_condition", "callbacks")]
    for m in mods:
        for ci in m.classes.values():
            for fi in ci.methods.values():
                if fi.name in ("__init__",):
                    continue
                rep.saw(fi)
                bad = []
                for n in ast.walk(fi.node):
                    if isinstance(n, ast.Call) and isinstance(n.func, ast.Attribute) and n.func.attr.endswith("_") and not n.func.attr.startswith("_") and len(n.func.attr) > 2 \
                            and n.func.attr not in ("requires_grad_", "zero_", "share_memory_"):
                        root = n.func.value
                        chain = dump(root)
                        if chain.startswith("self.") and any(k in chain for k in ("weight", "bias", "param", "layer", "module", "model")):
                            bad.append(dump(n)[:60])
                    if isinstance(n, ast.Assign) and any(isinstance(t, ast.Attribute) and t.attr == "data" and dump(t.value).startswith("self.") for t in n.targets):
                        bad.append(dump(n)[:60])
                    if isinstance(n, ast.AugAssign):  # the canonical form of x.op_(v)
                        base = n.target
                        while isinstance(base, ast.Subscript):
                            base = base.value
                        chain = dump(base)
                        if isinstance(base, ast.Attribute) and chain.startswith("self.") and chain.count(".") >= 2 and any(k in chain for k in ("weight", "bias", "param", "layer", "module", "model")):
                            bad.append(dump(n)[:60])
                rep.check(R, not bad, fi.site(), fi.fq, "no in-place change of module tensors", str(bad[:2]), str(bad[:2]))


def r7_state_dict_stays_loadable(repo: Repo, rep):
    R = rep.rule("R-C19-7", "what a checkpoint holds can be loaded into a freshly built model and is what training continues from: no persistent buffer is a cache "
                 "re-assigned in forward, no hook re-writes parameter data after the restore, callbacks leave the train/eval mode as they found it", floor=20,
                 why="a buffer whose shape follows the last batch breaks load_state_dict; a cast in configure_optimizers runs after the weights were restored; "
                     "the mode flag is not part of a checkpoint")
    # (a) persistent buffers vs attributes assigned outside the constructor
    for ci in repo.all_classes():
        if not ci.module.name.startswith("torchphysics.models") and ".conditions." not in ci.module.name:
            continue
        regs = {}
        for fi in ci.methods.values():
            for c in ast.walk(fi.node):
                if isinstance(c, ast.Call) and isinstance(c.func, ast.Attribute) and c.func.attr == "register_buffer" and c.args and isinstance(c.args[0], ast.Constant):
                    pers = kwarg(c, "persistent", 2)
                    if not (isinstance(pers, ast.Constant) and pers.value is False):
                        regs[c.args[0].value] = fi
        bad = []
        for fi in ci.methods.values():
            if fi.name in ("__init__",):
                continue
            for n in ast.walk(fi.node):
                if isinstance(n, (ast.Assign, ast.AugAssign)):
                    for t in (n.targets if isinstance(n, ast.Assign) else [n.target]):
                        if isinstance(t, ast.Attribute) and isinstance(t.value, ast.Name) and t.value.id == "self" and t.attr in regs:
                            bad.append(f"{fi.name}: self.{t.attr} = {dump(n.value)[:40]}")
        # subclasses assign the cache of the base class
        for sub in repo.subclasses(ci, strict=True):
            for fi in sub.methods.values():
                if fi.name == "__init__":
                    continue
                for n in ast.walk(fi.node):
                    if isinstance(n, ast.Assign):
                        for t in n.targets:
                            if isinstance(t, ast.Attribute) and isinstance(t.value, ast.Name) and t.value.id == "self" and t.attr in regs:
                                bad.append(f"{sub.name}.{fi.name}: self.{t.attr} = {dump(n.value)[:40]}")
        if regs or ci.methods.get("forward") is not None:
            init = ci.methods.get("__init__") or next(iter(ci.methods.values()), None)
            if init is not None:
                rep.saw(init)
                rep.check(R, not bad, init.site(), ci.fq, "persistent buffers are not re-assigned after construction", str(sorted(set(bad))[:2]), f"persistent buffer used as cache {sorted(set(bad))[:1]}")
    # (b) Solver hooks do not write parameter data
    S = repo.cls("solver.Solver")
    for name, fi in S.methods.items():
        if name == "__init__":
            continue
        writes = [dump(n)[:70] for n in ast.walk(fi.node) if isinstance(n, (ast.Assign, ast.AugAssign)) and any(
            isinstance(t, ast.Attribute) and t.attr in ("data", "grad") for t in (n.targets if isinstance(n, ast.Assign) else [n.target]))]
        writes += [dump(c)[:70] for c in ast.walk(fi.node) if isinstance(c, ast.Call) and isinstance(c.func, ast.Attribute) and c.func.attr in ("copy_", "fill_", "zero_", "half", "double", "float", "bfloat16", "type")
                   and any(isinstance(x, ast.Attribute) and x.attr == "data" for x in ast.walk(c.func.value))]
        writes += [dump(c)[:70] for c in ast.walk(fi.node) if isinstance(c, ast.Call) and isinstance(c.func, ast.Attribute) and c.func.attr in ("double", "half", "float", "bfloat16", "to")
                   and dump(c.func.value) == "self" and c.func.attr != "to"]
        rep.saw(fi)
        rep.check(R, not writes, fi.site(), fi.fq, "no write to parameter data in a Solver hook", str(writes[:2]), f"parameter data re-written in {name}: {writes[:1]}")
    # (c) callbacks restore the mode they change
    m = repo.module("utils.callbacks")
    for ci in m.classes.values():
        for fi in ci.methods.values():
            evals = [c for c in ast.walk(fi.node) if isinstance(c, ast.Call) and isinstance(c.func, ast.Attribute) and c.func.attr == "eval" and not c.args]
            trains = [c for c in ast.walk(fi.node) if isinstance(c, ast.Call) and isinstance(c.func, ast.Attribute) and c.func.attr == "train"]
            freeze = [c for c in ast.walk(fi.node) if isinstance(c, ast.Call) and isinstance(c.func, ast.Attribute) and c.func.attr in ("requires_grad_", "freeze")]
            rep.saw(fi)
            rep.check(R, (not evals or bool(trains)) and not freeze, fi.site(), fi.fq, "a callback that switches the model to eval mode switches it back",
                      f"{len(evals)} eval() / {len(trains)} train() calls; {len(freeze)} freeze calls", f"mode changed in {fi.name}")


def run(repo: Repo, rep):
    r7_state_dict_stays_loadable(repo, rep)
    r8_parameters_move_only_by_the_optimizer(repo, rep)
    r6_restore_path(repo, rep)
    r5_state_layout(repo, rep)
    r1_registration(repo, rep)
    r2_callbacks(repo, rep)
    r3_inventory(repo, rep)
    r4_solver_hooks(repo, rep)


_CBF = "src/torchphysics/utils/callbacks.py"
_S = "src/torchphysics/solver.py"
MUTANTS = [
    dict(id="C19-M1", file=_CBF, old="                torch.save(\n                    self.model.state_dict(),\n                    self.path + \"/\" + self.name + \"_min_loss.pt\",\n                )", new="                torch.save(\n                    pl_module.state_dict(),\n                    self.path + \"/\" + self.name + \"_min_loss.pt\",\n                )", rule="R-C19-2", what="LightningModule state saved instead of the model's"),
    dict(id="C19-M2", file=_CBF, old="self.path + \"/\" + self.name + \"_min_loss.pt\"", new="self.path + \"/\" + self.name + \"_final.pt\"", rule="R-C19-2", what="same file name twice"),
    dict(id="C19-M3", file=_CBF, old="self.name + \".ckpt\", weights_only=self.weights_only", new="self.name + \".ckpt\", weights_only=True", rule="R-C19-2", what="weights_only hard-coded"),
    dict(id="C19-M7", file=_S, old="        self.n_training_step = self.trainer.global_step\n", new="        self.n_training_step = 0\n", rule="R-C19-4", what="step counter reset on resume"),
    dict(id="C19-M4", file=_S, old="        self.n_training_step = self.trainer.global_step\n", new="        self.n_training_step = self.trainer.global_step\n        for optimizer in self.trainer.optimizers:\n            for group in optimizer.param_groups:\n                group[\"lr\"] = self.optimizer_setting.lr\n", rule="R-C19-4", what="learning rate overwritten after restore"),
    dict(id="C19-M5", file=_S, old="        return torch.utils.data.DataLoader(torch.empty(steps))", new="        return torch.utils.data.DataLoader(torch.empty(max(steps - self.trainer.global_step, 1)))", rule="R-C19-4", what="loader length depends on the resume position"),
    dict(id="C19-M6", file=_CBF, old="                self.current_loss = trainer.logged_metrics[\"train/loss\"]\n", new="", rule="R-C19-2", what="best loss never remembered"),
]
TWINS = []

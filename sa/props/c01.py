"""C01 — every sampled point lies in the domain it was sampled from.

Decided: rejection discipline of every CSG / filtering sampler (facts established
about each returned point set propositionally imply the class's own membership
formula, on every path); push-forward / pull-back pairing of Translate / Rotate;
the dependent product samples A at the B points it returns.  Not decided:
geometry of the primitive parametrisations, tolerances, termination.
"""
from __future__ import annotations

import ast
from typing import Dict, List

from ..absdom import boolform as B
from ..absdom.facts import OPAQUE, AllParams, Const, Interp, Misuse, Undecided, operands
from ..flow import RAISE, attr_chain, def_id, dump, kwarg, paths
from ..repo import AnalysisError, Repo
from ..util import ends
from .c05 import REFERENCE, closed_only, membership_formula, r2_pullback

EXPLANATION = (
    "Abstract interpretation of every sampling function of union/cut/intersection domains and boundaries (helpers interpreted "
    "under the call site's bindings): each abstract point set carries the facts established about its rows (formula over in_a, "
    "in_b, on_a, on_b); masks/indices remember the points they were computed on; for every returned operand the implication "
    "facts => membership formula of the class (extracted from its own _contains, checked against set algebra by C05) is decided "
    "by truth table under closedness, and the fact set must be satisfiable. Filtering samplers must return only rows filtered by "
    "self.domain._contains on the same points; Translate/Rotate push-forwards invert the pull-backs; the dependent product "
    "samples the first factor at the very second-factor points it returns."
)
ASSUMPTIONS = [
    "operands are closed sets and the operand samplers/membership tests are correct (induction over the expression; primitives are not decided)",
    "rejection loops terminate (positive measure is the property's proviso)",
    "loops run at least once",
]
OPS = "problem.domains.domainoperations"
CLASSES = [
    ("union", "UnionDomain"), ("union", "UnionBoundaryDomain"), ("cut", "CutDomain"), ("cut", "CutBoundaryDomain"),
    ("intersection", "IntersectionDomain"), ("intersection", "IntersectionBoundaryDomain"),
]


def r1_facts(repo: Repo, rep):
    R = rep.rule("R-C01-1", "facts established about every returned operand of a CSG sampler imply the class's membership formula (all paths, helpers inlined)",
                 floor=40, why="a returned row for which the implication fails lies, for a generic operand pair, outside the set")
    Rb = rep.rule("R-C01-1b", "the fact set of every returned operand is satisfiable (a filter that can never accept delivers no point / loops forever)", floor=40,
                  why="an unsatisfiable filter means the sampler cannot return the requested points")
    Rc = rep.rule("R-C01-1c", "proposals drawn one per parameter row (n=1 with the whole parameter set) reach the result slot by slot: accepted rows are "
                  "stored at their own index, never packed together", floor=4,
                  why="operands may depend on the parameters: a point accepted for parameter row j that ends up in row k is tested and used with row k's shape")
    total_ops = 0
    for mod, cname in CLASSES:
        ci = repo.cls(f"{OPS}.{mod}.{cname}")
        cf = ci.methods.get("_contains")
        if cf is None:
            raise AnalysisError(f"{cname}._contains vanished")
        try:
            forms, problems = membership_formula(cf)
        except B.NotBool as e:
            rep.undecided(R, cf.site(), cf.fq, "membership formula of the class extractable", str(e))
            continue
        F = forms[0][0]
        is_b = "Boundary" in cname
        for mname in ("sample_random_uniform", "sample_grid"):
            fi = ci.methods.get(mname)
            if fi is None:
                raise AnalysisError(f"{cname}.{mname} vanished")
            rep.saw(fi)
            it = Interp(repo, ci, F, is_b)
            try:
                rets = it.entry(fi, {p: (AllParams() if p == "params" else OPAQUE) for p in fi.params[1:]})
            except Undecided as e:
                rep.undecided(R, fi.site(), fi.fq, "sampling function interpretable", str(e))
                continue
            except Misuse as e:
                rep.violation(R, fi.site(getattr(e, "node", None)), fi.fq, "masks/indices are applied to the points they were computed on", str(e), str(e))
                continue
            for f in it.visited:
                rep.saw(f)
            if not rets:
                rep.undecided(R, fi.site(), fi.fq, "at least one return", "none")
                continue
            for v, site in zip(rets, it.ret_sites):
                ops = operands(v)
                if ops is None:
                    rep.undecided(R, fi.site(site), fi.fq, "returns sampled points", f"returns {type(v).__name__}")
                    continue
                if not ops:
                    rep.violation(R, fi.site(site), fi.fq, "returns sampled points", "returns an empty point set on this path", "empty")
                    continue
                for o in ops:
                    total_ops += 1
                    ok, cex, n = B.implies(o.facts, F, closed_only, extra_atoms={"in_a", "in_b"} | ({"on_a", "on_b"} if is_b else set()))
                    rep.check(R, ok, fi.site(site), fi.fq, f"facts ⊢ {B.show(F)}",
                              f"operand from {o.origin}: facts {B.show(o.facts)}" + ("" if ok else f"; counter-assignment {cex}"),
                              f"{o.origin}: {B.show(o.facts)}")
                    sat = B.satisfiable(o.facts, closed_only)
                    rep.check(Rb, sat, fi.site(site), fi.fq, "facts satisfiable under closedness", f"operand from {o.origin}: {B.show(o.facts)}", f"{o.origin}: {B.show(o.facts)}")
                    if o.packed:
                        rep.violation(Rc, fi.site(site), fi.fq, "rows accepted out of a one-point-per-parameter-row proposal keep their slot (buffer[idx] = rows[idx])",
                                      f"operand from {o.origin}: accepted rows are packed together, row k of the result no longer belongs to parameter row k", f"{o.origin}: packed rows")
                    elif o.paired:
                        rep.ok(Rc, fi.site(site), fi.fq, "one-point-per-parameter-row proposals keep their slot", f"operand from {o.origin}")
    rep.extra["returned_operands"] = total_ops


def r2_filtering(repo: Repo, rep):
    R = rep.rule("R-C01-2", "filtering samplers (Gaussian, LHS) return only rows accepted by self.domain._contains evaluated on those same rows, "
                 "or rows produced by a RandomUniformSampler over self.domain", floor=3,
                 why="proposals from a normal law / bounding box are generally outside the domain")
    rs = "problem.samplers.random_samplers"
    # Gaussian: _check_inside_domain ; LHS: _check_lhs_inside ; both: index from domain._contains(new_points)
    for cname, helper in (("GaussianSampler", "_check_inside_domain"), ("LHSSampler", "_check_lhs_inside")):
        ci = repo.cls(f"{rs}.{cname}")
        h = ci.methods.get(helper)
        if h is None:
            rep.undecided(R, ci.module.relpath, ci.fq, f"membership filter {helper}", "vanished: idiom not recognised")
            continue
        rep.saw(h)
        for p in paths(h.node):
            if p.ret is RAISE:
                continue
            r = p.ret
            good = False
            detail = dump(r)[:140]
            if isinstance(r, ast.Subscript):
                base = r.value
                idx = r.slice.elts[0] if isinstance(r.slice, ast.Tuple) else r.slice
                # idx == torch.where(self.domain._contains(BASE))[0]
                t = idx
                if isinstance(t, ast.Subscript) and dump(t.slice) == "0":
                    t = t.value
                if isinstance(t, ast.Call) and attr_chain(t.func) == "torch.where" and len(t.args) == 1:
                    m = t.args[0]
                    if isinstance(m, ast.Call) and dump(m.func) == "self.domain._contains" and m.args:
                        good = dump(m.args[0]) == dump(base)
                        if not good:
                            detail = f"mask computed on `{dump(m.args[0])[:60]}`, applied to `{dump(base)[:60]}`"
                elif isinstance(t, ast.Call) and dump(t.func) == "self.domain._contains" and t.args:
                    good = dump(t.args[0]) == dump(base)
            rep.check(R, good, h.site(p.ret_node), h.fq, "returns points[where(self.domain._contains(points))]", detail, detail)
        # every returned row of _sample_points went through the filter (or the random top-up)
        sp = ci.methods.get("_sample_points")
        if sp is None:
            raise AnalysisError(f"{cname}._sample_points vanished")
        rep.saw(sp)
        src = ast.unparse(sp.node)
        calls = [c for c in ast.walk(sp.node) if isinstance(c, ast.Call) and dump(c.func) == f"self.{helper}"]
        rep.check(R, len(calls) >= 1, sp.site(), sp.fq, f"proposals pass through self.{helper} before accumulation", f"{len(calls)} call(s)", "filter not called")
        for p in paths(sp.node):
            if p.ret is RAISE or p.ret is None:
                continue
            txt = dump(p.ret)
            # the accumulated value must be built from the filtered points only
            raw_sources = []
            for c in ast.walk(p.ret):
                if isinstance(c, ast.Call) and isinstance(c.func, ast.Attribute) and c.func.attr == "sample" and "Normal" in dump(c.func.value):
                    raw_sources.append(c)
                if isinstance(c, ast.Call) and dump(c.func) == "self._create_lhs_in_bounding_box":
                    raw_sources.append(c)
            from ..util import parent_map
            pm = parent_map(p.ret)
            unfiltered = []
            for c in raw_sources:
                n, ok = c, False
                while id(n) in pm:
                    n = pm[id(n)]
                    if isinstance(n, ast.Call) and dump(n.func) == f"self.{helper}":
                        ok = True
                        break
                if not ok:
                    unfiltered.append(dump(c)[:50])
            rep.check(R, bool(raw_sources) and not unfiltered, sp.site(p.ret_node), sp.fq, "every proposal in the result is wrapped by the membership filter",
                      f"{len(raw_sources)} proposal source(s), unfiltered: {unfiltered[:2]}", str(unfiltered[:2]))
    # LHS top-up from a RandomUniformSampler on the same domain
    lhs = repo.cls(f"{rs}.LHSSampler")
    ap = lhs.methods.get("_append_random_points")
    if ap is not None:
        rep.saw(ap)
        for p in paths(ap.node):
            if p.ret is RAISE:
                continue
            r = p.ret
            if isinstance(r, ast.BinOp) and isinstance(r.op, ast.BitOr):
                other = r.right if dump(r.left) == ap.params[1] else r.left
                good = isinstance(other, ast.Call) and isinstance(other.func, ast.Attribute) and other.func.attr == "sample_points" and isinstance(other.func.value, ast.Call) \
                    and ends(attr_chain(other.func.value.func), "RandomUniformSampler") and dump(kwarg(other.func.value, "domain", 0)) == "self.domain"
                pa = other.args[0] if isinstance(other, ast.Call) and other.args else None
                good = good and pa is not None and dump(pa) == ap.params[2]
                rep.check(R, good, ap.site(p.ret_node), ap.fq, "missing points are drawn by RandomUniformSampler(self.domain) for the same parameter row", dump(r)[:140], dump(r)[:140])
    # filter_fn path of samplers: rows kept are those where the filter is true, on the same points
    base = repo.cls("problem.samplers.sampler_base.PointSampler")
    af = base.methods.get("_apply_filter")
    if af is not None:
        rep.saw(af)
        for p in paths(af.node):
            if p.ret is RAISE:
                continue
            want = f"{af.params[1]}[torch.where(self.filter_fn({af.params[1]}))[0],]"
            rep.check(R, dump(p.ret).replace(" ", "") == want.replace(" ", ""), af.site(), af.fq, "filtered = points[where(filter_fn(points))]", dump(p.ret), dump(p.ret))


def r4_dependent_product(repo: Repo, rep):
    R = rep.rule("R-C01-4", "dependent product: the first factor is sampled (n=1 per row) with params containing the very second-factor points that are joined into the result",
                 floor=2, why="A(b) must be evaluated at the b the row carries; re-sampled or stale b points give rows outside the product set")
    pd = repo.cls(f"{OPS}.product.ProductDomain")
    fi = pd.methods.get("sample_random_uniform")
    if fi is None:
        raise AnalysisError("ProductDomain.sample_random_uniform vanished")
    rep.saw(fi)
    n = 0
    for p in paths(fi.node):
        if p.ret is RAISE or p.ret is None:
            continue
        r = p.ret
        if isinstance(r, ast.Call) and dump(r.func) == "self.sample_random_uniform":
            continue  # density path delegates to the n path
        if not (isinstance(r, ast.Call) and isinstance(r.func, ast.Attribute) and r.func.attr == "join" and len(r.args) == 1):
            rep.undecided(R, fi.site(p.ret_node), fi.fq, "returns a_points.join(b_points)", dump(r)[:100])
            continue
        n += 1
        a, b = r.func.value, r.args[0]
        good = isinstance(a, ast.Call) and dump(a.func) == "self.domain_a.sample_random_uniform"
        detail = dump(r)[:160]
        if good:
            na = kwarg(a, "n", 0)
            pa = kwarg(a, "params", 2)
            good = na is not None and dump(na) == "1" and pa is not None
            if good:
                # params must contain b (same value, same evaluation)
                contains_b = any(dump(x) == dump(b) for x in ast.walk(pa))
                good = contains_b
                if not contains_b:
                    detail = f"A sampled at params `{dump(pa)[:70]}`, result joined with `{dump(b)[:70]}`"
        rep.check(R, good, fi.site(p.ret_node), fi.fq, "domain_a.sample_random_uniform(n=1, params ∋ b_points).join(b_points) with the same b_points", detail, detail)
        if good:
            bsrc = [c for c in ast.walk(b) if isinstance(c, ast.Call) and isinstance(c.func, ast.Attribute) and c.func.attr in ("sample_random_uniform", "_sample_uniform_b_points")]
            okb = bool(bsrc) and all(dump(c.func.value) in ("self.domain_b", "self") for c in bsrc)
            rep.check(R, okb, fi.site(p.ret_node), fi.fq, "b_points come from domain_b's sampler", dump(b)[:100], dump(b)[:100])
    if n == 0:
        rep.undecided(R, fi.site(), fi.fq, "a joining return path", "none")
    ub = pd.methods.get("_sample_uniform_b_points")
    if ub is not None:
        rep.saw(ub)
        for p in paths(ub.node):
            if p.ret is RAISE:
                continue
            r = p.ret
            if isinstance(r, ast.Tuple) and len(r.elts) == 3:
                bpts, prm = r.elts[1], r.elts[2]
                # rows of b and of params are filtered by the same mask
                if isinstance(bpts, ast.Subscript) and isinstance(prm, (ast.Subscript, ast.IfExp, ast.Name, ast.Call)):
                    fb = dump(bpts.slice)
                    fp = [dump(s.slice) for s in ast.walk(prm) if isinstance(s, ast.Subscript) and getattr(s, "_tuple_elt", False) is False and "filter" in dump(s.slice) or False]
                    same = True
                    # the params on this path: either empty or filtered by the same mask
                    for s in ast.walk(prm):
                        if isinstance(s, ast.Subscript) and not getattr(s, "_tuple_elt", False) and dump(s.slice) != fb and "rand_like" in dump(s.slice):
                            same = False
                    rep.check(R, same, ub.site(p.ret_node), ub.fq, "accepted b rows and their parameter rows are selected by the same mask", f"{fb[:60]}", fb[:60])


# ------------------------------------------------------------------ primitives
def _prim_atom(dim, opaque_bary=("_handle_sum_greater_1", "_compute_barycentric_grid", "_grid_enough_points", "_grid_has_n_points")):
    from ..absdom.poly import RF
    from ..absdom.symtensor import Vec
    from .c10 import shape_atom

    def atom(n, ev):
        got = shape_atom(n, ev)
        if got is not None:
            return got
        x = n
        while isinstance(x, ast.Call) and isinstance(x.func, ast.Attribute) and x.func.attr in ("reshape", "view", "squeeze", "unsqueeze", "repeat"):
            x = x.func.value
        if isinstance(x, ast.Call):
            ch = attr_chain(x.func) or ""
            tail = ch.split(".")[-1]
            if tail == "center" and ch.startswith("self."):
                return Vec([RF.atom(f"c.{i}") for i in range(dim)])
            if tail == "point" and ch.startswith("self."):
                return Vec([RF.atom(f"pt.{i}") for i in range(dim)]) if dim > 1 else RF.atom("pt.0")
            if tail == "side" and ch.startswith("self."):
                return RF.atom("side")
            if tail in opaque_bary and ch.startswith("self."):
                return Vec([RF.atom("u"), RF.atom("v")])  # barycentric pair (its admissibility is R-C11-4 / the grid helpers)
            if tail == "_equidistant_points_in_circle":
                return Vec([RF.atom("G.0"), RF.atom("G.1")])
            if ch in ("torch.linspace", "torch.arange"):
                return RF.atom("L")
            if tail == "compute_n_from_density":
                return RF.atom("n")
        if isinstance(x, ast.Name) and x.id == "n":
            return RF.atom("n")
        if isinstance(x, ast.Call):
            pass
        if isinstance(x, ast.Subscript) and isinstance(x.value, ast.Call) and attr_chain(x.value.func) in ("torch.linspace",):
            return RF.atom("L")
        return None
    return atom


def r5_primitive_parametrisations(repo: Repo, rep):
    from ..absdom.poly import RF, NotPoly
    from ..absdom.symtensor import NotSym, SymEval, Vec, binop, reduce_squares
    from ..inline import expand_helpers
    R5 = rep.rule("R-C01-5", "polygon samplers return origin + u*(corner_1 - origin) + v*(corner_2 - origin) for the barycentric pair (u, v) — the inverse of the "
                  "barycentric solve used by _contains", floor=4,
                  why="a transposed or mis-paired direction matrix maps admissible barycentric pairs outside every non-symmetric shape")
    R6 = rep.rule("R-C01-6", "radial samplers return points with |p - centre|^2 == (radial variate)^2 (== radius^2 on boundaries), as a polynomial identity "
                  "after sin^2 + cos^2 = 1", floor=5, why="scaling or shifting in the wrong order puts the points on a sphere around another centre")
    R7 = rep.rule("R-C01-7", "interval samplers return lower + t*(upper - lower) with t in [0, 1); end-point samplers return the bound itself", floor=4,
                  why="any other affine combination leaves the interval for some bounds")
    DOMp = "problem.domains"
    o = Vec([RF.atom("o.0"), RF.atom("o.1")])
    pv = Vec([RF.atom("p.0"), RF.atom("p.1")])
    q = Vec([RF.atom("q.0"), RF.atom("q.1")])
    for mod, cname in (("parallelogram", "Parallelogram"), ("triangle", "Triangle")):
        ci = repo.cls(f"{DOMp}.domain2D.{mod}.{cname}")
        for mname in ("sample_random_uniform", "sample_grid"):
            fi = ci.methods.get(mname)
            if fi is None:
                raise AnalysisError(f"{cname}.{mname} vanished")
            rep.saw(fi)
            seen = set()
            for p in paths(fi.node):
                if p.ret is RAISE or p.ret is None:
                    continue
                r = p.ret
                val = r.args[0] if isinstance(r, ast.Call) and attr_chain(r.func) == "Points" and r.args else r
                val = expand_helpers(repo, ci, val, accept=lambda f: f.name.startswith("_construct"))
                key = dump(val)
                if key in seen:
                    continue
                seen.add(key)

                def atom(n, ev, base=_prim_atom(2)):
                    got = base(n, ev)
                    if got is not None:
                        return got
                    if isinstance(n, ast.Call) and attr_chain(n.func) == "torch.rand":
                        return Vec([RF.atom("u"), RF.atom("v")])
                    return None
                ev = SymEval(atom)
                try:
                    v = ev.ev(val)
                    want = binop("+", o, binop("+", binop("*", RF.atom("u"), binop("-", pv, o)), binop("*", RF.atom("v"), binop("-", q, o))))
                    ok = isinstance(v, Vec) and v == want
                    rep.check(R5, ok, fi.site(p.ret_node), fi.fq, "p = o + u*(c1 - o) + v*(c2 - o)", f"p = {v!r}"[:260], f"{v!r}"[:200])
                except (NotSym, NotPoly) as err:
                    rep.undecided(R5, fi.site(p.ret_node), fi.fq, "affine parametrisation evaluable", str(err))
    # radial
    specs = [("domain2D.circle", "Circle", 2, False), ("domain2D.circle", "CircleBoundary", 2, True), ("domain3D.sphere", "Sphere", 3, False), ("domain3D.sphere", "SphereBoundary", 3, True)]
    from .c05 import _domain_class_of
    for mod, cname, dim, is_b in specs:
        ci = repo.cls(f"{DOMp}.{mod}.{cname}")
        dci = _domain_class_of(repo, ci)
        for mname in ("sample_random_uniform", "sample_grid"):
            fi = ci.methods.get(mname)
            if fi is None:
                continue
            if cname == "Sphere" and mname == "sample_grid":
                # box grid filtered by the norm + random top-up: the vector whose norm the filter bounds by r must be p - c of the points passed on
                rep.saw(fi)
                done = False
                for p in paths(fi.node):
                    if p.ret is RAISE or p.ret is None:
                        continue
                    filt = [c for e in p.events if e.value is not None for c in ast.walk(e.value)
                            if isinstance(c, ast.Call) and dump(c.func) == "self._get_points_inside" and len(c.args) == 2]
                    passed = [c.args[0] for e in p.events if e.value is not None for c in ast.walk(e.value)
                              if isinstance(c, ast.Call) and dump(c.func) == "self._append_random" and c.args]
                    if not filt or not passed:
                        continue
                    done = True

                    def atom(n, ev, base=_prim_atom(dim)):
                        if isinstance(n, ast.Call) and dump(n.func) == "self._point_grid_in_box":
                            return Vec([RF.atom(f"G.{i}") for i in range(dim)])
                        if isinstance(n, ast.Call) and dump(n.func) == "self._get_points_inside" and len(n.args) == 2:
                            return ev.ev(n.args[0])  # the filter keeps rows, it does not change them
                        return base(n, ev)
                    try:
                        ev = SymEval(atom)
                        filtered_arg = ev.ev(expand_helpers(repo, ci, filt[0].args[0], domain_cls=dci, accept=lambda f: f.name.startswith("_compute_center")))
                        out = ev.ev(expand_helpers(repo, ci, passed[0], domain_cls=dci, accept=lambda f: f.name.startswith("_compute_center")))
                        c = Vec([RF.atom(f"c.{i}") for i in range(dim)])
                        ok = isinstance(out, Vec) and isinstance(filtered_arg, Vec) and binop("-", out, c) == filtered_arg
                        rep.check(R6, ok, fi.site(p.ret_node), fi.fq, "grid points kept by |x| <= r are returned as x + c (the filter bounds |p - c|)",
                                  f"filter bounds |{filtered_arg!r}|, returned p = {out!r}"[:240], f"filter on {filtered_arg!r}, p = {out!r}"[:200])
                        rr = dump(filt[0].args[1])
                        rep.check(R6, "radius" in rr or "_compute_center_and_radius" in rr, fi.site(p.ret_node), fi.fq, "the filter radius is the sphere's radius", rr[:80], rr[:80])
                    except (NotSym, NotPoly) as err:
                        rep.undecided(R6, fi.site(p.ret_node), fi.fq, "filtered grid evaluable", str(err))
                    break
                if not done:
                    rep.undecided(R6, fi.site(), fi.fq, "a path filtering the box grid and passing it on", "not found")
                continue
            rep.saw(fi)
            for p in paths(fi.node):
                if p.ret is RAISE or p.ret is None:
                    continue
                r = p.ret
                val = r.args[0] if isinstance(r, ast.Call) and attr_chain(r.func) == "Points" and r.args else r
                val = expand_helpers(repo, ci, val, domain_cls=dci, accept=lambda f: f.name.startswith("_compute_center"))
                ev = SymEval(_prim_atom(dim))
                try:
                    v = ev.ev(val)
                    if not (isinstance(v, Vec) and len(v) == dim):
                        rep.undecided(R6, fi.site(p.ret_node), fi.fq, f"{dim}-vector per row", repr(v)[:80])
                        break
                    c = Vec([RF.atom(f"c.{i}") for i in range(dim)])
                    d = binop("-", v, c)
                    sq = RF.const(0)
                    for x in d.c:
                        sq = sq + x * x
                    sq = reduce_squares(sq, ev)
                    rad = RF.atom("r")
                    if is_b:
                        ok = sq == rad * rad
                        want = "r^2"
                    else:
                        us = sorted(a for a in sq.atoms() if a.startswith("U"))
                        gs = sorted(a for a in sq.atoms() if a.startswith("G."))
                        if gs:
                            ok = sq == rad * rad * (RF.atom("G.0") * RF.atom("G.0") + RF.atom("G.1") * RF.atom("G.1"))
                            want = "r^2 |G|^2 (G: unit-disc grid)"
                        else:
                            from fractions import Fraction
                            ok = len(us) == 1 and sq == rad * rad * RF.atom(us[0], Fraction(2, dim))
                            want = f"r^2 U^(2/{dim})  (<= r^2 since U in [0,1))"
                    rep.check(R6, ok, fi.site(p.ret_node), fi.fq, f"|p - c|^2 == {want}", f"|p - c|^2 = {sq!r}"[:240], f"{sq!r}"[:200])
                except (NotSym, NotPoly) as err:
                    rep.undecided(R6, fi.site(p.ret_node), fi.fq, "radial parametrisation evaluable", str(err))
                break
    # interval
    iv = repo.cls(f"{DOMp}.domain1D.interval.Interval")
    for mname in ("sample_random_uniform", "sample_grid"):
        fi = iv.methods.get(mname)
        rep.saw(fi)
        for p in paths(fi.node):
            if p.ret is RAISE or p.ret is None:
                continue
            r = p.ret
            val = r.args[0] if isinstance(r, ast.Call) and attr_chain(r.func) == "Points" and r.args else r
            ev = SymEval(_prim_atom(1))
            try:
                v = ev.ev(val)
                ts = sorted(a for a in v.atoms() if a.startswith("U") or a == "L") if isinstance(v, RF) else []
                ok = isinstance(v, RF) and len(ts) == 1 and v == RF.atom("lb") + RF.atom(ts[0]) * (RF.atom("ub") - RF.atom("lb"))
                rep.check(R7, ok, fi.site(p.ret_node), fi.fq, "p = lb + t*(ub - lb), t in [0, 1)", f"p = {v!r}", f"{v!r}")
            except (NotSym, NotPoly) as err:
                rep.undecided(R7, fi.site(p.ret_node), fi.fq, "convex combination evaluable", str(err))
            break
    sb = repo.cls(f"{DOMp}.domain1D.interval.IntervalSingleBoundaryPoint")
    fi = sb.methods.get("sample_random_uniform")
    rep.saw(fi)
    for p in paths(fi.node):
        if p.ret is RAISE or p.ret is None:
            continue
        val = p.ret.args[0] if isinstance(p.ret, ast.Call) and p.ret.args else p.ret
        ev = SymEval(_prim_atom(1))
        try:
            v = ev.ev(val)
            rep.check(R7, v == RF.atom("side"), fi.site(p.ret_node), fi.fq, "p = side(params)", f"p = {v!r}", f"{v!r}")
        except (NotSym, NotPoly) as err:
            rep.undecided(R7, fi.site(p.ret_node), fi.fq, "end point evaluable", str(err))
        break
    ib = repo.cls(f"{DOMp}.domain1D.interval.IntervalBoundary")
    for mname in ("sample_random_uniform", "sample_grid"):
        fi = ib.methods.get(mname)
        rep.saw(fi)
        for p in paths(fi.node):
            if p.ret is RAISE or p.ret is None:
                continue
            t = dump(p.ret)
            ok = "torch.where(" in t and "self.domain.lower_bound(" in t and "self.domain.upper_bound(" in t
            w = [c for c in ast.walk(p.ret) if isinstance(c, ast.Call) and attr_chain(c.func) == "torch.where" and len(c.args) == 3]
            ok = ok and bool(w) and "lower_bound" in dump(w[0].args[1]) and "upper_bound" in dump(w[0].args[2])
            rep.check(R7, ok, fi.site(p.ret_node), fi.fq, "every boundary sample is the lower or the upper bound", t[:120], t[:120])
            break


def r8_positive_proposals(repo: Repo, rep):
    R = rep.rule("R-C01-8", "boundary rejection sampling proposes at least one point on each operand's boundary per round (counts of the form int(..) + 1 / ceil(..) / max(1, ..))", floor=1,
                 why="with 0 proposals on the only operand that carries the result's boundary the rejection loop never finds a point")
    h = repo.module("problem.domains.domainoperations.sampler_helper")
    fi = h.functions.get("_compute_boundary_ratio")
    if fi is None:
        rep.undecided(R, h.relpath, "_compute_boundary_ratio", "proposal-count helper", "vanished: idiom not recognised")
        return
    rep.saw(fi)

    def positive(e):
        if isinstance(e, ast.BinOp) and isinstance(e.op, ast.Add):
            for a, b in ((e.left, e.right), (e.right, e.left)):
                if isinstance(b, ast.Constant) and isinstance(b.value, int) and b.value >= 1 and isinstance(a, ast.Call) and attr_chain(a.func) in ("int", "math.floor", "torch.floor", "round"):
                    return True
        if isinstance(e, ast.Call) and attr_chain(e.func) == "max" and any(isinstance(a, ast.Constant) and isinstance(a.value, int) and a.value >= 1 for a in e.args):
            return True
        if isinstance(e, ast.Call) and attr_chain(e.func) in ("int", "math.ceil") and e.args:
            inner = e.args[0]
            if attr_chain(e.func) == "math.ceil":
                return False  # ceil of a ratio that can be 0 is 0; only with a positive numerator, which is not told here
            return positive(inner)
        return False
    for p in paths(fi.node):
        if p.ret is RAISE or p.ret is None:
            continue
        elts = p.ret.elts if isinstance(p.ret, (ast.List, ast.Tuple)) else None
        if not elts:
            rep.undecided(R, fi.site(p.ret_node), fi.fq, "returns the two proposal counts", dump(p.ret)[:80])
            continue
        bad = [dump(x)[:70] for x in elts if not positive(x)]
        rep.check(R, not bad, fi.site(p.ret_node), fi.fq, "each count is at least 1 for every n and every ratio of boundary lengths", f"can be 0: {bad}", f"count may be 0: {bad}")


def r11_polygon_rejection(repo: Repo, rep):
    R = rep.rule("R-C01-11", "ShapelyPolygon samples triangle by triangle: points of a triangle that is not within the polygon are kept only where the polygon's OWN membership test "
                 "(self._contains on those points: holes included) accepts them, and the triangle used for topping up is one that lies within the polygon", floor=2,
                 why="a crossing test against the exterior ring keeps points inside a hole; topping up in the biggest triangle of a non-convex polygon - which may lie completely outside - never accepts a point")
    ci = repo.cls("problem.domains.domain2D.shapely_polygon.ShapelyPolygon")
    tri = ci.methods.get("_sample_in_triangulation")
    su = ci.methods.get("sample_random_uniform")
    if tri is None or su is None:
        raise AnalysisError("ShapelyPolygon._sample_in_triangulation / sample_random_uniform vanished")
    rep.saw(tri), rep.saw(su)
    # (a) the rejection step
    n_rej = 0
    for node in ast.walk(tri.node):
        if not (isinstance(node, ast.If) and "within" in dump(node.test)):
            continue
        neg = isinstance(node.test, ast.UnaryOp) and isinstance(node.test.op, ast.Not)
        body = node.body if neg else node.orelse
        if not body:
            continue
        n_rej += 1
        accepted = set()  # names derived from self._contains(..)
        ok = False
        for st in body:
            for a in ast.walk(st):
                if isinstance(a, ast.Assign):
                    from_own = any(isinstance(c, ast.Call) and dump(c.func) == "self._contains" for c in ast.walk(a.value))
                    from_acc = any(isinstance(x, ast.Name) and x.id in accepted for x in ast.walk(a.value))
                    foreign = [dump(c.func) for c in ast.walk(a.value) if isinstance(c, ast.Call) and ("contains" in dump(c.func) or "within" in dump(c.func)) and dump(c.func) != "self._contains"]
                    tg = {x.id for t in a.targets for x in ast.walk(t) if isinstance(x, ast.Name)}
                    if (from_own or from_acc) and not foreign:
                        if isinstance(a.value, ast.Subscript):
                            sl = a.value.slice
                            sl = sl.elts[0] if isinstance(sl, ast.Tuple) and sl.elts else sl
                            while isinstance(sl, ast.Subscript):
                                sl = sl.value  # idx[0] of a where-tuple
                            by_rows = (isinstance(sl, ast.Name) and sl.id in accepted) or \
                                (isinstance(sl, ast.Call) and (dump(sl.func) == "self._contains" or (attr_chain(sl.func) or "").split(".")[-1] in ("where", "nonzero"))
                                 and any((isinstance(x, ast.Name) and x.id in accepted) or (isinstance(x, ast.Call) and dump(x.func) == "self._contains") for x in ast.walk(sl)))
                            if by_rows:
                                ok = True  # points selected by the accepted rows themselves (a mask or their indices), not by their number
                        accepted |= tg
        rep.check(R, ok, tri.site(node), tri.fq, "points of a triangle that leaves the polygon are selected by self._contains(points)", "no selection by the polygon's own membership test", "rejection without self._contains")
    if n_rej == 0:
        rep.violation(R, tri.site(), tri.fq, "triangles that are not within the polygon get their points filtered", "no `within` test", "no rejection step")
    # (b) the top-up triangle
    tops = [c for fn in (su,) + tuple(m for m in ci.methods.values() if m is not su) for c in ast.walk(fn.node)
            if isinstance(c, ast.Call) and dump(c.func) == "self._check_enough_points_sampled"]
    tname = None
    for c in ast.walk(su.node):
        if isinstance(c, ast.Call) and dump(c.func) == "self._check_enough_points_sampled" and len(c.args) >= 3 and isinstance(c.args[2], ast.Name):
            tname = c.args[2].id
    if tname is None:
        rep.undecided(R, su.site(), su.fq, "the triangle handed to the top-up step", "call not recognised")
        return
    from ..util import parent_map
    pm = parent_map(su.node)
    for a in ast.walk(su.node):
        if not (isinstance(a, ast.Assign) and any(isinstance(x, ast.Name) and x.id == tname for t in a.targets for x in ast.walk(t))):
            continue
        if all(isinstance(v, ast.Constant) for v in (a.value.elts if isinstance(a.value, ast.Tuple) else [a.value])):
            continue  # initialisation
        guards, q = [], pm.get(id(a))
        while q is not None and q is not su.node:
            if isinstance(q, ast.If):
                guards.append(dump(q.test))
            q = pm.get(id(q))
        rep.check(R, any("within(self.polygon)" in g and "not " not in g.split("within")[0][-5:] for g in guards), su.site(a), su.fq,
                  f"`{tname}` (the top-up triangle) is only ever a triangle that lies within the polygon", f"assigned under {guards or 'no guard'}", f"{tname} assigned under {guards}")
        # .. and it is remembered for EVERY such triangle, also one whose share of the n points rounded to zero (small n: every share may be zero)
        share = [g for g in guards if "is not None" in g or "is None" in g or g.strip().startswith(("len(", "new_points"))]
        # the same test written as an early `continue` in front of the assignment
        q, child = pm.get(id(a)), a
        while q is not None and not isinstance(q, (ast.For, ast.While)):
            child, q = q, pm.get(id(q))
        if isinstance(q, (ast.For, ast.While)) and child in q.body:
            for st in q.body[: q.body.index(child)]:
                if isinstance(st, ast.If) and ("is None" in dump(st.test) or "is not None" in dump(st.test) or dump(st.test).startswith(("len(", "not "))) \
                        and any(isinstance(x, ast.Continue) for x in ast.walk(st)):
                    share.append(f"{dump(st.test)[:40]}: continue")
        rep.check(R, not share, su.site(a), su.fq, f"`{tname}` is chosen whether or not the triangle received a share of the points (for n = 1 every share rounds to zero)",
                  f"assigned only under {share}", f"{tname} assigned only under {share}")


def r10_perimeter_walk(repo: Repo, rep):
    R = rep.rule("R-C01-10", "the perimeter walk of a polygon outline writes EVERY requested arc-length position onto the side it falls on - evaluated on rings of three and four sides "
                 "(five coordinates, the last repeats the first) with one position in the middle of each side, the closing side included", floor=4,
                 why="a position the walk does not reach keeps the zero row of the pre-allocated result: (0, 0) is returned as a boundary sample of a polygon that does not pass through the origin")
    from fractions import Fraction
    from ..absdom.listeval import Evaluator, Model, NotEval, Opaque
    ci = repo.cls("problem.domains.domain2D.shapely_polygon.ShapelyBoundary")
    fi = ci.methods.get("_distribute_line_to_boundary")
    if fi is None:
        raise AnalysisError("ShapelyBoundary._distribute_line_to_boundary vanished")
    rep.saw(fi)

    class Corner(Model):
        def __init__(self, k):
            self.k = k

        def le_binop(self, op, other, reflected):
            if isinstance(op, ast.Sub) and isinstance(other, Corner):
                return Side(*((other.k, self.k) if not reflected else (self.k, other.k)))
            raise NotEval("corner arithmetic")

    class Side(Model):
        def __init__(self, a, b):
            self.a, self.b = a, b

    def on_call(e, name, args, kws, ev, f):
        if name in ("torch.linalg.norm", "torch.norm", "torch.linalg.vector_norm") and args and isinstance(args[0], Side):
            return 2 if abs(args[0].a - args[0].b) == 1 else None
        if name.startswith("self._") and len(args) >= 5:
            # the helper that places one position: (side it is given, offset on that side)
            h = repo.resolve_method(ci, name[5:])
            if h is None:
                return None
            b = dict(zip(h.params[1:], args))
            b.update(kws)
            try:
                return ("placed", b["corner_index"], b["line_points"][b["index"]] - b["current_length"])
            except (KeyError, TypeError, IndexError):
                return None
        return None
    p = fi.params
    half = 1  # sides of length 2: the middle of side k is the arc length 2k + 1
    for n_sides in (3, 4):
        corners = [Corner(k) for k in range(n_sides)] + [Corner(n_sides)]
        line = [2 * k + half for k in range(n_sides)]
        pts = [0] * n_sides
        env = {"self": Opaque("self"), p[1]: pts, p[2]: 0, p[3]: line, p[4]: corners, p[5]: 0}
        try:
            fr = Evaluator(None, on_call).run(fi.node.body, env)
            got = fr.ret
        except NotEval as err:
            got = None
        if not (isinstance(got, tuple) and len(got) == 3 and isinstance(got[0], list)):
            rep.undecided(R, fi.site(), fi.fq, f"ring of {n_sides} sides: walk evaluable", repr(got)[:80])
            continue
        res, index, length = got
        for k in range(n_sides):
            ok = res[k] == ("placed", k, half)
            rep.check(R, ok, fi.site(), fi.fq, f"ring of {n_sides} sides of length 2: arc length {2 * k + 1} is placed on side {k} at offset 1", f"{res[k]!r}", f"{n_sides} sides, position {k}: {res[k]!r}")
        rep.check(R, index == n_sides, fi.site(), fi.fq, f"ring of {n_sides} sides: all {n_sides} positions are consumed", f"index {index!r}", f"{n_sides} sides: index {index!r}")


def r9_finite_for_every_count(repo: Repo, rep):
    R = rep.rule("R-C01-9", "grid / random formulas of the domain samplers stay finite for every requested count n >= 1: no quotient whose denominator is a polynomial in n "
                 "alone with a root at n = 1, 2, 3 or 4", floor=1,
                 why="index / (n - 1) is 0/0 for n = 1: the single returned point is (nan, nan, nan) - not a point of the domain")
    from ..absdom.poly import RF, NotPoly, to_rf
    from ..util import deref, single_defs
    from fractions import Fraction
    examined = 0
    for mname, m in repo.modules.items():
        if ".problem.domains." not in mname:
            continue
        for ci in m.classes.values():
            for fi in ci.methods.values():
                if not (fi.name.startswith(("sample_grid", "_sample_grid", "sample_random", "_sample_random", "_grid", "_point_grid")) or "grid" in fi.name):
                    continue
                tmp = single_defs(fi.node)
                rebound = {t.id for a in ast.walk(fi.node) if isinstance(a, ast.Assign) for t in a.targets if isinstance(t, ast.Name)} & set(fi.params)
                for d in ast.walk(fi.node):
                    if not (isinstance(d, ast.BinOp) and isinstance(d.op, (ast.Div, ast.FloorDiv, ast.Mod))):
                        continue
                    examined += 1
                    den = deref(d.right, tmp)
                    names = {x.id for x in ast.walk(den) if isinstance(x, ast.Name)}
                    if names != {"n"}:
                        continue
                    try:
                        rf = to_rf(den, lambda x: RF.atom(x.id) if isinstance(x, ast.Name) else None)
                    except NotPoly:
                        continue
                    rep.saw(fi)
                    zeros = []
                    for k in (1, 2, 3, 4):
                        try:
                            v = rf.subst({"n": RF.const(k)}) if hasattr(rf, "subst") else None
                        except Exception:
                            v = None
                        if v is None:
                            v = _eval_poly_in_n(den, k)
                        val = v.const_value() if isinstance(v, RF) else v
                        if val is not None and val == 0:
                            zeros.append(k)
                    rep.check(R, not zeros, fi.site(d), fi.fq, "denominator non-zero for n = 1..4", f"`{dump(d.right)}` vanishes at n = {zeros}", f"denominator {dump(den)[:50]} zero at n={zeros}")
    rep.check(R, examined > 0, "src/torchphysics/problem/domains", "-", "quotients of the samplers examined", f"{examined} quotients", "no quotient examined")


def _eval_poly_in_n(e: ast.AST, k: int):
    """value of an integer expression in the single name n (None when not evaluable)"""
    from fractions import Fraction
    try:
        if isinstance(e, ast.Constant) and isinstance(e.value, (int, float)) and not isinstance(e.value, bool):
            return Fraction(str(e.value))
        if isinstance(e, ast.Name) and e.id == "n":
            return Fraction(k)
        if isinstance(e, ast.UnaryOp) and isinstance(e.op, ast.USub):
            v = _eval_poly_in_n(e.operand, k)
            return None if v is None else -v
        if isinstance(e, ast.BinOp):
            a, b = _eval_poly_in_n(e.left, k), _eval_poly_in_n(e.right, k)
            if a is None or b is None:
                return None
            if isinstance(e.op, ast.Add):
                return a + b
            if isinstance(e.op, ast.Sub):
                return a - b
            if isinstance(e.op, ast.Mult):
                return a * b
            if isinstance(e.op, ast.Div) and b != 0:
                return a / b
            if isinstance(e.op, ast.Pow) and b.denominator == 1 and b >= 0:
                return a ** int(b)
    except Exception:
        return None
    return None


def run(repo: Repo, rep):
    r11_polygon_rejection(repo, rep)
    from .c11 import r5_r6_mixtures  # row k of a union sample belongs to parameter row k // n: operands are mixed row-wise (where), never re-ordered by selection and concatenation
    r5_r6_mixtures(repo, rep)
    r10_perimeter_walk(repo, rep)
    r9_finite_for_every_count(repo, rep)
    from .c06 import r7b_edge_table  # rejection on a polygon boundary accepts what its membership accepts: only the lines of its own sides
    r7b_edge_table(repo, rep)
    r8_positive_proposals(repo, rep)
    from .c02 import r15_quota_loops  # a rejection loop that gives up returns rows that were never accepted (zeros) - points outside the set
    r15_quota_loops(repo, rep)
    r1_facts(repo, rep)
    r5_primitive_parametrisations(repo, rep)
    r2_filtering(repo, rep)
    r2_pullback(repo, rep, rule_id="R-C01-3")
    r4_dependent_product(repo, rep)
    from .c02 import r3_per_row_loops  # stale per-row state returns points sampled for another parameter row
    r3_per_row_loops(repo, rep)
    from .c05 import r1_truth_tables, r4_cramer  # the membership formulas the implication targets must be the set algebra; rejection relies on the primitives' barycentric solve
    r1_truth_tables(repo, rep)
    r4_cramer(repo, rep)
    from .c02 import r9_motion_params  # a point moved with another row's motion lies in another row's domain
    r9_motion_params(repo, rep)
    from .c11 import r4_mirror  # barycentric pairs stay admissible only if the pairs with u + v >= 1 (and only those rows) are mirrored
    r4_mirror(repo, rep)
    from .c13 import r5_copy_on_partial  # a partially evaluated domain keeps its own fixed values: samples of D(t=1) must not follow a later D(t=5)
    r5_copy_on_partial(repo, rep)
    from .c15 import r2_adaptive  # retained rows of the adaptive samplers stay whole rows (position and the parameters it was drawn for)
    r2_adaptive(repo, rep)
    from .c10 import r1_r2_formulas  # the volume-weighted acceptance of dependent products relies on the signed / analytic measures (an empty slice must not get positive weight)
    r1_r2_formulas(repo, rep)
    from .c17 import r5_point_data  # samples of a partially evaluated product lie in it only if the fixed factor's Point has its coordinates in space order
    r5_point_data(repo, rep)
    from .c17 import r1_roundtrip  # samples of an evaluated domain D(t=..) lie in the set the user built only if every constructor argument (pivot, flags, sub-domains) is carried over
    r1_roundtrip(repo, rep)
    from .c17 import r1b_motion_boundaries  # boundary samples of a moved domain are the moved samples of the inner boundary: same shift / rotation / pivot
    r1b_motion_boundaries(repo, rep)
    from .c05 import r5_purity, r7_own_columns  # rejection steps hand the proposals to _contains: a test that shifts them in place, or reads other columns than its own, returns points outside the set
    r5_purity(repo, rep)
    r7_own_columns(repo, rep)


_H = "src/torchphysics/problem/domains/domainoperations/sampler_helper.py"
_U = "src/torchphysics/problem/domains/domainoperations/union.py"
_CU = "src/torchphysics/problem/domains/domainoperations/cut.py"
_I = "src/torchphysics/problem/domains/domainoperations/intersection.py"
_P = "src/torchphysics/problem/domains/domainoperations/product.py"
_T = "src/torchphysics/problem/domains/domainoperations/translate.py"
_RS = "src/torchphysics/problem/samplers/random_samplers.py"
MUTANTS = [
    dict(id="C01-M60", file="src/torchphysics/problem/domains/domain3D/sphere.py", old="index / max(n - 1, 1) * 2", new="index / (n - 1) * 2", rule="R-C01-9", what="0/0 for a one-point grid (the repaired defect)"),
    dict(id="C01-M1", file=_CU, old="                invert=True,\n                device=device,\n            )\n        return self._sample_random_with_d", new="                invert=False,\n                device=device,\n            )\n        return self._sample_random_with_d", rule="R-C01-1", what="cut samples inside B"),
    dict(id="C01-M2", file=_I, old="                invert=False,\n                device=device,\n            )\n        return self._sample_grid_with_d", new="                invert=True,\n                device=device,\n            )\n        return self._sample_grid_with_d", rule="R-C01-1", what="intersection grid samples outside B"),
    dict(id="C01-M3", file=_H, old="    inside_b = domain_b._contains(grid_a, params)\n    if invert:\n        inside_b = torch.logical_not(inside_b)", new="    inside_b = domain_b._contains(grid_a, params)\n    if not invert:\n        inside_b = torch.logical_not(inside_b)", rule="R-C01-1", what="polarity flipped in the shared helper"),
    dict(id="C01-M4", file=_U, old="        index = torch.where(torch.logical_not(inside))[0]\n        return points[index,]", new="        index = torch.where(inside)[0]\n        return points[index,]", rule="R-C01-1", what="union boundary keeps the points inside B"),
    dict(id="C01-M5", file=_H, old="        random_points = random_points | new_points[index_valid[:n],]", new="        random_points = random_points | new_points[:n,]", rule="R-C01-1", what="filter dropped"),
    dict(id="C01-M6", file=_CU, old="        inside = torch.logical_and(inside, torch.logical_not(on_bound))\n        index = torch.where(inside)[0]\n        return points[index,]", new="        inside = torch.logical_and(torch.logical_not(inside), torch.logical_not(on_bound))\n        index = torch.where(inside)[0]\n        return points[index,]", rule="R-C01-1", what="cut boundary keeps the b-boundary outside A"),
    dict(id="C01-M7", file=_H, old="    return grid_a[on_bound_a,] | grid_b[on_bound_b,]", new="    return grid_a[on_bound_b,] | grid_b[on_bound_a,]", rule="R-C01-1", what="index of the other grid"),
    dict(id="C01-M8", file=_U, old="        valid_points = torch.logical_or(on_bound, torch.logical_not(inside))", new="        valid_points = torch.logical_and(on_bound, torch.logical_not(inside))", rule="R-C01-1b", what="unsatisfiable filter"),
    dict(id="C01-M9", file=_T, old="        translated_points = original_points + translate_values", new="        translated_points = original_points - translate_values", rule="R-C01-3", what="sampler push-forward sign"),
    dict(id="C01-M10", file=_RS, old="        inside = self.domain._contains(new_points)\n        index = torch.where(inside)[0]\n        return new_points[index,]\n\n\nclass LHSSampler", new="        inside = self.domain._contains(new_points)\n        index = torch.where(inside)[0]\n        return new_points\n\n\nclass LHSSampler", rule="R-C01-2", what="Gaussian proposals unfiltered"),
    dict(id="C01-M11", file=_P, old="            return a_points.join(b_points)", new="            b_points = self.domain_b.sample_random_uniform(n=len(a_points), params=params, device=device)\n            return a_points.join(b_points)", rule="R-C01-4", what="b re-sampled before the join"),
    dict(id="C01-M12", file=_I, old="        index = torch.where(in_b)[0]\n        return points[index,]", new="        index = torch.where(torch.logical_not(in_b))[0]\n        return points[index,]", rule="R-C01-1", what="intersection density path keeps the points outside B"),
    dict(id="C01-M13", file=_U, old="        in_a = self.domain_a._contains(points=points_b, params=repeated_params)\n        # approximate", new="        in_a = self.domain_a._contains(points=points_a, params=repeated_params)\n        # approximate", rule=None, what="(control) union mask about a instead of b: still inside the union"),
]
_CIf = "src/torchphysics/problem/domains/domain2D/circle.py"
_PAf = "src/torchphysics/problem/domains/domain2D/parallelogram.py"
_IVf = "src/torchphysics/problem/domains/domain1D/interval.py"
_SPf = "src/torchphysics/problem/domains/domain3D/sphere.py"
MUTANTS += [
    dict(id="C01-M14", file=_CIf, old="        r *= radius\n", new="        r *= 2 * radius\n", rule="R-C01-6", what="disc samples with twice the radius"),
    dict(id="C01-M15", file=_PAf, old="        points_in_dir_2 = bary_coords[:, :, 1:] * dir_2[:, None]", new="        points_in_dir_2 = bary_coords[:, :, 1:] * dir_1[:, None]", rule="R-C01-5", what="second barycentric coordinate along dir_1"),
    dict(id="C01-M16", file=_IVf, old="        points *= ub - lb\n        points += lb\n        return Points(points.reshape(-1, self.space.dim), self.space)\n\n    def sample_grid", new="        points *= ub\n        points += lb\n        return Points(points.reshape(-1, self.space.dim), self.space)\n\n    def sample_grid", rule="R-C01-7", what="interval scaled by the upper bound"),
    dict(id="C01-M17", file=_SPf, old="        points *= radius.item()\n        points = torch.add(points, center)", new="        points = radius.item() * torch.add(points, center)", rule="R-C01-6", what="sphere grid scaled after the shift"),
    dict(id="C01-M18", file=_SPf, old="        z = torch.multiply(r, torch.sin(theta))\n        points = torch.cat((x, y, z), dim=2)", new="        z = torch.multiply(r, torch.cos(theta))\n        points = torch.cat((x, y, z), dim=2)", rule="R-C01-6", what="z uses cos(theta): not on the sphere"),
]
TWINS_EXTRA = [
    dict(id="C01-T4", file=_PAf, old="        points = points_in_dir_1 + points_in_dir_2\n        points += origin[:, None, :]", new="        points = origin[:, None, :] + points_in_dir_2 + points_in_dir_1", what="commuted sum"),
    dict(id="C01-T5", file=_CIf, old="        r *= radius\n", new="        r = radius * r\n", what="out-of-place scaling"),
]
MUTANTS = [m for m in MUTANTS if m["id"] != "C01-M13"]
_SHP = "src/torchphysics/problem/domains/domain2D/shapely_polygon.py"
MUTANTS += [
    dict(id="C01-M19", file=_SHP, old="            if new_points is not None:\n                points = torch.cat((points, new_points), dim=0)\n", new="            if new_points is None:\n                continue\n            points = torch.cat((points, new_points), dim=0)\n", rule=None, rules=["R-C01-11", "R-C02-15"], what="top-up triangle skipped with the empty share (the repaired defect, continue form)"),
    dict(id="C01-M20", file=_SHP, old="                inside = self._contains(new_points)\n                index = torch.where(inside)[0]\n                new_points = new_points[index]", new="                inside = self._contains(new_points)\n                index = torch.where(inside)[0]\n                new_points = new_points[: len(index)]", rule="R-C01-11", what="as many points as were accepted, not the accepted ones"),
    dict(id="C01-M21", file=_SHP, old="                if corner_index >= len(corners) - 1:", new="                if corner_index >= len(corners) - 2:", rule="R-C01-10", what="perimeter walk stops before the closing side"),
]
TWINS = [
    dict(id="C01-T1", file=_U, old="        valid_points = torch.logical_or(on_bound, torch.logical_not(inside))", new="        valid_points = torch.logical_not(torch.logical_and(torch.logical_not(on_bound), inside))", what="De Morgan"),
    dict(id="C01-T2", file=_H, old="    inside_b = domain_b._contains(grid_a, params)\n    if invert:\n        inside_b = torch.logical_not(inside_b)\n    index = torch.where(inside_b)[0]\n    return index",
         new="    member = domain_b._contains(grid_a, params)\n    keep = torch.logical_not(member) if invert else member\n    return torch.where(keep)[0]", what="conditional expression, renamed"),
    *[], dict(id="C01-T3", file=_CU, old="        in_b = self.domain_b._contains(points=points_a, params=repeated_params)\n        index = torch.where(torch.logical_not(in_b))[0]\n        return points_a[index,]",
         new="        outside_b = ~self.domain_b._contains(points=points_a, params=repeated_params)\n        return points_a[torch.where(outside_b)[0],]", what="operator form"),
]

TWINS = TWINS + TWINS_EXTRA

"""C01 — every sampled point lies in the domain it was sampled from.

Decided: rejection discipline of every CSG / filtering sampler (facts established
about each returned point set propositionally imply the class's own membership
formula, on every path); push-forward / pull-back pairing of Translate / Rotate;
the dependent product samples A at the B points it returns.  Not decided:
geometry of the primitive parametrisations, tolerances, termination.
"""
from __future__ import annotations

import ast
from typing import Dict, List

from ..absdom import boolform as B
from ..absdom.facts import OPAQUE, Const, Interp, Misuse, Undecided, operands
from ..flow import RAISE, attr_chain, def_id, dump, kwarg, paths
from ..repo import AnalysisError, Repo
from ..util import ends
from .c05 import REFERENCE, closed_only, membership_formula, r2_pullback

EXPLANATION = (
    "Abstract interpretation of every sampling function of union/cut/intersection domains and boundaries (helpers interpreted "
    "under the call site's bindings): each abstract point set carries the facts established about its rows (formula over in_a, "
    "in_b, on_a, on_b); masks/indices remember the points they were computed on; for every returned operand the implication "
    "facts => membership formula of the class (extracted from its own _contains, checked against set algebra by C05) is decided "
    "by truth table under closedness, and the fact set must be satisfiable. Filtering samplers must return only rows filtered by "
    "self.domain._contains on the same points; Translate/Rotate push-forwards invert the pull-backs; the dependent product "
    "samples the first factor at the very second-factor points it returns."
)
ASSUMPTIONS = [
    "operands are closed sets and the operand samplers/membership tests are correct (induction over the expression; primitives are not decided)",
    "rejection loops terminate (positive measure is the property's proviso)",
    "loops run at least once",
]
OPS = "problem.domains.domainoperations"
CLASSES = [
    ("union", "UnionDomain"), ("union", "UnionBoundaryDomain"), ("cut", "CutDomain"), ("cut", "CutBoundaryDomain"),
    ("intersection", "IntersectionDomain"), ("intersection", "IntersectionBoundaryDomain"),
]


def r1_facts(repo: Repo, rep):
    R = rep.rule("R-C01-1", "facts established about every returned operand of a CSG sampler imply the class's membership formula (all paths, helpers inlined)",
                 floor=40, why="a returned row for which the implication fails lies, for a generic operand pair, outside the set")
    Rb = rep.rule("R-C01-1b", "the fact set of every returned operand is satisfiable (a filter that can never accept delivers no point / loops forever)", floor=40,
                  why="an unsatisfiable filter means the sampler cannot return the requested points")
    total_ops = 0
    for mod, cname in CLASSES:
        ci = repo.cls(f"{OPS}.{mod}.{cname}")
        cf = ci.methods.get("_contains")
        if cf is None:
            raise AnalysisError(f"{cname}._contains vanished")
        try:
            forms, problems = membership_formula(cf)
        except B.NotBool as e:
            rep.undecided(R, cf.site(), cf.fq, "membership formula of the class extractable", str(e))
            continue
        F = forms[0][0]
        is_b = "Boundary" in cname
        for mname in ("sample_random_uniform", "sample_grid"):
            fi = ci.methods.get(mname)
            if fi is None:
                raise AnalysisError(f"{cname}.{mname} vanished")
            rep.saw(fi)
            it = Interp(repo, ci, F, is_b)
            try:
                rets = it.entry(fi, {p: OPAQUE for p in fi.params[1:]})
            except Undecided as e:
                rep.undecided(R, fi.site(), fi.fq, "sampling function interpretable", str(e))
                continue
            except Misuse as e:
                rep.violation(R, fi.site(getattr(e, "node", None)), fi.fq, "masks/indices are applied to the points they were computed on", str(e), str(e))
                continue
            for f in it.visited:
                rep.saw(f)
            if not rets:
                rep.undecided(R, fi.site(), fi.fq, "at least one return", "none")
                continue
            for v, site in zip(rets, it.ret_sites):
                ops = operands(v)
                if ops is None:
                    rep.undecided(R, fi.site(site), fi.fq, "returns sampled points", f"returns {type(v).__name__}")
                    continue
                if not ops:
                    rep.violation(R, fi.site(site), fi.fq, "returns sampled points", "returns an empty point set on this path", "empty")
                    continue
                for o in ops:
                    total_ops += 1
                    ok, cex, n = B.implies(o.facts, F, closed_only, extra_atoms={"in_a", "in_b"} | ({"on_a", "on_b"} if is_b else set()))
                    rep.check(R, ok, fi.site(site), fi.fq, f"facts ⊢ {B.show(F)}",
                              f"operand from {o.origin}: facts {B.show(o.facts)}" + ("" if ok else f"; counter-assignment {cex}"),
                              f"{o.origin}: {B.show(o.facts)}")
                    sat = B.satisfiable(o.facts, closed_only)
                    rep.check(Rb, sat, fi.site(site), fi.fq, "facts satisfiable under closedness", f"operand from {o.origin}: {B.show(o.facts)}", f"{o.origin}: {B.show(o.facts)}")
    rep.extra["returned_operands"] = total_ops


def r2_filtering(repo: Repo, rep):
    R = rep.rule("R-C01-2", "filtering samplers (Gaussian, LHS) return only rows accepted by self.domain._contains evaluated on those same rows, "
                 "or rows produced by a RandomUniformSampler over self.domain", floor=3,
                 why="proposals from a normal law / bounding box are generally outside the domain")
    rs = "problem.samplers.random_samplers"
    # Gaussian: _check_inside_domain ; LHS: _check_lhs_inside ; both: index from domain._contains(new_points)
    for cname, helper in (("GaussianSampler", "_check_inside_domain"), ("LHSSampler", "_check_lhs_inside")):
        ci = repo.cls(f"{rs}.{cname}")
        h = ci.methods.get(helper)
        if h is None:
            rep.undecided(R, ci.module.relpath, ci.fq, f"membership filter {helper}", "vanished: idiom not recognised")
            continue
        rep.saw(h)
        for p in paths(h.node):
            if p.ret is RAISE:
                continue
            r = p.ret
            good = False
            detail = dump(r)[:140]
            if isinstance(r, ast.Subscript):
                base = r.value
                idx = r.slice.elts[0] if isinstance(r.slice, ast.Tuple) else r.slice
                # idx == torch.where(self.domain._contains(BASE))[0]
                t = idx
                if isinstance(t, ast.Subscript) and dump(t.slice) == "0":
                    t = t.value
                if isinstance(t, ast.Call) and attr_chain(t.func) == "torch.where" and len(t.args) == 1:
                    m = t.args[0]
                    if isinstance(m, ast.Call) and dump(m.func) == "self.domain._contains" and m.args:
                        good = dump(m.args[0]) == dump(base)
                        if not good:
                            detail = f"mask computed on `{dump(m.args[0])[:60]}`, applied to `{dump(base)[:60]}`"
                elif isinstance(t, ast.Call) and dump(t.func) == "self.domain._contains" and t.args:
                    good = dump(t.args[0]) == dump(base)
            rep.check(R, good, h.site(p.ret_node), h.fq, "returns points[where(self.domain._contains(points))]", detail, detail)
        # every returned row of _sample_points went through the filter (or the random top-up)
        sp = ci.methods.get("_sample_points")
        if sp is None:
            raise AnalysisError(f"{cname}._sample_points vanished")
        rep.saw(sp)
        src = ast.unparse(sp.node)
        calls = [c for c in ast.walk(sp.node) if isinstance(c, ast.Call) and dump(c.func) == f"self.{helper}"]
        rep.check(R, len(calls) >= 1, sp.site(), sp.fq, f"proposals pass through self.{helper} before accumulation", f"{len(calls)} call(s)", "filter not called")
        for p in paths(sp.node):
            if p.ret is RAISE or p.ret is None:
                continue
            txt = dump(p.ret)
            # the accumulated value must be built from the filtered points only
            raw_sources = []
            for c in ast.walk(p.ret):
                if isinstance(c, ast.Call) and isinstance(c.func, ast.Attribute) and c.func.attr == "sample" and "Normal" in dump(c.func.value):
                    raw_sources.append(c)
                if isinstance(c, ast.Call) and dump(c.func) == "self._create_lhs_in_bounding_box":
                    raw_sources.append(c)
            from ..util import parent_map
            pm = parent_map(p.ret)
            unfiltered = []
            for c in raw_sources:
                n, ok = c, False
                while id(n) in pm:
                    n = pm[id(n)]
                    if isinstance(n, ast.Call) and dump(n.func) == f"self.{helper}":
                        ok = True
                        break
                if not ok:
                    unfiltered.append(dump(c)[:50])
            rep.check(R, bool(raw_sources) and not unfiltered, sp.site(p.ret_node), sp.fq, "every proposal in the result is wrapped by the membership filter",
                      f"{len(raw_sources)} proposal source(s), unfiltered: {unfiltered[:2]}", str(unfiltered[:2]))
    # LHS top-up from a RandomUniformSampler on the same domain
    lhs = repo.cls(f"{rs}.LHSSampler")
    ap = lhs.methods.get("_append_random_points")
    if ap is not None:
        rep.saw(ap)
        for p in paths(ap.node):
            if p.ret is RAISE:
                continue
            r = p.ret
            if isinstance(r, ast.BinOp) and isinstance(r.op, ast.BitOr):
                other = r.right if dump(r.left) == ap.params[1] else r.left
                good = isinstance(other, ast.Call) and isinstance(other.func, ast.Attribute) and other.func.attr == "sample_points" and isinstance(other.func.value, ast.Call) \
                    and ends(attr_chain(other.func.value.func), "RandomUniformSampler") and dump(kwarg(other.func.value, "domain", 0)) == "self.domain"
                pa = other.args[0] if isinstance(other, ast.Call) and other.args else None
                good = good and pa is not None and dump(pa) == ap.params[2]
                rep.check(R, good, ap.site(p.ret_node), ap.fq, "missing points are drawn by RandomUniformSampler(self.domain) for the same parameter row", dump(r)[:140], dump(r)[:140])
    # filter_fn path of samplers: rows kept are those where the filter is true, on the same points
    base = repo.cls("problem.samplers.sampler_base.PointSampler")
    af = base.methods.get("_apply_filter")
    if af is not None:
        rep.saw(af)
        for p in paths(af.node):
            if p.ret is RAISE:
                continue
            want = f"{af.params[1]}[torch.where(self.filter_fn({af.params[1]}))[0],]"
            rep.check(R, dump(p.ret).replace(" ", "") == want.replace(" ", ""), af.site(), af.fq, "filtered = points[where(filter_fn(points))]", dump(p.ret), dump(p.ret))


def r4_dependent_product(repo: Repo, rep):
    R = rep.rule("R-C01-4", "dependent product: the first factor is sampled (n=1 per row) with params containing the very second-factor points that are joined into the result",
                 floor=2, why="A(b) must be evaluated at the b the row carries; re-sampled or stale b points give rows outside the product set")
    pd = repo.cls(f"{OPS}.product.ProductDomain")
    fi = pd.methods.get("sample_random_uniform")
    if fi is None:
        raise AnalysisError("ProductDomain.sample_random_uniform vanished")
    rep.saw(fi)
    n = 0
    for p in paths(fi.node):
        if p.ret is RAISE or p.ret is None:
            continue
        r = p.ret
        if isinstance(r, ast.Call) and dump(r.func) == "self.sample_random_uniform":
            continue  # density path delegates to the n path
        if not (isinstance(r, ast.Call) and isinstance(r.func, ast.Attribute) and r.func.attr == "join" and len(r.args) == 1):
            rep.undecided(R, fi.site(p.ret_node), fi.fq, "returns a_points.join(b_points)", dump(r)[:100])
            continue
        n += 1
        a, b = r.func.value, r.args[0]
        good = isinstance(a, ast.Call) and dump(a.func) == "self.domain_a.sample_random_uniform"
        detail = dump(r)[:160]
        if good:
            na = kwarg(a, "n", 0)
            pa = kwarg(a, "params", 2)
            good = na is not None and dump(na) == "1" and pa is not None
            if good:
                # params must contain b (same value, same evaluation)
                contains_b = any(dump(x) == dump(b) for x in ast.walk(pa))
                good = contains_b
                if not contains_b:
                    detail = f"A sampled at params `{dump(pa)[:70]}`, result joined with `{dump(b)[:70]}`"
        rep.check(R, good, fi.site(p.ret_node), fi.fq, "domain_a.sample_random_uniform(n=1, params ∋ b_points).join(b_points) with the same b_points", detail, detail)
        if good:
            bsrc = [c for c in ast.walk(b) if isinstance(c, ast.Call) and isinstance(c.func, ast.Attribute) and c.func.attr in ("sample_random_uniform", "_sample_uniform_b_points")]
            okb = bool(bsrc) and all(dump(c.func.value) in ("self.domain_b", "self") for c in bsrc)
            rep.check(R, okb, fi.site(p.ret_node), fi.fq, "b_points come from domain_b's sampler", dump(b)[:100], dump(b)[:100])
    if n == 0:
        rep.undecided(R, fi.site(), fi.fq, "a joining return path", "none")
    ub = pd.methods.get("_sample_uniform_b_points")
    if ub is not None:
        rep.saw(ub)
        for p in paths(ub.node):
            if p.ret is RAISE:
                continue
            r = p.ret
            if isinstance(r, ast.Tuple) and len(r.elts) == 3:
                bpts, prm = r.elts[1], r.elts[2]
                # rows of b and of params are filtered by the same mask
                if isinstance(bpts, ast.Subscript) and isinstance(prm, (ast.Subscript, ast.IfExp, ast.Name, ast.Call)):
                    fb = dump(bpts.slice)
                    fp = [dump(s.slice) for s in ast.walk(prm) if isinstance(s, ast.Subscript) and getattr(s, "_tuple_elt", False) is False and "filter" in dump(s.slice) or False]
                    same = True
                    # the params on this path: either empty or filtered by the same mask
                    for s in ast.walk(prm):
                        if isinstance(s, ast.Subscript) and not getattr(s, "_tuple_elt", False) and dump(s.slice) != fb and "rand_like" in dump(s.slice):
                            same = False
                    rep.check(R, same, ub.site(p.ret_node), ub.fq, "accepted b rows and their parameter rows are selected by the same mask", f"{fb[:60]}", fb[:60])


def run(repo: Repo, rep):
    r1_facts(repo, rep)
    r2_filtering(repo, rep)
    r2_pullback(repo, rep, rule_id="R-C01-3")
    r4_dependent_product(repo, rep)
    from .c02 import r3_per_row_loops  # stale per-row state returns points sampled for another parameter row
    r3_per_row_loops(repo, rep)
    from .c05 import r1_truth_tables  # the membership formulas the implication targets must be the set algebra
    r1_truth_tables(repo, rep)


_H = "src/torchphysics/problem/domains/domainoperations/sampler_helper.py"
_U = "src/torchphysics/problem/domains/domainoperations/union.py"
_CU = "src/torchphysics/problem/domains/domainoperations/cut.py"
_I = "src/torchphysics/problem/domains/domainoperations/intersection.py"
_P = "src/torchphysics/problem/domains/domainoperations/product.py"
_T = "src/torchphysics/problem/domains/domainoperations/translate.py"
_RS = "src/torchphysics/problem/samplers/random_samplers.py"
MUTANTS = [
    dict(id="C01-M1", file=_CU, old="                invert=True,\n                device=device,\n            )\n        return self._sample_random_with_d", new="                invert=False,\n                device=device,\n            )\n        return self._sample_random_with_d", rule="R-C01-1", what="cut samples inside B"),
    dict(id="C01-M2", file=_I, old="                invert=False,\n                device=device,\n            )\n        return self._sample_grid_with_d", new="                invert=True,\n                device=device,\n            )\n        return self._sample_grid_with_d", rule="R-C01-1", what="intersection grid samples outside B"),
    dict(id="C01-M3", file=_H, old="    inside_b = domain_b._contains(grid_a, params)\n    if invert:\n        inside_b = torch.logical_not(inside_b)", new="    inside_b = domain_b._contains(grid_a, params)\n    if not invert:\n        inside_b = torch.logical_not(inside_b)", rule="R-C01-1", what="polarity flipped in the shared helper"),
    dict(id="C01-M4", file=_U, old="        index = torch.where(torch.logical_not(inside))[0]\n        return points[index,]", new="        index = torch.where(inside)[0]\n        return points[index,]", rule="R-C01-1", what="union boundary keeps the points inside B"),
    dict(id="C01-M5", file=_H, old="        random_points = random_points | new_points[index_valid[:n],]", new="        random_points = random_points | new_points[:n,]", rule="R-C01-1", what="filter dropped"),
    dict(id="C01-M6", file=_CU, old="        inside = torch.logical_and(inside, torch.logical_not(on_bound))\n        index = torch.where(inside)[0]\n        return points[index,]", new="        inside = torch.logical_and(torch.logical_not(inside), torch.logical_not(on_bound))\n        index = torch.where(inside)[0]\n        return points[index,]", rule="R-C01-1", what="cut boundary keeps the b-boundary outside A"),
    dict(id="C01-M7", file=_H, old="    return grid_a[on_bound_a,] | grid_b[on_bound_b,]", new="    return grid_a[on_bound_b,] | grid_b[on_bound_a,]", rule="R-C01-1", what="index of the other grid"),
    dict(id="C01-M8", file=_U, old="        valid_points = torch.logical_or(on_bound, torch.logical_not(inside))", new="        valid_points = torch.logical_and(on_bound, torch.logical_not(inside))", rule="R-C01-1b", what="unsatisfiable filter"),
    dict(id="C01-M9", file=_T, old="        translated_points = original_points + translate_values", new="        translated_points = original_points - translate_values", rule="R-C01-3", what="sampler push-forward sign"),
    dict(id="C01-M10", file=_RS, old="        inside = self.domain._contains(new_points)\n        index = torch.where(inside)[0]\n        return new_points[index,]\n\n\nclass LHSSampler", new="        inside = self.domain._contains(new_points)\n        index = torch.where(inside)[0]\n        return new_points\n\n\nclass LHSSampler", rule="R-C01-2", what="Gaussian proposals unfiltered"),
    dict(id="C01-M11", file=_P, old="            return a_points.join(b_points)", new="            b_points = self.domain_b.sample_random_uniform(n=len(a_points), params=params, device=device)\n            return a_points.join(b_points)", rule="R-C01-4", what="b re-sampled before the join"),
    dict(id="C01-M12", file=_I, old="        index = torch.where(in_b)[0]\n        return points[index,]", new="        index = torch.where(torch.logical_not(in_b))[0]\n        return points[index,]", rule="R-C01-1", what="intersection density path keeps the points outside B"),
    dict(id="C01-M13", file=_U, old="        in_a = self.domain_a._contains(points=points_b, params=repeated_params)\n        # approximate", new="        in_a = self.domain_a._contains(points=points_a, params=repeated_params)\n        # approximate", rule=None, what="(control) union mask about a instead of b: still inside the union"),
]
MUTANTS = [m for m in MUTANTS if m["id"] != "C01-M13"]
TWINS = [
    dict(id="C01-T1", file=_U, old="        valid_points = torch.logical_or(on_bound, torch.logical_not(inside))", new="        valid_points = torch.logical_not(torch.logical_and(torch.logical_not(on_bound), inside))", what="De Morgan"),
    dict(id="C01-T2", file=_H, old="    inside_b = domain_b._contains(grid_a, params)\n    if invert:\n        inside_b = torch.logical_not(inside_b)\n    index = torch.where(inside_b)[0]\n    return index",
         new="    member = domain_b._contains(grid_a, params)\n    keep = torch.logical_not(member) if invert else member\n    return torch.where(keep)[0]", what="conditional expression, renamed"),
    dict(id="C01-T3", file=_CU, old="        in_b = self.domain_b._contains(points=points_a, params=repeated_params)\n        index = torch.where(torch.logical_not(in_b))[0]\n        return points_a[index,]",
         new="        outside_b = ~self.domain_b._contains(points=points_a, params=repeated_params)\n        return points_a[torch.where(outside_b)[0],]", what="operator form"),
]

"""C07 — training through the Solver equals the reference optimisation loop.

Decided: the solver-side step structure and the completeness of the optimised
set.  Not decided: trajectory equality, anything inside Lightning / optimizers.
"""
from __future__ import annotations

import ast
from fractions import Fraction

from ..absdom.poly import RF, NotPoly, to_rf
from ..flow import RAISE, attr_chain, dump, kwarg, paths
from ..repo import AnalysisError, Repo
from ..util import ends, self_attr_assignments

EXPLANATION = (
    "Static decision of the solver-side structure of one optimisation step: Solver.training_step is "
    "path-enumerated with def-use expansion, its returned loss is normalised to a polynomial over the atoms "
    "(condition call, condition.weight) and compared with sum_i weight_i*loss_i; the loop range, the iteration "
    "argument, the counter update, the ModuleList wrapping, the optimizer/scheduler construction, the registration "
    "of every Parameter held by a Condition, the gradient-reversal sign and the effect-freedom of validation_step "
    "are checked on the resolved class hierarchy."
)
ASSUMPTIONS = [
    "loops run at least once (a Solver has at least one training condition)",
    "pytorch_lightning calls training_step once per optimisation step and optimises the returned loss with the "
    "object returned by configure_optimizers (trusted, not analysed)",
    "torch.nn.Module registers Module/Parameter-valued attributes and ModuleList members (trusted)",
]


def _solver(repo: Repo):
    return repo.cls("solver.Solver")


LOOP_HOOKS = ("optimizer_zero_grad", "optimizer_step", "backward", "manual_backward", "lr_scheduler_step", "configure_gradient_clipping")


def r9_loop_steps_left_to_the_trainer(repo: Repo, rep):
    R = rep.rule("R-C07-9", "the solver replaces no step of the optimisation loop (zero_grad / backward / optimizer step / scheduler step / clipping): such a hook is absent or only "
                 "forwards its arguments to super(); nothing in the package clears gradients with set_to_none=False", floor=6,
                 why="gradients zeroed instead of freed: a tensor that drops out of the loss keeps a zero gradient, so Adam / momentum / weight decay keep moving it - the reference loop leaves it untouched")
    sol = repo.cls("solver.Solver")
    for h in LOOP_HOOKS:
        fi = sol.methods.get(h)
        if fi is None:
            rep.ok(R, sol.module.relpath, f"{sol.fq}.{h}", "not overridden", "-")
            continue
        rep.saw(fi)
        body = [st for st in fi.node.body if not (isinstance(st, ast.Expr) and isinstance(st.value, ast.Constant))]
        fw = None
        if len(body) == 1 and isinstance(body[0], (ast.Return, ast.Expr)) and isinstance(body[0].value, ast.Call):
            fw = body[0].value
        ok = fw is not None and dump(fw.func) == f"super().{h}" and [dump(a) for a in fw.args] + [f"{k.arg}={dump(k.value)}" for k in fw.keywords] in (
            list(fi.params[1:]), [f"{p}={p}" for p in fi.params[1:]])
        rep.check(R, ok, fi.site(), fi.fq, f"{h} only forwards to super().{h} with the arguments it received", dump(fi.node.body[-1])[:80], f"{h} overridden")
    for fi in repo.all_functions():
        for c in ast.walk(fi.node):
            if isinstance(c, ast.Call) and isinstance(c.func, ast.Attribute) and c.func.attr == "zero_grad":
                v = kwarg(c, "set_to_none", 0)
                rep.saw(fi)
                rep.check(R, v is None or (isinstance(v, ast.Constant) and v.value is True), fi.site(c), fi.fq, "gradients are freed, not zeroed", dump(c)[:60], dump(c)[:60])


def r1_step_shape(repo: Repo, rep):
    R = rep.rule(
        "R-C07-1", "training_step: one loop over all train_conditions, each called once with the step index, "
        "loss = sum weight*cond_loss, counter +1 after the loop; on_train_start resets the counter", floor=6,
        why="a dropped/extra weight, a skipped condition or a wrong step index changes the optimised objective",
    )
    S = _solver(repo)
    fi = S.methods.get("training_step")
    if fi is None:
        raise AnalysisError("Solver.training_step vanished")
    rep.saw(fi)
    fn = fi.node
    loops = [n for n in ast.walk(fn) if isinstance(n, (ast.For, ast.While))]
    cond_loops = [l for l in loops if isinstance(l, ast.For) and "train_conditions" in dump(l.iter)]
    if len(cond_loops) != 1:
        rep.undecided(R, fi.site(), fi.fq, "exactly one loop over self.train_conditions", f"{len(cond_loops)} loops found")
        return
    loop = cond_loops[0]
    # (a) whole range
    it = dump(loop.iter)
    whole = it in ("self.train_conditions", "iter(self.train_conditions)", "list(self.train_conditions)")
    enum = False
    if not whole and isinstance(loop.iter, ast.Call) and attr_chain(loop.iter.func) == "enumerate" and loop.iter.args and dump(loop.iter.args[0]) == "self.train_conditions" and len(loop.iter.args) == 1:
        whole, enum = True, True
    rep.check(R, whole, fi.site(loop), fi.fq, "loop iterates the whole self.train_conditions", f"iterates `{it}`", it)
    if not isinstance(loop.target, ast.Name) and not enum:
        rep.undecided(R, fi.site(loop), fi.fq, "simple loop variable", dump(loop.target))
        return
    var = loop.target.id if isinstance(loop.target, ast.Name) else loop.target.elts[1].id
    # (b) exactly one call of the loop variable in the body, not in a nested loop
    calls = [n for s in loop.body for n in ast.walk(s) if isinstance(n, ast.Call) and isinstance(n.func, ast.Name) and n.func.id == var]
    nested = [n for s in loop.body for l in ast.walk(s) if isinstance(l, (ast.For, ast.While)) for n in ast.walk(l)
              if isinstance(n, ast.Call) and isinstance(n.func, ast.Name) and n.func.id == var]
    if not calls:
        # conditions evaluated elsewhere (comprehension / helper): look for a keyed container that can merge conditions
        keyed = []
        for n in ast.walk(fn):
            if isinstance(n, ast.DictComp) and any("train_conditions" in dump(g.iter) for g in n.generators):
                tv = {x.id for g in n.generators for x in ast.walk(g.target) if isinstance(x, ast.Name)}
                has_call = any(isinstance(c, ast.Call) and isinstance(c.func, ast.Name) and c.func.id in tv for c in ast.walk(n.value))
                key_is_obj = isinstance(n.key, ast.Name) and n.key.id in tv
                if has_call and not key_is_obj:
                    keyed.append(n)
        if keyed:
            rep.violation(R, fi.site(keyed[0]), fi.fq, "each condition's loss enters the sum exactly once",
                          f"losses are stored under the key `{dump(keyed[0].key)}`, which is not unique per condition "
                          "(conditions with equal names collapse into one entry)", "keyed by " + dump(keyed[0].key))
        else:
            rep.undecided(R, fi.site(loop), fi.fq, "each condition is evaluated exactly once per step",
                          f"no call of `{var}(...)` in the loop body: evaluation idiom outside the rule's table")
        return
    if len(calls) != 1 or nested:
        rep.violation(R, fi.site(loop), fi.fq, "each condition is evaluated exactly once per step",
                      f"{len(calls)} call(s) of `{var}(...)` in the loop body ({len(nested)} in nested loops)",
                      f"calls={len(calls)} nested={len(nested)}")
        if not calls:
            return
    else:
        rep.ok(R, fi.site(calls[0]), fi.fq, "each condition is evaluated exactly once per step", dump(calls[0]))
    call = calls[0]
    for w in ast.walk(fn):
        if isinstance(w, ast.With) and any(n is call for n in ast.walk(w)):
            modes = [dump(it.context_expr)[:60] for it in w.items if isinstance(it.context_expr, ast.Call)
                     and (attr_chain(it.context_expr.func) or "").split(".")[-1] in ("no_grad", "set_grad_enabled", "inference_mode", "enable_grad")]
            if modes:
                rep.violation(R, fi.site(w), fi.fq, "training losses are computed with gradient recording as PyTorch has it (the loss must reach every parameter)",
                              f"condition evaluated under `{modes[0]}`", "grad mode switched around the condition")
    cond_guard = _enclosing_ifs(loop, call)
    if cond_guard:
        rep.violation(R, fi.site(call), fi.fq, "the condition call is unconditional", f"guarded by `{cond_guard}`", cond_guard)
    # paths
    ps = [p for p in paths(fn) if p.ret is not RAISE]
    if not ps:
        rep.undecided(R, fi.site(), fi.fq, "a returning path", "none")
        return
    for p in ps:
        # (c) iteration argument: the un-incremented counter
        pcalls = [c for e in p.events if e.value is not None for c in ast.walk(e.value)
                  if isinstance(c, ast.Call) and isinstance(c.func, ast.Name) and c.func.id == var]
        if not pcalls:
            if var in p.loopvars:
                skip = [dump(g)[:60] + ("" if pol else " is false") for g, pol, k in p.guards if k == "if"]
                rep.violation(R, fi.site(loop), fi.fq, "every condition is evaluated in every step (samplers, data iterators and logging advance with it)",
                              f"a pass through the loop body evaluates no condition (when {skip})", "condition skipped on a path")
            continue
        c0 = pcalls[0]
        itarg = kwarg(c0, "iteration", 1)
        rep.check(R, itarg is not None and dump(itarg) == "self.n_training_step", fi.site(call), fi.fq,
                  "condition called with iteration=self.n_training_step (value before the increment)",
                  f"iteration argument is `{dump(itarg)}`", dump(itarg))
        dev = kwarg(c0, "device", 0)
        rep.check(R, dev is not None and dump(dev) == "self.device", fi.site(call), fi.fq,
                  "condition called with device=self.device", f"device argument is `{dump(dev)}`", dump(dev))
        # (d) returned loss polynomial
        if p.ret is None:
            rep.violation(R, fi.site(), fi.fq, "training_step returns the loss", "returns None", "None")
            continue
        ckey = dump(c0)

        def atom(node, ckey=ckey, var=var):
            if isinstance(node, ast.Call):
                if dump(node) == ckey:
                    return RF.atom("C")
                ch = attr_chain(node.func)
                if ends(ch, "zeros", "zeros_like") and ch.split(".")[0] in ("torch",):
                    return RF.const(0)
                if ends(ch, "tensor") and node.args and isinstance(node.args[0], (ast.Constant,)):
                    return RF.const(Fraction(str(node.args[0].value)))
                if ends(ch, "tensor") and node.args and isinstance(node.args[0], ast.List) and len(node.args[0].elts) == 1 and isinstance(node.args[0].elts[0], ast.Constant):
                    return RF.const(Fraction(str(node.args[0].elts[0].value)))
                if ch == "sum" and len(node.args) == 1 and isinstance(node.args[0], (ast.List, ast.Tuple)):
                    r = RF.const(0)
                    for e in node.args[0].elts:
                        r = r + to_rf(e, atom)
                    return r
            if isinstance(node, ast.Attribute) and dump(node) == f"{var}.weight":
                return RF.atom("W")
            if isinstance(node, (ast.Name, ast.Attribute)):
                return RF.atom(dump(node))
            return None

        if isinstance(p.ret, ast.Constant) and p.ret.value is None:
            gs = [("" if pol else "not ") + dump(g)[:60] for g, pol, k in p.guards if k == "if"]
            rep.violation(R, fi.site(p.ret_node), fi.fq, "every path hands the summed loss to the optimizer (Lightning skips backward and the step for a returned None)",
                          f"returns None when {gs[-1:] or ['always']}", f"returns None under {gs[-1:]}")
            continue
        cut = [dump(n) for n in ast.walk(p.ret) if (isinstance(n, ast.Attribute) and n.attr in ("detach", "item", "data", "detach_"))
               or (isinstance(n, ast.Call) and attr_chain(n.func) in ("float", "int"))]
        if cut:
            rep.violation(R, fi.site(p.ret_node), fi.fq, "the returned loss stays attached to the autograd graph of every condition loss",
                          f"graph cut by {cut[:2]}", str(cut[:2]))
            continue
        try:
            rf = to_rf(p.ret, atom)
            coeff = rf.coeff_of("C")
            rest = rf - coeff * RF.atom("C")
            good = coeff == RF.atom("W") and rest == RF.const(0)
            rep.check(R, good, fi.site(p.ret_node), fi.fq,
                      "returned loss == sum_i condition_i.weight * loss_i (coefficient of each condition loss is its weight, no other term)",
                      f"loss = {rf!r}  (C = condition loss, W = condition.weight)", repr(rf))
        except NotPoly as e:
            rep.undecided(R, fi.site(p.ret_node), fi.fq, "returned loss is a polynomial in the condition losses", f"{e}: {dump(p.ret)[:160]}")
        # (e) counter
        incs = [e for e in p.events if e.kind in ("aug", "attr") and e.target is not None and dump(e.target) == "self.n_training_step"]
        ok = False
        detail = "no update of self.n_training_step"
        if len(incs) == 1:
            e = incs[0]
            if e.kind == "aug":
                step = dump(e.value) if e.op == "Add" else f"{e.op} {dump(e.value)}"
                ok = e.op == "Add" and dump(e.value) == "1"
            else:
                step = dump(e.value)
                ok = step in ("self.n_training_step + 1", "1 + self.n_training_step")
            ok = ok and e.loop == 0
            # position: after the loop
            ok = ok and e.node.lineno > loop.end_lineno
            detail = f"update `{dump(e.node)}` at loop depth {e.loop}, line {e.node.lineno} (loop ends {loop.end_lineno})"
        elif incs:
            detail = f"{len(incs)} updates of self.n_training_step"
        rep.check(R, ok, fi.site(incs[0].node if incs else None), fi.fq,
                  "self.n_training_step += 1 exactly once per step, after the loop, on every returning path", detail, detail.split(" at loop")[0])
    # (f) reset at train start
    ots = S.methods.get("on_train_start")
    if ots is None:
        rep.violation(R, fi.site(), S.fq, "on_train_start resets n_training_step to 0", "method missing", "missing")
    else:
        rep.saw(ots)
        for p in paths(ots.node):
            if p.ret is RAISE:
                continue
            v = p.env.get("self.n_training_step")
            rep.check(R, v is not None and dump(v) in ("0", "self.trainer.global_step", "self.global_step"), ots.site(), ots.fq,
                      "on_train_start sets self.n_training_step to the number of optimisation steps done so far (0 for a fresh run)",
                      f"value on this path: {dump(v)}", dump(v))


def _enclosing_ifs(loop, target):
    """conditions (inside `loop`) under which `target` executes"""
    found = []

    def rec(stmts, conds):
        for s in stmts:
            if any(n is target for n in ast.walk(s)):
                if isinstance(s, ast.If):
                    if any(n is target for b in s.body for n in ast.walk(b)):
                        rec(s.body, conds + [dump(s.test)])
                    elif any(n is target for b in s.orelse for n in ast.walk(b)):
                        rec(s.orelse, conds + ["not " + dump(s.test)])
                    else:
                        found.extend(conds)  # in the test itself
                elif isinstance(s, (ast.Try, ast.With)):
                    rec(getattr(s, "body", []), conds)
                else:
                    found.extend(conds)
                    if not conds:
                        found.append("")
    rec(loop.body, [])
    return " and ".join(c for c in found if c)


def r2_optimizer(repo: Repo, rep):
    R = rep.rule("R-C07-2", "conditions wrapped in nn.ModuleList; optimizer built from self.parameters(), lr, **optimizer_args; "
                 "scheduler built on that optimizer and returned", floor=5,
                 why="a plain list hides the conditions' parameters from self.parameters(); an optimizer over a subset "
                     "leaves learnable state untrained")
    S = _solver(repo)
    init = S.methods.get("__init__")
    if init is None:
        raise AnalysisError("Solver.__init__ vanished")
    rep.saw(init)
    for attr, param in (("train_conditions", "train_conditions"), ("val_conditions", "val_conditions")):
        for p in paths(init.node):
            if p.ret is RAISE:
                continue
            v = p.env.get(f"self.{attr}")
            members = kwarg(v, "modules", 0) if isinstance(v, ast.Call) else None
            good = (isinstance(v, ast.Call) and ends(attr_chain(v.func), "ModuleList") and len(v.args) + len(v.keywords) == 1
                    and members is not None and dump(members) in (param, f"list({param})", f"tuple({param})"))
            rep.check(R, good, init.site(), init.fq, f"self.{attr} = nn.ModuleList({param})", f"self.{attr} = {dump(v)}", dump(v))
    # super().__init__() must run before module attributes are assigned (else nn.Module raises) — not a property clause.
    co = S.methods.get("configure_optimizers")
    if co is None:
        raise AnalysisError("Solver.configure_optimizers vanished")
    rep.saw(co)
    for p in paths(co.node):
        if p.ret is RAISE:
            continue
        ret = p.ret
        opt_calls = [c for c in ast.walk(ret) if isinstance(c, ast.Call) and ends(attr_chain(c.func), "optimizer_class")] if ret is not None else []
        if not opt_calls:
            rep.violation(R, co.site(p.ret_node), co.fq, "the configured optimizer object is returned", f"returns `{dump(ret)[:120]}`", dump(ret)[:200])
            continue
        oc = opt_calls[0]
        a0 = oc.args[0] if oc.args else kwarg(oc, "params")
        rep.check(R, a0 is not None and dump(a0) == "self.parameters()", co.site(p.ret_node), co.fq,
                  "optimizer receives self.parameters() (all registered learnables)", f"first argument `{dump(a0)}`", dump(a0))
        lr = kwarg(oc, "lr", 1)
        rep.check(R, lr is not None and dump(lr) == "self.optimizer_setting.lr", co.site(p.ret_node), co.fq,
                  "optimizer receives lr=optimizer_setting.lr", f"lr `{dump(lr)}`", dump(lr))
        star = [k for k in oc.keywords if k.arg is None]
        rep.check(R, any(dump(k.value) == "self.optimizer_setting.optimizer_args" for k in star), co.site(p.ret_node), co.fq,
                  "optimizer receives **optimizer_setting.optimizer_args", f"keywords `{[dump(k.value) for k in star]}`", str([dump(k.value) for k in star]))
        # scheduler path
        sched_guard = [g for g in p.guards if "scheduler_class" in dump(g[0])]
        has_sched = any("scheduler_class" in dump(c.func) for c in ast.walk(ret) if isinstance(c, ast.Call))
        for g, pol, kind in sched_guard:
            from ..util import norm_compare
            op, l, r, npol = norm_compare(g, pol)
            is_none = op == "is" and "None" in (l, r) and npol
            if is_none:
                rep.check(R, not has_sched, co.site(p.ret_node), co.fq, "without scheduler_class only the optimizer is returned", dump(ret)[:120], dump(ret)[:120])
            else:
                sc = [c for c in ast.walk(ret) if isinstance(c, ast.Call) and ends(attr_chain(c.func), "scheduler_class")]
                good = bool(sc) and sc[0].args and dump(sc[0].args[0]) == dump(oc) and any(
                    k.arg is None and dump(k.value) == "self.optimizer_setting.scheduler_args" for k in sc[0].keywords)
                rep.check(R, good, co.site(p.ret_node), co.fq,
                          "scheduler = scheduler_class(optimizer, **scheduler_args) on the returned optimizer, and it is returned",
                          f"returns `{dump(ret)[:200]}`", dump(ret)[:200])
                # the Solver's data loader makes the whole run one epoch: a scheduler stepped per epoch (Lightning's default) never steps
                cfgs = [d for d in ast.walk(ret) if isinstance(d, ast.Dict) and any(isinstance(k, ast.Constant) and k.value == "scheduler" for k in d.keys if k is not None)]
                if not cfgs:
                    rep.violation(R, co.site(p.ret_node), co.fq, "the scheduler is returned in a configuration with interval 'step'", "bare scheduler (stepped once per epoch)", "bare scheduler")
                for d in cfgs:
                    iv = [v for k, v in zip(d.keys, d.values) if isinstance(k, ast.Constant) and k.value == "interval"]
                    ok_iv = bool(iv) and isinstance(iv[-1], ast.Constant) and iv[-1].value == "step"
                    rep.check(R, ok_iv, co.site(p.ret_node), co.fq, "the scheduler is stepped after every optimisation step (interval 'step')",
                              f"interval {dump(iv[-1]) if iv else 'missing (epoch)'}", f"interval {dump(iv[-1]) if iv else 'missing'}")


def r3_registration(repo: Repo, rep):
    R = rep.rule("R-C07-3", "every Condition storing a torchphysics Parameter registers its tensor; stored layers are module attributes",
                 floor=7, why="an unregistered parameter tensor is absent from Solver.parameters() and is never optimised")
    cond = repo.cls("problem.conditions.condition.Condition")
    n = 0
    for ci in repo.subclasses(cond):
        init = ci.methods.get("__init__")
        if init is None:
            continue
        params = init.params
        if "parameter" not in params:
            continue
        rep.saw(init)
        n += 1
        # either forwards `parameter` to super().__init__ (which registers) or registers itself
        forwarded = False
        for c in ast.walk(init.node):
            if isinstance(c, ast.Call) and dump(c.func) in ("super().__init__",):
                if any(k.arg == "parameter" and dump(k.value) == "parameter" for k in c.keywords) or any(dump(a) == "parameter" for a in c.args):
                    sup = repo.resolve_method(ci, "__init__", after=ci)
                    if sup is not None and "parameter" in sup.params:
                        forwarded = True
        if forwarded:
            rep.ok(R, init.site(), init.fq, "parameter handed to a registering base constructor", "forwarded to super().__init__")
            continue
        good = False
        detail = "no register_parameter call"
        for p in paths(init.node):
            if p.ret is RAISE:
                continue
            regs = [c for e in p.events if e.value is not None for c in ast.walk(e.value)
                    if isinstance(c, ast.Call) and dump(c.func) == "self.register_parameter"]
            good = False
            for c in regs:
                if len(c.args) >= 2:
                    val = dump(c.args[1])
                    detail = f"register_parameter({dump(c.args[0])}, {val})"
                    if val in ("parameter.as_tensor", "parameter._t", "self.parameter.as_tensor", "self.parameter._t"):
                        good = True
            if not good:
                break
        rep.check(R, good, init.site(), init.fq, "register_parameter(<name>, parameter.as_tensor) on every constructor path", detail, detail)
        # the attribute read by forward is the registered object
        stored = any(dump(p.env.get("self.parameter")) == "parameter" for p in paths(init.node) if p.ret is not RAISE)
        rep.check(R, stored, init.site(), init.fq, "self.parameter is the constructor's parameter object", "self.parameter not bound to `parameter`", "self.parameter")
    # ParameterCondition registers `parameter` as well (counted above, since it has that constructor argument)
    # adaptive layer must be a module attribute
    aw = repo.find_class("AdaptiveWeightsCondition")
    init = aw.methods.get("__init__")
    if init is None:
        raise AnalysisError("AdaptiveWeightsCondition.__init__ vanished")
    rep.saw(init)
    for p in paths(init.node):
        if p.ret is RAISE:
            continue
        layer_calls = [c for e in p.events if e.value is not None for c in ast.walk(e.value)
                       if isinstance(c, ast.Call) and ends(attr_chain(c.func), "AdaptiveWeightLayer")]
        if not layer_calls:
            rep.undecided(R, init.site(), init.fq, "an AdaptiveWeightLayer is created", "none found")
            continue
        lk = dump(layer_calls[0])
        attrs = [k for k, v in p.env.items() if k.startswith("self.") and dump(v) == lk]
        rep.check(R, bool(attrs), init.site(), init.fq, "the AdaptiveWeightLayer used in the reduction is stored as a module attribute (so its weights are optimised)",
                  f"stored as {attrs}", "not stored")
    # Parameter class wraps its data in torch.nn.Parameter
    par = repo.cls("models.parameter.Parameter")
    pin = par.methods.get("__init__")
    if pin is not None:
        rep.saw(pin)
        for p in paths(pin.node):
            if p.ret is RAISE:
                continue
            sup = [c for e in p.events if e.value is not None for c in ast.walk(e.value) if isinstance(c, ast.Call) and dump(c.func) == "super().__init__"]
            good = bool(sup) and sup[0].args and isinstance(sup[0].args[0], ast.Call) and ends(attr_chain(sup[0].args[0].func), "Parameter")
            rep.check(R, good, pin.site(), pin.fq, "Parameter data is a torch.nn.Parameter (requires grad, optimisable)",
                      f"super().__init__ receives `{dump(sup[0].args[0]) if sup and sup[0].args else None}`", "data")
    # AdaptiveWeightLayer weight is an nn.Parameter
    awl = repo.cls("models.model.AdaptiveWeightLayer")
    ai = awl.methods.get("__init__")
    if ai is not None:
        rep.saw(ai)
        for p in paths(ai.node):
            v = p.env.get("self.weight")
            good = isinstance(v, ast.Call) and ends(attr_chain(v.func), "Parameter")
            rep.check(R, good, ai.site(), ai.fq, "AdaptiveWeightLayer.weight is an nn.Parameter", dump(v), dump(v))


def r4_grad_reverse(repo: Repo, rep):
    R = rep.rule("R-C07-4", "GradReverse.backward negates the gradient once; forward is the identity; AdaptiveWeightLayer.forward "
                 "multiplies the points by the reversed weight", floor=3,
                 why="without the sign flip the adaptive point weights descend instead of ascend")
    awl = repo.cls("models.model.AdaptiveWeightLayer")
    gr = awl.nested.get("GradReverse")
    if gr is None:
        raise AnalysisError("AdaptiveWeightLayer.GradReverse vanished")
    bw, fw = gr.methods.get("backward"), gr.methods.get("forward")
    if bw is None or fw is None:
        raise AnalysisError("GradReverse.forward/backward vanished")
    rep.saw(bw), rep.saw(fw)
    g = bw.params[1] if len(bw.params) > 1 else None
    x = fw.params[1] if len(fw.params) > 1 else None

    def atom(node):
        if isinstance(node, ast.Call) and isinstance(node.func, ast.Attribute):
            if node.func.attr in ("neg", "negative") and not node.args:
                return -to_rf(node.func.value, atom)
            if node.func.attr in ("clone", "view_as", "contiguous", "detach") :
                return to_rf(node.func.value, atom)
        if isinstance(node, ast.Call) and ends(attr_chain(node.func), "neg", "negative") and len(node.args) == 1:
            return -to_rf(node.args[0], atom)
        if isinstance(node, ast.Name):
            return RF.atom(node.id)
        return None

    for p in paths(bw.node):
        if p.ret is RAISE:
            continue
        ret = p.ret.elts[0] if isinstance(p.ret, ast.Tuple) and p.ret.elts else p.ret
        try:
            rf = to_rf(ret, atom)
            rep.check(R, rf == -RF.atom(g), bw.site(), bw.fq, f"backward returns -{g}", f"returns {rf!r}", repr(rf))
        except (NotPoly, TypeError) as e:
            rep.undecided(R, bw.site(), bw.fq, f"backward returns -{g}", f"{e}: {dump(ret)}")
    for p in paths(fw.node):
        if p.ret is RAISE:
            continue
        try:
            rf = to_rf(p.ret, atom)
            rep.check(R, rf == RF.atom(x), fw.site(), fw.fq, "forward is the identity", f"returns {rf!r}", repr(rf))
        except (NotPoly, TypeError) as e:
            rep.undecided(R, fw.site(), fw.fq, "forward is the identity", f"{e}: {dump(p.ret)}")
    f = awl.methods.get("forward")
    if f is None:
        raise AnalysisError("AdaptiveWeightLayer.forward vanished")
    rep.saw(f)
    pts = f.params[1]
    for p in paths(f.node):
        if p.ret is RAISE:
            continue
        r = p.ret
        good = False
        if isinstance(r, ast.BinOp) and isinstance(r.op, ast.Mult):
            sides = [dump(r.left), dump(r.right)]
            rev = [s for s in sides if s in ("self.grad_reverse(self.weight)", "self.GradReverse.apply(self.weight)", "AdaptiveWeightLayer.GradReverse.apply(self.weight)")]
            good = len(rev) == 1 and pts in sides
        rep.check(R, good, f.site(), f.fq, "forward returns grad_reverse(self.weight) * points", dump(r), dump(r))
    gr_m = awl.methods.get("grad_reverse")
    if gr_m is not None:
        rep.saw(gr_m)
        for p in paths(gr_m.node):
            if p.ret is RAISE:
                continue
            good = isinstance(p.ret, ast.Call) and ends(attr_chain(p.ret.func), "GradReverse.apply") and len(p.ret.args) == 1 and dump(p.ret.args[0]) == gr_m.params[1]
            rep.check(R, good, gr_m.site(), gr_m.fq, "grad_reverse applies GradReverse to its argument", dump(p.ret), dump(p.ret))


FORBIDDEN_VAL = ("backward", "step", "zero_grad", "manual_backward", "optimizers", "load_state_dict", "copy_", "add_", "mul_", "sub_", "fill_", "zero_", "requires_grad_")


def r5_validation(repo: Repo, rep):
    R = rep.rule("R-C07-5", "validation_step evaluates only val_conditions, with the device only, and performs no optimisation effect; no other Solver hook evaluates a condition", floor=5,
                 why="a backward/step/parameter write during validation changes learnable state")
    S = _solver(repo)
    fi = S.methods.get("validation_step")
    if fi is None:
        raise AnalysisError("Solver.validation_step vanished")
    rep.saw(fi)
    loops = [n for n in ast.walk(fi.node) if isinstance(n, ast.For)]
    iters = [dump(l.iter) for l in loops]
    bad = [i for i in iters if "train_conditions" in i]
    rep.check(R, not bad, fi.site(), fi.fq, "validation touches val_conditions only", f"loops over {iters}", str(iters))
    eff = [dump(c.func) for c in ast.walk(fi.node) if isinstance(c, ast.Call) and isinstance(c.func, ast.Attribute) and c.func.attr in FORBIDDEN_VAL]
    stores = [dump(n) for n in ast.walk(fi.node) if isinstance(n, (ast.Assign, ast.AugAssign)) and any(
        isinstance(t, (ast.Attribute, ast.Subscript)) for t in (n.targets if isinstance(n, ast.Assign) else [n.target]))]
    rep.check(R, not eff and not stores, fi.site(), fi.fq, "no backward/optimizer step/parameter or attribute write in validation_step",
              f"effects {eff} stores {stores}", str(eff + stores))
    # the per-iteration caches of the conditions (sampled input functions, branch outputs) belong to the training steps: validation
    # must not present itself as "the current iteration" (it would consume / replace what the next training step expects to compute)
    for l in loops:
        if not isinstance(l.target, ast.Name):
            continue
        for c in ast.walk(l):
            if isinstance(c, ast.Call) and isinstance(c.func, ast.Name) and c.func.id == l.target.id:
                extra = [k.arg for k in c.keywords if k.arg not in ("device",)] + [dump(a)[:30] for a in c.args]
                rep.check(R, not extra, fi.site(c), fi.fq, "validation conditions are called with the device only (no iteration counter)", f"also passes {extra}", f"validation passes {extra}")
    # ... and no other hook of the Solver evaluates a condition: every evaluation draws samples / advances data loaders / counters
    for name, m in S.methods.items():
        if name in ("training_step", "validation_step", "test_step"):
            continue
        calls = []
        for l in ast.walk(m.node):
            if isinstance(l, ast.For) and isinstance(l.target, ast.Name) and "conditions" in dump(l.iter):
                calls += [dump(c)[:60] for c in ast.walk(l) if isinstance(c, ast.Call) and isinstance(c.func, ast.Name) and c.func.id == l.target.id]
        calls += [dump(c)[:60] for c in ast.walk(m.node) if isinstance(c, ast.Call) and isinstance(c.func, ast.Subscript) and "conditions" in dump(c.func.value)]
        if name.startswith(("on_", "setup", "configure", "train_dataloader", "val_dataloader")) or calls:
            rep.saw(m)
            rep.check(R, not calls, m.site(), m.fq, "conditions are evaluated in the step methods only", str(calls[:2]), f"condition evaluated in {name}")


def r6_weight_kept(repo: Repo, rep):
    R = rep.rule("R-C07-6", "a condition stores the weight it is given unchanged (a learnable weight handed as nn.Parameter is registered and optimised)", floor=1,
                 why="coercing the weight to a number replaces a learnable tensor by a snapshot")
    cond = repo.cls("problem.conditions.condition.Condition")
    init = cond.methods.get("__init__")
    if init is None:
        raise AnalysisError("Condition.__init__ vanished")
    rep.saw(init)
    for p in paths(init.node, expand_self=False):
        if p.ret is RAISE:
            continue
        w = p.attrs.get("self.weight")
        rep.check(R, w is not None and dump(w) == "weight", init.site(), init.fq, "self.weight = weight", f"self.weight = {dump(w)}", f"self.weight = {dump(w)}")
        break


def r6_settings_unchanged(repo: Repo, rep):
    R = rep.rule("R-C07-8", "OptimizerSetting hands every configured entry on: optimizer_args / scheduler_args are stored as given (or as a plain copy), never filtered by value", floor=2,
                 why="dropping falsy entries removes an explicit weight_decay=0.0 / momentum=0 / amsgrad=False: the optimizer silently runs with its class defaults instead of the configured ones")
    ci = repo.cls("solver.OptimizerSetting")
    init = ci.methods.get("__init__")
    if init is None:
        raise AnalysisError("OptimizerSetting.__init__ vanished")
    rep.saw(init)
    for attr in ("optimizer_args", "scheduler_args"):
        stores = [a for a in ast.walk(init.node) if isinstance(a, ast.Assign) and any(dump(t) == f"self.{attr}" for t in a.targets)]
        if not stores:
            rep.violation(R, init.site(), init.fq, f"self.{attr} stored", "not stored", f"{attr} not stored")
            continue
        for st in stores:
            v = st.value
            plain = dump(v) in (attr, f"dict({attr})", f"{{**{attr}}}", f"{attr}.copy()", f"copy.copy({attr})", f"copy.deepcopy({attr})")
            comp_all = isinstance(v, ast.DictComp) and len(v.generators) == 1 and not v.generators[0].ifs and attr in dump(v.generators[0].iter) and dump(v.key) in dump(v.generators[0].target) and dump(v.value) in dump(v.generators[0].target)
            filtered = isinstance(v, (ast.DictComp, ast.GeneratorExp, ast.ListComp)) and any(g.ifs for g in v.generators) or any(isinstance(x, (ast.DictComp, ast.GeneratorExp)) and any(g.ifs for g in x.generators) for x in ast.walk(v))
            if plain or comp_all:
                rep.ok(R, init.site(st), init.fq, f"self.{attr} holds every given entry", dump(v)[:60])
            elif filtered:
                rep.violation(R, init.site(st), init.fq, f"self.{attr} holds every given entry", f"entries filtered: {dump(v)[:80]}", f"{attr} filtered")
            else:
                rep.undecided(R, init.site(st), init.fq, f"self.{attr} recognisable as the given mapping or a copy of it", dump(v)[:80])


def run(repo: Repo, rep):
    r6_settings_unchanged(repo, rep)
    from .generic import g_arg_constructor_parameters
    g_arg_constructor_parameters(repo, rep, lambda m: ".conditions." in m or m.endswith(".solver") or ".models.parameter" in m or ".models.activation_fn" in m, floor=15,
                                 why="a condition subclass that does not pass `weight` (or `parameter`, `track_gradients`) on to its base trains with the base's default")
    r6_weight_kept(repo, rep)
    from .c19 import r4_solver_hooks  # the configured scheduler steps against the dummy loader: its length must not cut the run into epochs
    r4_solver_hooks(repo, rep)
    r9_loop_steps_left_to_the_trainer(repo, rep)
    r1_step_shape(repo, rep)
    r2_optimizer(repo, rep)
    r3_registration(repo, rep)
    r4_grad_reverse(repo, rep)
    r5_validation(repo, rep)


_S = "src/torchphysics/solver.py"
_C = "src/torchphysics/problem/conditions/condition.py"
_M = "src/torchphysics/models/model.py"
MUTANTS = [
    dict(id="C07-M1", file=_S, old="loss = loss + condition.weight * cond_loss", new="loss = loss + cond_loss", rule="R-C07-1", what="weight dropped"),
    dict(id="C07-M2", file=_S, old="for condition in self.train_conditions:\n            cond_loss", new="for condition in self.train_conditions[1:]:\n            cond_loss", rule="R-C07-1", what="first condition skipped"),
    dict(id="C07-M3", file=_S, old="iteration=self.n_training_step)", new="iteration=batch_idx)", rule="R-C07-1", what="wrong step index"),
    dict(id="C07-M4", file=_S, old="        self.log('train/loss', loss, prog_bar=True)\n        self.n_training_step += 1", new="            self.n_training_step += 1\n        self.log('train/loss', loss, prog_bar=True)", rule="R-C07-1", what="counter inside the loop"),
    dict(id="C07-M13", file=_S, old="        self.n_training_step += 1\n        return loss\n", new="        self.n_training_step += 1\n        return loss\n\n    def optimizer_zero_grad(self, epoch, batch_idx, optimizer):\n        optimizer.zero_grad(set_to_none=False)\n", rule="R-C07-9", what="gradients zeroed instead of freed"),
    dict(id="C07-M5", file=_S, old="self.train_conditions = nn.ModuleList(train_conditions)", new="self.train_conditions = list(train_conditions)", rule="R-C07-2", what="plain list"),
    dict(id="C07-M6", file=_C, old="class SingleModuleCondition(Condition):", new="class SingleModuleCondition(Condition):\n    def register_parameter(self, *a):\n        pass\n", rule=None, what="(control: not detectable syntactically; expected skipped or unreported)" ),
    dict(id="C07-M7", file=_M, old="return grad_output.neg()", new="return grad_output.clone()", rule="R-C07-4", what="gradient not reversed"),
    dict(id="C07-M8", file=_S, old="loss = loss + condition.weight * cond_loss", new="loss = condition.weight * cond_loss", rule=None, what="(control) sum replaced by last — indistinguishable for one iteration"),
    dict(id="C07-M9", file=_S, old="self.parameters(),\n            lr=", new="self.train_conditions[0].parameters(),\n            lr=", rule="R-C07-2", what="optimizer over a subset"),
    dict(id="C07-M10", file=_M, old="return weight * points", new="return self.weight * points", rule="R-C07-4", what="reversal bypassed"),
    dict(id="C07-M11", file=_S, old="        self.n_training_step = self.trainer.global_step\n", new="        pass\n", rule="R-C07-1", what="counter never reset"),
    dict(id="C07-M12", file=_S, old="loss = loss + condition.weight * cond_loss", new="loss = loss + condition.weight * cond_loss.detach()", rule="R-C07-1", what="loss detached"),
]
MUTANTS = [m for m in MUTANTS if m["id"] not in ("C07-M6", "C07-M8")]
TWINS = [
    dict(id="C07-T1", file=_S, old="loss = loss + condition.weight * cond_loss", new="weighted = cond_loss * condition.weight\n            loss = weighted + loss", what="temporary, commuted"),
    dict(id="C07-T2", file=_S, old="self.n_training_step += 1", new="self.n_training_step = self.n_training_step + 1", what="explicit increment"),
    dict(id="C07-T3", edits=[dict(file=_S, old="for condition in self.train_conditions:\n            cond_loss = condition(device=self.device, iteration=self.n_training_step)\n            self.log(f\"train/{condition.name}\", cond_loss)\n            loss = loss + condition.weight * cond_loss",
                                  new="for cnd in self.train_conditions:\n            step = self.n_training_step\n            cl = cnd(device=self.device, iteration=step)\n            self.log(f\"train/{cnd.name}\", cl)\n            loss = loss + cnd.weight * cl")], what="renamed variables"),
    dict(id="C07-T4", file=_M, old="return grad_output.neg()", new="return -grad_output", what="unary minus"),
    dict(id="C07-T5", file=_S, old="        self.n_training_step += 1\n        return loss\n", new="        self.n_training_step += 1\n        return loss\n\n    def optimizer_zero_grad(self, epoch, batch_idx, optimizer):\n        return super().optimizer_zero_grad(epoch, batch_idx, optimizer)\n", what="a loop hook that only forwards to the trainer's own"),
]

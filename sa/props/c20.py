"""C20 — Fourier layers are shift-equivariant, resolution-consistent convolutions.

Decided: a Fourier layer never writes to (an alias or view of) its input; between the
paired rfftn / irfftn (same axes, same norm, s = the input's spatial shape) the
spectrum is only zero-padded / truncated and multiplied element-wise by the learned
kernel; the kept mode count is not shifted by constants; FNO wraps the spectral
blocks in point-wise channel maps.  Not decided: equivariance / resolution
consistency as numbers; batch-norm."""
from __future__ import annotations

import ast
from typing import List, Optional, Set

from ..flow import RAISE, attr_chain, def_id, dump, kwarg, paths
from ..repo import AnalysisError, Repo
from ..util import ends

EXPLANATION = (
    "Effect and def-use-slice analysis of _FourierLayer.forward / FNO.forward: every in-place operation is checked against the "
    "may-alias set of the input (names, conditional expressions, basic-slice views); the operations applied to the spectrum between "
    "torch.fft.rfftn(points, dim=D) and the argument of torch.fft.irfftn are collected from the expanded expression and must be on the "
    "whitelist {zero padding with amounts derived from mode_num - spectrum shape, truncating slices, element-wise product with the "
    "kernel parameter}; frequency re-indexing operations (roll, flip, fftshift, ...) and constant offsets on mode counts are "
    "violations; irfftn must use s = points.shape[1:-1], the same dim list and the same norm; the FNO forward is channel map -> "
    "Fourier blocks -> channel map with nn.Linear defaults acting on the last axis."
)
ASSUMPTIONS = [
    "torch.fft.rfftn/irfftn and F.pad semantics (trusted); user-supplied channel networks are point-wise",
]
FN = "models.FNO"
REINDEX = ("roll", "flip", "fftshift", "ifftshift", "conj", "transpose", "permute", "flipud", "fliplr", "rot90", "index_select", "gather", "take", "sort")


def may_alias(e: ast.AST, name: str) -> bool:
    if isinstance(e, ast.Name):
        return e.id == name
    if isinstance(e, ast.IfExp):
        return may_alias(e.body, name) or may_alias(e.orelse, name)
    if isinstance(e, ast.Subscript):
        idx = e.slice.elts if isinstance(e.slice, ast.Tuple) else [e.slice]
        adv = any(isinstance(i, (ast.List, ast.ListComp)) or (isinstance(i, ast.Call) and attr_chain(i.func) in ("list", "torch.tensor")) for i in idx)
        return (not adv) and may_alias(e.value, name)
    if isinstance(e, ast.Attribute) and e.attr in ("T", "mT", "data", "real", "imag"):
        return may_alias(e.value, name)
    if isinstance(e, ast.Call) and isinstance(e.func, ast.Attribute) and e.func.attr in ("view", "reshape", "view_as", "squeeze", "unsqueeze", "transpose", "permute", "contiguous", "detach", "expand", "narrow", "float", "to", "flatten"):
        return may_alias(e.func.value, name)
    if isinstance(e, ast.BoolOp):
        return any(may_alias(v, name) for v in e.values)
    return False


def r1_no_input_write(repo: Repo, rep):
    R = rep.rule("R-C20-1", "no in-place operation on the input tensor or anything that may alias / view it (Fourier layer and FNO forward)", floor=2,
                 why="an in-place update of an alias overwrites the caller's tensor and makes a second call see different data")
    for cname in ("_FourierLayer", "FNO"):
        ci = repo.cls(f"{FN}.{cname}")
        fi = ci.methods.get("forward")
        if fi is None:
            raise AnalysisError(f"{cname}.forward vanished")
        rep.saw(fi)
        pname = fi.params[1]
        bad = []
        for p in paths(fi.node):
            for e in p.events:
                tgt = None
                if e.kind == "aug":
                    tgt = e.target
                elif e.kind == "store":
                    tgt = e.target.value
                elif e.kind == "call" and isinstance(e.value, ast.Call) and isinstance(e.value.func, ast.Attribute) and e.value.func.attr.endswith("_") and not e.value.func.attr.startswith("_"):
                    tgt = e.value.func.value
                if tgt is not None and may_alias(tgt, pname):
                    bad.append(f"{dump(e.node)[:60]} (target may be `{pname}`: {dump(tgt)[:60]})")
            # returning the input itself after modification is covered above; `out=` keyword writes
            for e in p.events:
                if e.value is None:
                    continue
                for c in ast.walk(e.value):
                    if isinstance(c, ast.Call):
                        o = kwarg(c, "out")
                        if o is not None and may_alias(o, pname):
                            bad.append(f"out={dump(o)[:40]}")
        bad = sorted(set(bad))
        rep.check(R, not bad, fi.site(), fi.fq, f"`{pname}` is only read", "; ".join(bad[:2]), "; ".join(bad[:2]))


def _spectrum_ops(expr: ast.AST, fft_id) -> List[str]:
    """names of the operations applied on the way from the rfftn call to `expr`'s root"""
    ops: List[str] = []

    FFT = ("torch.fft.rfftn", "torch.fft.rfft", "torch.fft.fftn", "torch.fft.fft", "torch.fft.rfft2")

    def contains_fft(n):
        """does the VALUE of the spectrum flow into n (uses of its shape only do not count)"""
        if isinstance(n, ast.Attribute) and n.attr in ("shape", "dtype", "device", "ndim"):
            return False
        if isinstance(n, ast.Call) and (attr_chain(n.func) in ("len",) or (isinstance(n.func, ast.Attribute) and n.func.attr in ("size", "dim"))):
            return False
        if isinstance(n, ast.Call) and attr_chain(n.func) in FFT:
            return True
        return any(contains_fft(c) for c in ast.iter_child_nodes(n))

    def rec(n):
        if isinstance(n, ast.Call) and attr_chain(n.func) in ("torch.fft.rfftn", "torch.fft.rfft", "torch.fft.fftn", "torch.fft.fft", "torch.fft.rfft2"):
            return
        if isinstance(n, ast.Call):
            ch = attr_chain(n.func) or dump(n.func)
            name = ch.split(".")[-1]
            parts = ([n.func.value] if isinstance(n.func, ast.Attribute) and not ch.startswith(("torch.", "np.")) else []) + list(n.args) + [k.value for k in n.keywords]
            carriers = [a for a in parts if contains_fft(a)]
            if carriers:
                others = [dump(a)[:50] for a in parts if a not in carriers]
                ops.append(f"{name}({'; '.join(others)})")
                for a in carriers:
                    rec(a)
            return
        if isinstance(n, ast.BinOp):
            l, r = contains_fft(n.left), contains_fft(n.right)
            if l or r:
                other = n.right if l else n.left
                ops.append(f"{type(n.op).__name__}[{dump(other)[:60] if not (l and r) else 'spectrum'}]")
                if l:
                    rec(n.left)
                if r:
                    rec(n.right)
            return
        if isinstance(n, ast.Subscript):
            if contains_fft(n.value):
                ops.append(f"slice[{dump(n.slice)[:60]}]")
                rec(n.value)
            return
        if isinstance(n, ast.Attribute) and contains_fft(n.value):
            ops.append(f"attr.{n.attr}")
            rec(n.value)
            return
        if isinstance(n, ast.IfExp):
            rec(n.body), rec(n.orelse)
    rec(expr)
    return ops


def r2_r3_spectrum(repo: Repo, rep):
    R2 = rep.rule("R-C20-2", "between rfftn and irfftn the spectrum is only zero-padded / truncated and multiplied element-wise by the kernel parameter; no frequency "
                  "re-indexing, no constant offset on the number of kept modes", floor=3,
                  why="a Fourier multiplier commutes with shifts; re-indexing frequencies or dropping a resolved mode does not")
    R3 = rep.rule("R-C20-3", "irfftn(., s=points.shape[1:-1], dim=D) is paired with rfftn(points, dim=D): same axes, same norm; padding amounts derive from mode_num - spectrum shape",
                  floor=4, why="another output size, axis list or normalisation is not the inverse transform on the input grid")
    ci = repo.cls(f"{FN}._FourierLayer")
    fi = ci.methods.get("forward")
    rep.saw(fi)
    pname = fi.params[1]
    for p in paths(fi.node, track_stores=True):
        if p.ret is RAISE or p.ret is None:
            continue
        inv = [c for c in ast.walk(p.ret) if isinstance(c, ast.Call) and attr_chain(c.func) in ("torch.fft.irfftn", "torch.fft.irfft", "torch.fft.irfft2", "torch.fft.ifftn")]
        if not inv:
            rep.violation(R3, fi.site(p.ret_node), fi.fq, "the output contains the inverse real FFT of the filtered spectrum", dump(p.ret)[:100], "no irfftn")
            continue
        iv = inv[0]
        spec = iv.args[0] if iv.args else kwarg(iv, "input")
        fwd = [c for c in ast.walk(spec) if isinstance(c, ast.Call) and attr_chain(c.func) in ("torch.fft.rfftn", "torch.fft.rfft", "torch.fft.rfft2", "torch.fft.fftn")]
        if not fwd:
            rep.violation(R3, fi.site(p.ret_node), fi.fq, "the inverted spectrum stems from rfftn of the input", dump(spec)[:100], "no rfftn")
            continue
        ids = {def_id(c) for c in fwd}
        rep.check(R3, len(ids) == 1 and attr_chain(fwd[0].func) == "torch.fft.rfftn" and attr_chain(iv.func) == "torch.fft.irfftn", fi.site(p.ret_node), fi.fq,
                  "one rfftn, inverted by irfftn", f"{len(ids)} forward transform(s): {attr_chain(fwd[0].func)} / {attr_chain(iv.func)}", "transform pair")
        f0 = fwd[0]
        rep.check(R3, f0.args and dump(f0.args[0]) == pname, fi.site(p.ret_node), fi.fq, "rfftn is applied to the input itself", dump(f0.args[0])[:60] if f0.args else "", "rfftn input")
        d1, d2 = kwarg(f0, "dim", 2), kwarg(iv, "dim", 2)
        rep.check(R3, d1 is not None and d2 is not None and dump(d1) == dump(d2) == "self.fourier_dims", fi.site(p.ret_node), fi.fq, "same axis list self.fourier_dims on both transforms",
                  f"dim={dump(d1)} / dim={dump(d2)}", f"{dump(d1)}|{dump(d2)}")
        s = kwarg(iv, "s", 1)
        rep.check(R3, s is not None and dump(s) == f"{pname}.shape[1:-1]", fi.site(p.ret_node), fi.fq, "s = points.shape[1:-1] (the input's spatial resolution)", f"s={dump(s)}", f"s={dump(s)}")
        n1, n2 = kwarg(f0, "norm"), kwarg(iv, "norm")
        rep.check(R3, dump(n1) == dump(n2), fi.site(p.ret_node), fi.fq, "same `norm` on both transforms", f"norm={dump(n1)} / norm={dump(n2)}", f"{dump(n1)}|{dump(n2)}")
        ops = _spectrum_ops(spec, None)
        bad, unknown = [], []
        for o in ops:
            name = o.split("(")[0].split("[")[0]
            if name == "pad":
                continue
            if name == "Mult" or name in ("mul", "multiply"):
                inner = o[len(name) + 1:-1] if len(o) > len(name) + 1 and o[-1] in ")]" else o[len(name) + 1:]
                if inner.replace(" ", "") in ("self.fourier_kernel", "fft,self.fourier_kernel", "self.fourier_kernel,fft") or ("self.fourier_kernel" in o and not any(
                        k in inner for k in ("index_select", "roll", "flip", "gather", "take", "[", "permute", "transpose", "repeat", "interpolate", "round", "clamp"))):
                    continue
                bad.append(o if "self.fourier_kernel" not in o else "Mult(kernel re-indexed / resampled: " + inner[:60] + ")")
                continue
            if name == "slice":
                continue
            if name == "__store__":
                bad.append(o)  # entries of the spectrum overwritten in place
                continue
            if name in REINDEX:
                bad.append(o)
            elif name in ("Add", "Sub", "Div", "abs", "exp", "Pow"):
                bad.append(o)
            else:
                unknown.append(o)
        if bad:
            rep.violation(R2, fi.site(p.ret_node), fi.fq, "spectrum only padded / truncated / multiplied by the kernel", f"operations on the spectrum: {ops}; not allowed: {bad}", "; ".join(sorted(set(b.split('(')[0] for b in bad))))
        elif unknown:
            rep.undecided(R2, fi.site(p.ret_node), fi.fq, "spectrum operations on the whitelist", f"unknown operation(s) {unknown}")
        else:
            mult = [o for o in ops if o.startswith(("Mult", "mul"))]
            rep.check(R2, len(mult) == 1, fi.site(p.ret_node), fi.fq, "exactly one element-wise product with self.fourier_kernel", f"operations: {ops}", str(ops))
        # padding amounts / kept modes: derived from mode_num - spectrum shape, no constant offsets
        offs = []
        for e in p.events:
            if e.value is None and e.kind != "aug":
                continue
            node = e.node
            if isinstance(node, ast.AugAssign) and isinstance(node.value, ast.Constant) and isinstance(node.value.value, int) and ("mode" in dump(node.target) or "shape" in dump(node.target) or "n_" in dump(node.target)):
                offs.append(dump(node))
        for n in ast.walk(fi.node):
            if isinstance(n, ast.BinOp) and isinstance(n.op, (ast.Add, ast.Sub)) and isinstance(n.right, ast.Constant) and isinstance(n.right.value, int) and n.right.value != 0:
                t = dump(n.left)
                if ("fft" in t and "shape" in t) or "mode_num" in t:
                    offs.append(dump(n))
        rep.check(R2, not offs, fi.site(), fi.fq, "kept mode counts are min(mode_num, available modes): no constant offset", str(offs[:2]), str(sorted(set(offs))[:2]))
        pads = [c for c in ast.walk(spec) if isinstance(c, ast.Call) and ends(attr_chain(c.func), "pad")]
        if pads:
            _pad_vector(rep, R3, fi, pname)
        break
    init = ci.methods.get("__init__")
    rep.saw(init)
    for p in paths(init.node, expand_self=False):
        if p.ret is RAISE:
            continue
        _fourier_dims(rep, R3, init)
        k = p.attrs.get("self.fourier_kernel")
        rep.check(R2, k is not None and ends(attr_chain(k.func) if isinstance(k, ast.Call) else "", "Parameter") and "torch.cfloat" in dump(k), init.site(), init.fq, "the kernel is a complex nn.Parameter of shape (*modes, channels)", dump(k)[:100], dump(k)[:100])
        break


def _pad_vector(rep, R3, fi, pname):
    """partial evaluation of forward for 1, 2, 3 spatial axes: the list handed to F.pad must be
    [0, 0] (channels) followed, from the last spatial axis to the first, by (0, mode_k - spectrum_k)"""
    from ..absdom.listeval import Evaluator, Opaque, Vec1, UNKNOWN, norm
    from ..absdom.poly import RF
    for D in (1, 2, 3):
        seen = []

        def resolve(e, ev, f, D=D):
            t = dump(e).replace(" ", "")
            if t == "self.data_dim":
                return D
            if t == "self.mode_num":
                return Vec1([RF.atom(f"M{k}") for k in range(D)])
            if t == "self.fourier_dims":
                return list(range(1, D + 1))
            if isinstance(e, ast.Attribute) and e.attr == "shape":
                try:
                    base = ev.ev(e.value, f)
                except Exception:
                    return None
                if isinstance(base, Opaque) and base.tag == "spectrum":
                    return [RF.atom("B")] + [RF.atom(f"S{k}") for k in range(D)] + [RF.atom("C")]
                if isinstance(base, Opaque) and base.tag == pname:
                    return [RF.atom("B")] + [RF.atom(f"N{k}") for k in range(D)] + [RF.atom("C")]
            if isinstance(e, ast.Name) and e.id == pname:
                return Opaque(pname)
            if isinstance(e, ast.Attribute) and (attr_chain(e) or "").startswith("torch."):
                return Opaque(attr_chain(e))
            if isinstance(e, ast.Attribute) and e.attr in ("device", "dtype"):
                return Opaque(e.attr)
            return None

        def on_call(e, name, args, kws, ev, f):
            if name in ("torch.fft.rfftn", "torch.fft.rfft", "torch.fft.rfft2"):
                return Opaque("spectrum")
            if name.endswith("functional.pad") or name in ("F.pad", "torch.nn.functional.pad", "nn.functional.pad"):
                seen.append(args[1] if args and len(args) > 1 else kws.get("pad", UNKNOWN))
                return Opaque("spectrum")
            return None
        Evaluator(resolve, on_call).run(fi.node.body, {})
        if len(seen) > 1:
            rep.violation(R3, fi.site(), fi.fq, f"{D} spatial axes: the spectrum is brought to the mode counts by ONE pad (fill with zeros or cut the high end)",
                          f"{len(seen)} pad calls: a spectrum that is cut and filled again loses modes - which ones depends on something other than (mode_k, spectrum_k)",
                          f"D={D}: {len(seen)} pads")
            continue
        if len(seen) != 1 or seen[0] is UNKNOWN or not isinstance(seen[0], (list, tuple)):
            rep.undecided(R3, fi.site(), fi.fq, f"padding list evaluable for {D} spatial axes", f"{seen!r}"[:120])
            continue
        want = [0, 0]
        for k in reversed(range(D)):
            want += [0, RF.atom(f"M{k}") - RF.atom(f"S{k}")]
        rep.check(R3, norm(list(seen[0])) == norm(want), fi.site(), fi.fq,
                  f"{D} spatial axes: F.pad amounts = [0, 0] + [(0, mode_k - spectrum_k) for k = last..first] (negative = truncation, high-frequency end only)",
                  f"{norm(list(seen[0]))}", f"D={D}: {norm(list(seen[0]))}")


def _fourier_dims(rep, R3, init):
    from ..absdom.listeval import Evaluator, Opaque, UNKNOWN, norm
    from ..absdom.poly import RF
    mn = "mode_num" if "mode_num" in init.params else (init.params[2] if len(init.params) > 2 else None)
    for D in (1, 2, 3):
        def resolve(e, ev, f):
            if isinstance(e, ast.Name) and e.id in init.params:
                return Opaque(e.id)
            if isinstance(e, ast.Attribute) and (attr_chain(e) or "").startswith("torch."):
                return Opaque(attr_chain(e))
            return None

        def on_call(e, name, args, kws, ev, f):
            if name == "isinstance":
                return False if args and isinstance(args[0], (list, tuple)) and "int" in dump(e.args[1]) else None
            return None
        fr = Evaluator(resolve, on_call).run(init.node.body, {mn: tuple(RF.atom(f"M{k}") for k in range(D))})
        fd = fr.attrs.get("self.fourier_dims", UNKNOWN)
        if fd is UNKNOWN or not isinstance(fd, (list, tuple)):
            rep.undecided(R3, init.site(), init.fq, f"self.fourier_dims evaluable for {D} spatial axes", repr(fd)[:80])
            continue
        rep.check(R3, norm(list(fd)) == norm(list(range(1, D + 1))), init.site(), init.fq, f"{D} spatial axes: transformed axes = 1..{D} (not batch, not channels)", str(norm(list(fd))), f"D={D}: {norm(list(fd))}")


def r5_stateless_forward(repo: Repo, rep):
    R = rep.rule("R-C20-5", "the forward passes of the Fourier layer and of FNO keep no state: nothing derived from one input (padding, shapes, spectra) is stored on the module", floor=2,
                 why="the padding depends on the input's resolution: a cached one ties the layer to the first grid it saw")
    for cname in ("_FourierLayer", "FNO"):
        ci = repo.cls(f"{FN}.{cname}")
        fi = ci.methods.get("forward")
        rep.saw(fi)
        writes = sorted({dump(e.target)[:40] for p in paths(fi.node, expand_self=False) for e in p.events if e.kind in ("attr", "aug") and e.target is not None and dump(e.target).startswith("self.")})
        rep.check(R, not writes, fi.site(), fi.fq, "forward writes no attribute of self", str(writes), f"forward writes {writes}")


def r4_fno_structure(repo: Repo, rep):
    R = rep.rule("R-C20-4", "FNO.forward = channel map -> Fourier blocks -> channel map; the default channel maps and the layer's linear connection are nn.Linear on the last axis",
                 floor=4, why="any spatial mixing outside the spectral blocks breaks shift equivariance")
    ci = repo.cls(f"{FN}.FNO")
    fi = ci.methods.get("forward")
    rep.saw(fi)
    pname = fi.params[1]
    for p in paths(fi.node):
        if p.ret is RAISE or p.ret is None:
            continue
        want = f"Points(self.channel_down_sampling(self.fourier_sequential(self.channel_up_sampling(self._fix_points_order({pname})))), self.output_space)"
        rep.check(R, dump(p.ret) == want, fi.site(p.ret_node), fi.fq, "down(fourier_blocks(up(points)))", dump(p.ret)[:160], dump(p.ret)[:160])
    init = ci.methods.get("__init__")
    rep.saw(init)
    hid = "hidden_channels" if "hidden_channels" in init.params else None
    if hid is None:
        raise AnalysisError("FNO.__init__ lost its hidden_channels parameter")
    npaths = 0
    for p in paths(init.node, expand_self=False):
        if p.ret is RAISE:
            continue
        gs = {dump(g): pol for g, pol, k in p.guards}
        up, down, seq = (p.attrs.get(f"self.{a}") for a in ("channel_up_sampling", "channel_down_sampling", "fourier_sequential"))
        if gs.get("channel_up_sample_network") is False and gs.get("channel_down_sample_network") is False:
            npaths += 1
            okl = dump(up) == f"torch.nn.Linear(self.input_space.dim, {hid}, bias=True)" and dump(down) == f"torch.nn.Linear({hid}, self.output_space.dim, bias=True)"
            rep.check(R, okl, init.site(), init.fq, "default channel maps are nn.Linear(in, hidden) / nn.Linear(hidden, out)", f"{dump(up)[:80]} / {dump(down)[:80]}", "channel map defaults")
        if not any(pol and dump(g).startswith("range(") for g, pol, k in p.guards):
            continue
        blocks = None
        if isinstance(seq, ast.Call) and attr_chain(seq.func) in ("nn.Sequential", "torch.nn.Sequential") and seq.args:
            if len(seq.args) == 1 and isinstance(seq.args[0], ast.Starred) and isinstance(seq.args[0].value, (ast.List, ast.Tuple)):
                blocks = list(seq.args[0].value.elts)
            elif not any(isinstance(a, ast.Starred) for a in seq.args):
                blocks = list(seq.args)  # the canonical form of Sequential(*[a, b]) is Sequential(a, b)
        oks = bool(blocks)
        if oks:
            for el in blocks:
                if isinstance(el, ast.Call) and dump(el.func) == "_FourierLayer":
                    oks = oks and bool(el.args) and dump(el.args[0]) == hid
                elif isinstance(el, ast.Subscript) and "activations" in dump(el.value):
                    pass
                else:
                    oks = False
            oks = oks and any(isinstance(el, ast.Call) and dump(el.func) == "_FourierLayer" for el in blocks)
        rep.check(R, bool(oks), init.site(), init.fq, "the blocks are _FourierLayer(hidden_channels, ...) and point-wise activations in an nn.Sequential", dump(seq)[:160], "blocks")
    if npaths == 0:
        rep.undecided(R, init.site(), init.fq, "a constructor path taking both default channel maps", "none found")
    fl = repo.cls(f"{FN}._FourierLayer")
    linit = fl.methods.get("__init__")
    nl = 0
    for p in paths(linit.node, expand_self=False):
        if p.ret is RAISE:
            continue
        lt = p.attrs.get("self.linear_transform")
        if lt is None:
            continue
        nl += 1
        ch = linit.params[1]
        rep.check(R, isinstance(lt, ast.Call) and attr_chain(lt.func) in ("nn.Linear", "torch.nn.Linear") and len(lt.args) >= 2 and dump(lt.args[0]) == dump(lt.args[1]) == ch,
                  linit.site(), linit.fq, "linear connection = nn.Linear(channels, channels) (point-wise)", dump(lt)[:100], "linear connection")
        break
    if nl == 0:
        rep.undecided(R, linit.site(), linit.fq, "self.linear_transform is set on some path", "not found")
    fw = fl.methods.get("forward")
    for p in paths(fw.node):
        if p.ret is RAISE or p.ret is None:
            continue
        lin = [pol for g, pol, k in p.guards if dump(g) == "self.linear_connection"]
        skip = [pol for g, pol, k in p.guards if dump(g) == "self.skip_connection"]
        t = dump(p.ret)
        if lin and lin[0]:
            rep.check(R, f"self.linear_transform({fw.params[1]})" in t, fw.site(p.ret_node), fw.fq, "linear connection acts on the layer input", t[-120:], "linear on input")
        if skip and skip[0]:
            rep.check(R, t.count(fw.params[1]) >= 3, fw.site(p.ret_node), fw.fq, "skip connection adds the layer input", t[-120:], "skip")


def run(repo: Repo, rep):
    from .generic import g_arg_constructor_parameters
    g_arg_constructor_parameters(repo, rep, lambda m: m.endswith(".FNO"), floor=2,
                                 why="a Fourier layer that ignores mode counts / channels is not the configured operator")
    from .c08 import r2_fix_points_order  # an FNO receives (batch, grid.., channels) points through the common sanitiser: re-ordering the variables must address the LAST axis - on a spatial axis it permutes grid nodes and equivariance is gone
    r2_fix_points_order(repo, rep)
    r1_no_input_write(repo, rep)
    r2_r3_spectrum(repo, rep)
    r4_fno_structure(repo, rep)
    r5_stateless_forward(repo, rep)


_F = "src/torchphysics/models/FNO.py"
MUTANTS = [
    dict(id="C20-M1", file=_F, old="        fft = torch.fft.rfftn(points, dim=self.fourier_dims)", new="        points *= 1.0\n        fft = torch.fft.rfftn(points, dim=self.fourier_dims)", rule="R-C20-1", what="in-place op on the input"),
    dict(id="C20-M2", file=_F, old="        fft *= self.fourier_kernel", new="        fft = torch.roll(fft, 1, dims=1) * self.fourier_kernel", rule="R-C20-2", what="spectrum rolled"),
    dict(id="C20-M3", file=_F, old="ifft = torch.fft.irfftn(fft, s=points.shape[1:-1], dim=self.fourier_dims)", new="ifft = torch.fft.irfftn(fft, dim=self.fourier_dims)", rule="R-C20-3", what="output size not pinned to the input"),
    dict(id="C20-M4", file=_F, old="        fft = torch.fft.rfftn(points, dim=self.fourier_dims)", new="        fft = torch.fft.rfftn(points, dim=self.fourier_dims, norm=\"forward\")", rule="R-C20-3", what="norm on one side only"),
    dict(id="C20-M5", file=_F, old="        if self.skip_connection:\n            ifft += points", new="        if self.skip_connection:\n            points += ifft\n            ifft = points", rule="R-C20-1", what="skip connection accumulates into the input"),
    dict(id="C20-M6", file=_F, old="        fft *= self.fourier_kernel", new="        fft = fft * self.fourier_kernel + fft", rule="R-C20-2", what="spectrum added to itself"),
    dict(id="C20-M7", file=_F, old="        self.fourier_dims = list(range(1, self.data_dim+1))", new="        self.fourier_dims = list(range(0, self.data_dim))", rule="R-C20-3", what="batch axis transformed"),
    dict(id="C20-M8", file=_F, old="        padding[3::2] = torch.flip((self.mode_num - original_fft_shape), dims=(0,))", new="        padding[3::2] = torch.flip((self.mode_num - original_fft_shape - 1), dims=(0,))", rule="R-C20-2", what="one resolved mode dropped"),
]
TWINS = [
    dict(id="C20-T1", file=_F, old="        fft *= self.fourier_kernel", new="        fft = torch.mul(fft, self.fourier_kernel)", what="torch.mul, out of place"),
    dict(id="C20-T2", file=_F, old="        if self.skip_connection:\n            ifft += points", new="        if self.skip_connection:\n            ifft = ifft + points", what="out-of-place skip connection"),
]

"""C10 — volume() is the true measure of the domain."""
from __future__ import annotations

import ast
from fractions import Fraction
from typing import Dict, Optional

from ..absdom.poly import RF, NotPoly
from ..absdom.symtensor import PI, NotSym, SymEval, Vec, reduce_squares
from ..flow import RAISE, attr_chain, dump, kwarg, paths
from ..inline import expand_helpers
from ..repo import AnalysisError, ClassInfo, Repo
from ..util import ends
from .c05 import _domain_class_of

EXPLANATION = (
    "Every primitive _get_volume is evaluated symbolically (helpers inlined, shape functions as named atoms, vectors by "
    "components) to a rational function in normal form and compared with the analytic measure table; non-negativity is "
    "decided in a sign domain under the constructor assumptions (radius > 0, upper >= lower); the composition rules of "
    "union / cut / product / translate / rotate, the user override, the density-to-count conversion and the absence of "
    "parameter-dependent caching are checked structurally on expanded path expressions."
)
ASSUMPTIONS = [
    "radius > 0 and upper_bound >= lower_bound (constructor contract)",
    "shapely / trimesh report correct area, length and volume (third-party measures are not decided)",
    "documented estimates (non-disjoint union, non-contained cut, intersection, dependent product) are outside the property",
]
DOM = "problem.domains"


def shape_atom(n: ast.AST, ev: SymEval):
    """shape functions of the primitives as named atoms"""
    x = n
    while isinstance(x, ast.Call) and isinstance(x.func, ast.Attribute) and x.func.attr in ("reshape", "view", "squeeze", "unsqueeze"):
        x = x.func.value
    if isinstance(x, ast.Call):
        ch = attr_chain(x.func) or ""
        tail = ch.split(".")[-1]
        if ch.startswith(("self.", "self.domain.")) and ch.count(".") <= 2:
            if tail == "radius":
                return RF.atom("r")
            if tail == "center":
                return None  # dimension decided by the caller's table
            if tail == "lower_bound":
                return RF.atom("lb")
            if tail == "upper_bound":
                return RF.atom("ub")
            if tail in ("origin", "corner_1", "corner_2"):
                nm = {"origin": "o", "corner_1": "p", "corner_2": "q"}[tail]
                return Vec([RF.atom(f"{nm}.0"), RF.atom(f"{nm}.1")])
            if tail in ("len_of_params",):
                return RF.const(1)
    if isinstance(x, ast.Name) and x.id in ("no_of_params", "num_of_params"):
        return RF.const(1)
    return None


def cross(a: Vec, b: Vec) -> RF:
    return a.c[0] * b.c[1] - a.c[1] * b.c[0]


def _refs():
    r = RF.atom("r")
    o = Vec([RF.atom("o.0"), RF.atom("o.1")])
    p = Vec([RF.atom("p.0"), RF.atom("p.1")])
    q = Vec([RF.atom("q.0"), RF.atom("q.1")])
    from ..absdom.symtensor import binop
    d1 = binop("-", p, o)
    d2 = binop("-", q, o)
    return {
        ("interval", "Interval"): ("ub - lb", RF.atom("ub") - RF.atom("lb"), None),
        ("interval", "IntervalBoundary"): ("2 (two end points)", RF.const(2), None),
        ("interval", "IntervalSingleBoundaryPoint"): ("1 (one point)", RF.const(1), None),
        ("point", "Point"): ("1 (counting measure)", RF.const(1), None),
        ("circle", "Circle"): ("π r²", PI * r * r, None),
        ("circle", "CircleBoundary"): ("2 π r", RF.const(2) * PI * r, None),
        ("sphere", "Sphere"): ("4/3 π r³", RF.const(Fraction(4, 3)) * PI * r * r * r, None),
        ("sphere", "SphereBoundary"): ("4 π r²", RF.const(4) * PI * r * r, None),
        ("parallelogram", "Parallelogram"): ("|d1 × d2|", None, cross(d1, d2)),
        ("triangle", "Triangle"): ("|d1 × d2| / 2", None, cross(d1, d2) / RF.const(2)),
        ("parallelogram", "ParallelogramBoundary"): ("2 (|d1| + |d2|)", ("perimeter", [d1, d2], 2), None),
        ("triangle", "TriangleBoundary"): ("|p-o| + |q-p| + |o-q|", ("perimeter", [d1, binop("-", q, p), binop("-", o, q)], 1), None),
    }


MODS = {"interval": "domain1D", "point": "domain0D", "circle": "domain2D", "sphere": "domain3D", "parallelogram": "domain2D", "triangle": "domain2D"}


def nonneg(rf: RF, ev: SymEval) -> bool:
    """sign domain: provably >= 0 under r > 0, ub >= lb"""
    if rf.d != rf.d.const(1):
        return False
    # substitute ub - lb by a non-negative atom w
    for mono, c in rf.n.t.items():
        if c < 0:
            return False
        for atom, e in mono:
            if atom in ("r", "pi", "w") or atom.startswith(("N[", "|")):
                continue
            if e.denominator == 1 and int(e) % 2 == 0:
                continue
            return False
    return True


def r1_r2_formulas(repo: Repo, rep):
    R1 = rep.rule("R-C10-1", "closed-form measure of every primitive and boundary equals the analytic formula (rational normal form)", floor=12,
                  why="a wrong factor or exponent gives a wrong measure for every parameter value")
    R2 = rep.rule("R-C10-2", "the measure is provably non-negative whatever the vertex orientation", floor=12,
                  why="a signed determinant is negative for clockwise corners; density sampling then asks for a negative number of points")
    for (mod, cname), (txt, ref, signed_ref) in _refs().items():
        ci = repo.cls(f"{DOM}.{MODS[mod]}.{mod}.{cname}")
        fi = ci.methods.get("_get_volume")
        if fi is None:
            raise AnalysisError(f"{cname}._get_volume vanished")
        rep.saw(fi)
        dci = _domain_class_of(repo, ci)
        for p in paths(fi.node):
            if p.ret is RAISE or p.ret is None:
                continue
            e = expand_helpers(repo, ci, p.ret, domain_cls=dci)
            borrowed = sorted({dump(c.func)[:50] for c in ast.walk(e) if isinstance(c, ast.Call) and isinstance(c.func, ast.Attribute) and c.func.attr in ("volume", "_get_volume")
                               and dump(c.func.value) != "self"})
            if borrowed:
                rep.violation(R1, fi.site(p.ret_node), fi.fq, f"{txt} from the shape parameters", f"derived from {borrowed}: a user-set volume of that object (or its estimate) leaks into this measure",
                              f"measure borrowed from {borrowed}")
                continue
            ev = SymEval(shape_atom)
            try:
                v = ev.ev(e)
            except (NotSym, NotPoly) as err:
                rep.undecided(R1, fi.site(p.ret_node), fi.fq, f"measure evaluable ({txt})", str(err))
                continue
            if isinstance(v, Vec) and len(v) == 1:
                v = v.c[0]
            if not isinstance(v, RF):
                rep.violation(R1, fi.site(p.ret_node), fi.fq, f"one scalar per parameter row ({txt})", f"value {v!r}", repr(v))
                continue
            if isinstance(ref, tuple) and ref[0] == "perimeter":
                want = RF.const(0)
                for d in ref[1]:
                    want = want + ev.norm_of(d)
                want = want * RF.const(ref[2])
                ok = v == want
                rep.check(R1, ok, fi.site(p.ret_node), fi.fq, f"== {txt}", f"{v!r}", repr(v))
                rep.check(R2, nonneg(v, ev), fi.site(p.ret_node), fi.fq, "value >= 0", repr(v), repr(v))
            elif ref is not None:
                rep.check(R1, v == ref, fi.site(p.ret_node), fi.fq, f"== {txt}", f"{v!r}", repr(v))
                vv = v
                if cname == "Interval":
                    vv = RF.atom("w") if v == ref else v
                rep.check(R2, nonneg(vv, ev), fi.site(p.ret_node), fi.fq, "value >= 0 (radius > 0, upper >= lower)", repr(v), repr(v))
            else:
                # |cross|: accept abs of (+/-) the determinant; a bare determinant has the right magnitude but not the sign
                a_pos, a_neg = RF.atom(f"|{signed_ref!r}|"), RF.atom(f"|{(-signed_ref)!r}|")
                is_abs = v in (a_pos, a_neg)
                # sqrt(det^2) form
                sq_ok = False
                try:
                    vs = reduce_squares(v * v, ev)
                    sq_ok = vs == signed_ref * signed_ref
                except (NotSym, NotPoly):
                    pass
                rep.check(R1, is_abs or sq_ok, fi.site(p.ret_node), fi.fq, f"magnitude == {txt}", f"{v!r}", repr(v))
                pos = is_abs or (sq_ok and nonneg(v, ev))
                rep.check(R2, pos, fi.site(p.ret_node), fi.fq, "value >= 0 for either vertex orientation", f"{v!r} (signed determinant)" if not pos else repr(v), repr(v))
    # third-party measures: the library attribute of the right object
    tp_table = [
        ("domain2D.shapely_polygon", "ShapelyPolygon", ("self.polygon.area",)),
        ("domain2D.shapely_polygon", "ShapelyBoundary", ("self.domain.polygon.boundary.length", "self.domain.polygon.length")),
        ("domain3D.trimesh_polyhedron", "TrimeshPolyhedron", ("self.mesh.volume",)),
    ]
    for mod, cname, attrs in tp_table:
        ci = repo.cls(f"{DOM}.{mod}.{cname}")
        fi = ci.methods.get("_get_volume")
        if fi is None:
            raise AnalysisError(f"{cname}._get_volume vanished")
        rep.saw(fi)
        for p in paths(fi.node):
            if p.ret is RAISE:
                continue
            t = dump(p.ret)
            used = [a for a in attrs if a in t]
            other = [dump(n) for n in ast.walk(p.ret) if isinstance(n, ast.Attribute) and dump(n).startswith("self.") and dump(n).count(".") >= 2 and not any(dump(n) in a or a in dump(n) for a in attrs)]
            rep.check(R1, bool(used) and not other, fi.site(p.ret_node), fi.fq, f"measure taken from {attrs[0]} (whole boundary incl. holes)", t[:100], t[:100])


def r3_composition(repo: Repo, rep):
    R = rep.rule("R-C10-3", "composition: union vol(a)+vol(b); cut vol(a)-vol(b) iff contained else vol(a); product vol(a)*vol(b) iff the factors are independent; "
                 "translate/rotate delegate to the inner public volume; always through the operands' public volume()", floor=9,
                 why="bypassing volume() ignores a user-set volume; a wrong combination breaks additivity/multiplicativity")
    ops = f"{DOM}.domainoperations"
    A, Bv = "self.domain_a.volume(params, device)", "self.domain_b.volume(params, device)"
    Ab, Bb = "self.domain.domain_a.boundary.volume(params, device)", "self.domain.domain_b.boundary.volume(params, device)"

    def rets(ci, name="_get_volume"):
        fi = ci.methods.get(name)
        if fi is None:
            raise AnalysisError(f"{ci.name}.{name} vanished")
        rep.saw(fi)
        return fi, [p for p in paths(fi.node) if p.ret is not RAISE and p.ret is not None]
    ci = repo.cls(f"{ops}.union.UnionDomain")
    fi, ps = rets(ci)
    for p in ps:
        r = p.ret.elts[0] if isinstance(p.ret, ast.Tuple) else p.ret
        rep.check(R, dump(r) in (f"{A} + {Bv}", f"{Bv} + {A}"), fi.site(p.ret_node), fi.fq, "vol(A ∪ B) = vol(a) + vol(b) via public volume()", dump(r)[:120], dump(r)[:120])
    ci = repo.cls(f"{ops}.union.UnionBoundaryDomain")
    fi, ps = rets(ci)
    for p in ps:
        rep.check(R, dump(p.ret) in (f"{Ab} + {Bb}",), fi.site(p.ret_node), fi.fq, "boundary measure = |∂a| + |∂b| via public volume()", dump(p.ret)[:120], dump(p.ret)[:120])
    ci = repo.cls(f"{ops}.cut.CutDomain")
    fi, ps = rets(ci)
    for p in ps:
        cont = [pol for g, pol, k in p.guards if dump(g) in ("self.contained", "not self.contained")]
        contained = None
        for g, pol, k in p.guards:
            if dump(g) == "self.contained":
                contained = pol
            elif dump(g) == "not self.contained":
                contained = not pol
        if contained is None:
            rep.undecided(R, fi.site(p.ret_node), fi.fq, "path decided on self.contained", "no such guard")
            continue
        want = f"{A} - {Bv}" if contained else A
        rep.check(R, dump(p.ret) == want, fi.site(p.ret_node), fi.fq, f"contained={contained}: {want.replace('(params, device)', '')}", dump(p.ret)[:120], dump(p.ret)[:120])
    ci = repo.cls(f"{ops}.cut.CutBoundaryDomain")
    fi, ps = rets(ci)
    for p in ps:
        rep.check(R, dump(p.ret) == f"{Ab} + {Bb}", fi.site(p.ret_node), fi.fq, "|∂(A \\\\ B)| = |∂a| + |∂b| (contained)", dump(p.ret)[:120], dump(p.ret)[:120])
    ci = repo.cls(f"{ops}.intersection.IntersectionDomain")
    fi, ps = rets(ci)
    for p in ps:
        rep.check(R, dump(p.ret) == A, fi.site(p.ret_node), fi.fq, "documented estimate vol(a), through the public volume()", dump(p.ret)[:120], dump(p.ret)[:120])
    ci = repo.cls(f"{ops}.product.ProductDomain")
    fi, ps = rets(ci)
    n_const = 0
    for p in ps:
        const = [pol for g, pol, k in p.guards if dump(g) == "self._is_constant"]
        if const and const[0]:
            n_const += 1
            rep.check(R, dump(p.ret) in (f"{A} * {Bv}", f"{Bv} * {A}"), fi.site(p.ret_node), fi.fq, "independent factors: vol(a) * vol(b)", dump(p.ret)[:120], dump(p.ret)[:120])
    if n_const == 0:
        rep.undecided(R, fi.site(), fi.fq, "a path for independent factors", "none")
    for mod, cname in (("translate", "Translate"), ("rotate", "Rotate")):
        ci = repo.cls(f"{ops}.{mod}.{cname}")
        defined = [m for m in ("volume", "_get_volume") if m in ci.methods]
        if not defined:
            rep.violation(R, ci.module.relpath, ci.fq, "the measure of a moved domain is the inner domain's volume()", "neither volume nor _get_volume defined", "no volume")
            continue
        for m in defined:
            fi, ps = rets(ci, m)
            for p in ps:
                t = dump(p.ret).replace(" ", "")
                ok = t in ("self.domain.volume(params,device)", "self.domain.volume(params,device)", "self.domain.volume(params,device)")
                rep.check(R, ok, fi.site(p.ret_node), fi.fq, "rigid motions keep the measure: the inner domain's public volume()", dump(p.ret), dump(p.ret))
        if "volume" in ci.methods:
            # volume() is overridden without consulting _user_volume: set_volume must reach the inner domain
            if "set_volume" not in ci.methods:
                rep.violation(R, ci.module.relpath, ci.fq, "set_volume forwarded to the inner domain when volume() is overridden", "set_volume not overridden", "set_volume")
            else:
                fi, ps = rets(ci, "set_volume")
                for p in ps:
                    rep.check(R, dump(p.ret) == f"self.domain.set_volume({fi.params[1]})", fi.site(p.ret_node), fi.fq, "set_volume forwarded to the inner domain", dump(p.ret), dump(p.ret))


def r4_override(repo: Repo, rep):
    R = rep.rule("R-C10-4", "Domain.volume returns the user-set volume iff one was set, else _get_volume; set_volume stores the wrapped user value", floor=3,
                 why="a user-set volume must override the estimate everywhere")
    D = repo.cls(f"{DOM}.domain.Domain")
    fi = D.methods.get("volume")
    if fi is None:
        raise AnalysisError("Domain.volume vanished")
    rep.saw(fi)
    for p in paths(fi.node):
        if p.ret is RAISE:
            continue
        unset = None
        for g, pol, k in p.guards:
            from ..util import norm_compare
            op, l, r, npol = norm_compare(g, pol)
            if op == "is" and {l, r} == {"None", "self._user_volume"}:
                unset = npol
        if unset is None:
            rep.undecided(R, fi.site(p.ret_node), fi.fq, "path decided on `self._user_volume is None`", "no such guard")
            continue
        want = "self._get_volume(params, device=device)" if unset else "self._user_volume(params, device=device)"
        rep.check(R, dump(p.ret) == want, fi.site(p.ret_node), fi.fq, want, dump(p.ret), dump(p.ret))
    fi = D.methods.get("set_volume")
    rep.saw(fi)
    for p in paths(fi.node):
        v = p.env.get("self._user_volume")
        rep.check(R, v is not None and dump(v) == f"DomainUserFunction({fi.params[1]})", fi.site(), fi.fq, "set_volume: _user_volume = DomainUserFunction(volume)", dump(v), dump(v))
    # subclasses must not override volume (except the delegating motions)
    over = [c.name for c in repo.subclasses(D, strict=True) if "volume" in c.methods and c.name not in ("Translate", "Rotate")]
    rep.check(R, not over, D.module.relpath, D.fq, "no subclass overrides volume() (the override point is _get_volume)", str(over), str(over))


def r5_density(repo: Repo, rep):
    R = rep.rule("R-C10-5", "compute_n_from_density = int(ceil(d * volume(params))) without touching the volume tensor; every primitive sampler's density branch takes n from it",
                 floor=14, why="density sampling must yield ceil(density * measure) points; in-place scaling of a returned volume corrupts a user-set volume")
    D = repo.cls(f"{DOM}.domain.Domain")
    fi = D.methods.get("compute_n_from_density")
    if fi is None:
        raise AnalysisError("Domain.compute_n_from_density vanished")
    rep.saw(fi)
    d = fi.params[1]
    for p in paths(fi.node):
        if p.ret is RAISE:
            continue
        t = dump(p.ret).replace(" ", "")
        vol = "self.volume(params)"
        ok = t in (f"int(torch.ceil({d}*{vol}))", f"int(torch.ceil({vol}*{d}))", f"int(math.ceil({d}*{vol}))", f"int(math.ceil({vol}*{d}))")
        rep.check(R, ok, fi.site(p.ret_node), fi.fq, "int(ceil(d * self.volume(params)))", t, t)
        inplace = [dump(e.node) for e in p.events if e.kind in ("aug", "store") and "self.volume(" in dump(e.target)]
        inplace += [dump(e.node) for e in p.events if e.kind == "call" and isinstance(e.value, ast.Call) and isinstance(e.value.func, ast.Attribute)
                    and e.value.func.attr.endswith("_") and not e.value.func.attr.startswith("_") and "self.volume(" in dump(e.value.func.value)]
        rep.check(R, not inplace, fi.site(), fi.fq, "the tensor returned by volume() is not modified in place", str(inplace[:1]), str(inplace[:1]))
    for ci in repo.subclasses(D, strict=True):
        if ci.module.name.split(".")[-1] not in MODS:
            continue
        for mname in ("sample_random_uniform", "sample_grid"):
            sf = ci.methods.get(mname)
            if sf is None:
                continue
            src = ast.unparse(sf.node)
            if "compute_n_from_density" not in src:
                # delegating samplers (e.g. single boundary point's grid) are fine when they forward d
                forwards_d = any(isinstance(c, ast.Call) and isinstance(c.func, ast.Attribute) and c.func.attr in ("sample_random_uniform", "sample_grid")
                                 and ((len(c.args) >= 2 and dump(c.args[1]) == "d") or dump(kwarg(c, "d")) == "d") for c in ast.walk(sf.node))
                if forwards_d or "NotImplementedError" in src:
                    continue
                rep.violation(R, sf.site(), sf.fq, "density branch uses compute_n_from_density", "no such call", "no density conversion")
                continue
            rep.saw(sf)
            ok = False
            for n in ast.walk(sf.node):
                if isinstance(n, ast.If) and dump(n.test) == "d":
                    for s in n.body:
                        if isinstance(s, ast.Assign) and dump(s.targets[0]) == "n":
                            v = dump(s.value)
                            if v == "self.compute_n_from_density(d, params)":
                                ok = True
                            elif v == "2 * self.compute_n_from_density(d, params)" and ci.name == "Triangle" and mname == "sample_random_uniform":
                                # twice the count is proposed in the unit square: under a density the half with u + v >= 1 has to be *removed*
                                # (mirroring it, as for a requested count, would return twice density * area points)
                                ok = _density_half_removed(repo, rep, R, ci, sf)
            rep.check(R, ok, sf.site(), sf.fq, "if d: n = self.compute_n_from_density(d, params)", "density branch differs", "density branch")


def _density_half_removed(repo, rep, R, ci, sf) -> bool:
    helpers = [c for c in ast.walk(sf.node) if isinstance(c, ast.Call) and isinstance(c.func, ast.Attribute) and dump(c.func.value) == "self"
               and c.args and dump(c.args[0]) == "d" and c.func.attr != "compute_n_from_density"]
    if not helpers:
        return False
    good = False
    for c in helpers:
        h = repo.resolve_method(ci, c.func.attr)
        if h is None:
            continue
        rep.saw(h)
        dn = h.params[1]
        under_d = [p for p in paths(h.node) if p.ret is not RAISE and any(pol and dump(g) == dn for g, pol, k in p.guards)]
        if not under_d:
            rep.violation(R, h.site(), h.fq, "under a density the doubled proposals are thinned out (rows with u + v >= 1 removed)", f"no branch on `{dn}`: every proposal is kept", "doubled proposals all kept")
            return True  # reported here
        for p in under_d:
            stores = [e for e in p.events if e.kind == "store"]
            sel = p.ret
            while isinstance(sel, ast.Call) and isinstance(sel.func, ast.Attribute) and sel.func.attr in ("unsqueeze", "reshape", "view"):
                sel = sel.func.value
            while isinstance(sel, ast.Subscript) and not any(isinstance(x, ast.Call) for x in ast.walk(sel.slice)):
                sel = sel.value  # [None, :] and the like
            removed = isinstance(sel, ast.Subscript) and not stores and any(
                isinstance(x, (ast.Call, ast.Compare)) or (isinstance(x, ast.UnaryOp) and isinstance(x.op, (ast.Invert, ast.Not))) for x in ast.walk(sel.slice))  # rows chosen by a computed mask / index
            rep.check(R, removed, h.site(p.ret_node), h.fq, "under a density the rows with u + v >= 1 are removed, not mirrored", dump(p.ret)[:80], "density branch keeps all proposals")
            good = True
    return good


def r5d_exclusive_contributions(repo: Repo, rep):
    R = rep.rule("R-C10-5d", "density sampling of a Boolean boundary takes every boundary piece from one operand only: the facts of the two returned contributions exclude each other",
                 floor=6, why="a piece on which both boundaries coincide and that both contributions keep is sampled twice: density * (length + shared length) points")
    from ..absdom import boolform as B
    from ..absdom.facts import OPAQUE, AllParams, Const, Interp, Misuse, Undecided, operands
    from .c01 import CLASSES, OPS
    from .c05 import closed_only, membership_formula
    for mod, cname in CLASSES:
        if "Boundary" not in cname:
            continue
        ci = repo.cls(f"{OPS}.{mod}.{cname}")
        try:
            F = membership_formula(ci.methods["_contains"])[0][0][0]
        except Exception as e:
            rep.undecided(R, ci.module.relpath, ci.fq, "membership formula extractable", str(e)[:80])
            continue
        for mname in ("sample_random_uniform", "sample_grid"):
            fi = ci.methods.get(mname)
            if fi is None:
                continue
            rep.saw(fi)
            it = Interp(repo, ci, F, True)
            try:
                rets = it.entry(fi, {p: (AllParams() if p == "params" else Const(None) if p == "n" else OPAQUE) for p in fi.params[1:]})
            except (Undecided, Misuse) as e:
                rep.undecided(R, fi.site(), fi.fq, "density path interpretable", str(e)[:100])
                continue
            for f in it.visited:
                rep.saw(f)
            for v, site in zip(rets, it.ret_sites):
                ops = operands(v) or []
                for i in range(len(ops)):
                    for j in range(i + 1, len(ops)):
                        both = B.satisfiable(B.conj(ops[i].facts, ops[j].facts), closed_only)
                        rep.check(R, not both, fi.site(site), fi.fq, f"contributions from {ops[i].origin} and {ops[j].origin} exclude each other",
                                  f"both keep points with {B.show(ops[i].facts)} and {B.show(ops[j].facts)}", f"{ops[i].origin}/{ops[j].origin} overlap")


def r3b_flags_from_the_user(repo: Repo, rep):
    R = rep.rule("R-C10-3b", "`contained` / `disjoint` are declarations of the user: the operators (+, -, &) build the operation with the default, they never compute the flag", floor=3,
                 why="a flag guessed from bounding boxes switches to the exact additive / subtractive rule for operands that merely have nested boxes")
    D = repo.cls(f"{DOM}.domain.Domain")
    n = 0
    for name in ("__add__", "__sub__", "__and__", "__or__", "__radd__", "__iadd__", "__isub__"):
        fi = D.methods.get(name)
        if fi is None:
            continue
        n += 1
        rep.saw(fi)
        bad = []
        for c in ast.walk(fi.node):
            if isinstance(c, ast.Call) and (attr_chain(c.func) or "").split(".")[-1] in ("CutDomain", "UnionDomain", "IntersectionDomain"):
                for k in c.keywords:
                    if k.arg in ("contained", "disjoint") and not (isinstance(k.value, ast.Constant) and k.value.value is False):
                        bad.append(f"{k.arg}={dump(k.value)[:40]}")
                if len(c.args) > 2:
                    bad.append(f"third positional argument {dump(c.args[2])[:40]}")
        rep.check(R, not bad, fi.site(), fi.fq, "the operation is built with the default flag", str(bad), f"flag computed: {bad}")
    if n == 0:
        rep.undecided(R, D.module.relpath, D.fq, "domain operators", "none found")


def r5e_grid_counts_truncate(repo: Repo, rep):
    R = rep.rule("R-C10-5e", "per-axis counts of a regular grid are the truncated roots of the requested number (their product never exceeds it): no rounding up", floor=2,
                 why="round(sqrt(n a/b)) * round(sqrt(n b/a)) can exceed n: under a density the grid then has more than ceil(density * measure) points")
    for spec in (f"{DOM}.domain2D.parallelogram.Parallelogram", f"{DOM}.domain2D.triangle.Triangle", f"{DOM}.domain2D.shapely_polygon.ShapelyPolygon", f"{DOM}.domain3D.sphere.Sphere",
                 f"{DOM}.domain3D.trimesh_polyhedron.TrimeshPolyhedron", f"{DOM}.domain2D.circle.Circle"):
        ci = repo.cls(spec)
        for fi in ci.methods.values():
            if "grid" not in fi.name:
                continue
            counts = []
            from ..util import deref, single_defs
            body = deref(fi.node, single_defs(fi.node))  # temporaries replaced by their values
            for n_ in ast.walk(body):
                if isinstance(n_, ast.Assign) and isinstance(n_.value, ast.Call) and attr_chain(n_.value.func) == "int" and n_.value.args \
                        and any(isinstance(x, ast.Call) and (attr_chain(x.func) or "").split(".")[-1] in ("sqrt", "cbrt", "pow") or (isinstance(x, ast.BinOp) and isinstance(x.op, ast.Pow)) for x in ast.walk(n_.value.args[0])):
                    counts.append(n_.value)
                # a truncated root pushed up afterwards: max(int(sqrt(..)), 1) turns the 0 of a thin shape into 1 - the product of the side counts can then exceed n
                if isinstance(n_, ast.Assign) and isinstance(n_.value, ast.Call) and attr_chain(n_.value.func) in ("max", "torch.clamp", "torch.clip") \
                        and any(isinstance(x, ast.Call) and attr_chain(x.func) == "int" and any(isinstance(y, ast.Call) and (attr_chain(y.func) or "").split(".")[-1] in ("sqrt", "cbrt", "pow") for y in ast.walk(x))
                                for x in ast.walk(n_.value)):
                    counts.append(ast.Call(func=ast.Name(id="ceil", ctx=ast.Load()), args=[n_.value], keywords=[]))
            if not counts:
                continue
            rep.saw(fi)
            up = [dump(c)[:70] for c in counts if any(isinstance(x, ast.Call) and (attr_chain(x.func) or "").split(".")[-1] in ("round", "ceil", "rint") for x in ast.walk(c))]
            # a deliberate ceil is fine where the surplus is cut or filtered afterwards by the same function's caller for the fixed-n path only - decided by R-C10-5c
            known_ceil = ci.name in ("Sphere", "TrimeshPolyhedron", "ShapelyPolygon", "Circle")  # box grids that are filtered by membership afterwards
            rep.check(R, not up or known_ceil, fi.site(), fi.fq, "grid side counts are truncated", str(up[:2]), f"rounded-up grid counts {up[:2]}")


def r5f_count_from_own_measure(repo: Repo, rep):
    R = rep.rule("R-C10-5f", "a boundary turns a density into a count with its OWN measure: its samplers never delegate the conversion to a helper of the inner domain "
                 "(which multiplies with the interior's volume)", floor=8,
                 why="ceil(density * area) points on a boundary of length L: 100 instead of 40 on the boundary of a 10 x 10 square")
    bd = repo.cls(f"{DOM}.domain.BoundaryDomain")
    for ci in repo.subclasses(bd, strict=True):
        inner = None
        init = ci.methods.get("__init__")
        if init is not None:
            for n in ast.walk(init.node):
                if isinstance(n, ast.Assert) and isinstance(n.test, ast.Call) and attr_chain(n.test.func) == "isinstance" and len(n.test.args) == 2:
                    got = repo.lookup(ci.module, dump(n.test.args[1]))
                    if got is not None and hasattr(got, "methods"):
                        inner = got
        for mname in ("sample_random_uniform", "sample_grid"):
            fi = ci.methods.get(mname)
            if fi is None:
                continue
            rep.saw(fi)
            bad = []
            for c in ast.walk(fi.node):
                if isinstance(c, ast.Call) and isinstance(c.func, ast.Attribute) and dump(c.func.value) == "self.domain":
                    if c.func.attr == "compute_n_from_density":
                        bad.append(dump(c)[:60])
                    elif inner is not None:
                        h = repo.resolve_method(inner, c.func.attr)
                        if h is not None and any(isinstance(x, ast.Call) and dump(x.func) == "self.compute_n_from_density" for x in ast.walk(h.node)):
                            bad.append(f"{dump(c)[:50]} -> {h.fq.split('.')[-2]}.{h.name} uses the inner domain's volume")
            rep.check(R, not bad, fi.site(), fi.fq, "density -> count with the boundary's own measure", str(bad[:2]), f"interior measure for a boundary count: {bad[:1]}")


def r5b_estimated_volumes(repo: Repo, rep):
    R = rep.rule("R-C10-5b", "domain operations never turn a density into a count through their own volume (it is a documented estimate for union / intersection / non-contained cut / dependent product): "
                 "they sample their operands with the density", floor=4,
                 why="ceil(d * estimate) points are returned where d * |actual set| are expected")
    ops = f"{DOM}.domainoperations"
    n = 0
    for mod in ("union", "cut", "intersection", "translate", "rotate"):  # a moved domain has the measure of the domain it wraps: that one, possibly an operation itself, converts the density
        m = repo.module(f"{ops}.{mod}")
        for ci in m.classes.values():
            for fi in ci.methods.values():
                if not fi.name.startswith(("sample_", "_sample_")):
                    continue
                n += 1
                rep.saw(fi)
                calls = [c for c in ast.walk(fi.node) if isinstance(c, ast.Call) and isinstance(c.func, ast.Attribute) and c.func.attr == "compute_n_from_density" and dump(c.func.value) == "self"]
                rep.check(R, not calls, fi.site(calls[0]) if calls else fi.site(), fi.fq, "no self.compute_n_from_density in a domain operation's sampler", dump(calls[0])[:80] if calls else "", "own volume used for a density")
    if n == 0:
        rep.undecided(R, "src/torchphysics/problem/domains/domainoperations", "operations", "sampling methods of the domain operations", "none found")


def r5c_density_grids(repo: Repo, rep):
    R = rep.rule("R-C10-5c", "a grid asked for by density is the regular grid alone: helpers that draw random points (top-up to an exact count) run only when the count was given", floor=3,
                 why="the documented result of sample_grid(d=..) is a complete regular grid of at most ceil(d * measure) points, the same on every call")
    D = repo.cls(f"{DOM}.domain.Domain")
    n = 0
    for ci in repo.subclasses(D, strict=True):
        if ci.module.name.split(".")[-1] not in MODS:
            continue
        fi = ci.methods.get("sample_grid")
        if fi is None:
            continue
        # methods of the class that draw random numbers (directly or through self.sample_random_uniform)
        rnd = set()
        for name, m in ci.methods.items():
            if name in ("sample_grid", "sample_random_uniform"):
                continue
            if any(isinstance(c, ast.Call) and (attr_chain(c.func) in ("torch.rand", "torch.randn", "torch.rand_like", "torch.randperm") or dump(c.func) == "self.sample_random_uniform") for c in ast.walk(m.node)):
                rnd.add(name)
        if not rnd:
            continue
        n += 1
        rep.saw(fi)
        dname = "d" if "d" in fi.params else None
        for p in paths(fi.node):
            if p.ret is RAISE or p.ret is None:
                continue
            dens = [pol for g, pol, k in p.guards if k == "if" and dump(g) == dname]
            if not dens or not dens[0]:
                continue
            used = sorted({c.func.attr for e in p.events if e.value is not None for c in ast.walk(e.value)
                           if isinstance(c, ast.Call) and isinstance(c.func, ast.Attribute) and dump(c.func.value) == "self" and c.func.attr in rnd})
            rep.check(R, not used, fi.site(p.ret_node), fi.fq, "the density branch returns the regular grid without random top-up", f"calls {used} (random points) for a density", f"density grid topped up by {used}")
    if n == 0:
        rep.undecided(R, D.module.relpath, D.fq, "primitives with random top-up helpers", "none found")


def r7_no_param_cache(repo: Repo, rep):
    R = rep.rule("R-C10-7", "no volume / bounding-box method caches a parameter-dependent value on the domain", floor=20,
                 why="a value cached for the first parameter rows is returned for all later, different rows")
    D = repo.cls(f"{DOM}.domain.Domain")
    for ci in repo.subclasses(D):
        for mname in ("_get_volume", "volume", "bounding_box"):
            fi = ci.methods.get(mname)
            if fi is None:
                continue
            rep.saw(fi)
            bad = []
            for p in paths(fi.node):
                for e in p.events:
                    val = None
                    if e.kind in ("attr", "aug") and e.target is not None and dump(e.target).startswith("self."):
                        val = e.value
                    elif e.kind == "call" and isinstance(e.value, ast.Call) and dump(e.value.func) in ("self.set_volume", "self.set_bounding_box") and e.value.args:
                        val = e.value.args[0]
                    if val is None:
                        continue
                    tainted = any(isinstance(n, ast.Name) and n.id == "params" for n in ast.walk(val))
                    is_fn = isinstance(val, ast.Call) and ends(attr_chain(val.func), "UserFunction", "DomainUserFunction")
                    no_vars = any("necessary_variables" in dump(g) for g, pol, k in e.guards)
                    if tainted and not is_fn and not no_vars:
                        bad.append(dump(e.node)[:70])
            bad = sorted(set(bad))
            rep.check(R, not bad, fi.site(), fi.fq, "values computed from `params` are not stored on self (unless the domain has no free variables)", str(bad[:2]), str(bad[:2]))


def _anon(e: ast.AST) -> str:
    """text of an expression with its local names blanked (stable under renaming of locals): attributes, calls and constants remain"""
    import copy

    class Blank(ast.NodeTransformer):
        def visit_Name(s, n):
            return n if n.id in ("self", "torch", "np", "math") else ast.Name(id="_", ctx=n.ctx)
    return dump(Blank().visit(copy.deepcopy(e)))


def r9_measures_broadcast(repo: Repo, rep):
    R = rep.rule("R-C10-9", "a measure combines the per-row shape quantities (corners, directions, radii: one row for a constant parameter, N rows for a parameter-dependent one) by "
                 "BROADCASTING arithmetic only: no torch.stack / vstack / cat along the row axis of several of them", floor=10,
                 why="stack((dir_1, dir_2, dir_3)) needs equal shapes: a triangle with two constant corners and one moving corner has directions of shape (1, 2) and (N, 2) - the perimeter raises for N >= 2")
    dom = repo.cls("problem.domains.domain.Domain")
    for ci in repo.subclasses(dom, strict=False):
        fi = ci.methods.get("_get_volume")
        if fi is None:
            continue
        rep.saw(fi)
        bad = []
        for c in ast.walk(fi.node):
            if isinstance(c, ast.Call) and (attr_chain(c.func) or "") in ("torch.stack", "torch.vstack", "torch.row_stack", "torch.cat", "torch.concat") and c.args \
                    and isinstance(c.args[0], (ast.Tuple, ast.List)) and len(c.args[0].elts) >= 2:
                dim = kwarg(c, "dim", 1)
                rowwise = attr_chain(c.func) in ("torch.stack", "torch.vstack", "torch.row_stack") or dim is None or (isinstance(dim, ast.Constant) and dim.value == 0)
                if rowwise and all(isinstance(e, (ast.Name, ast.Attribute, ast.Call, ast.BinOp)) for e in c.args[0].elts):
                    bad.append(dump(c)[:70])
        rep.check(R, not bad, fi.site(), fi.fq, "shape quantities are combined by broadcasting arithmetic", str(bad[:1]), str(bad[:1]))


def r8_dependent_product_average(repo: Repo, rep):
    R = rep.rule("R-C10-8", "the approximated measure of a dependent product averages, for EACH parameter row, over that row's own sample values: the evaluations come parameter-major "
                 "(_repeat_params interleaves: row i occupies entries i*N .. (i+1)*N-1), so they are reshaped to (rows, N) and reduced over axis 1", floor=2,
                 why="reshape(N, -1) + sum(dim=0) reads the parameter-major vector as sample-major: with two rows every 'average' mixes both rows ([[3], [3]] instead of [[1], [5]])")
    ci = repo.cls("problem.domains.domainoperations.product.ProductDomain")
    fi = ci.methods.get("_get_volume")
    if fi is None:
        raise AnalysisError("ProductDomain._get_volume vanished")
    rep.saw(fi)
    n = 0
    for c in ast.walk(fi.node):
        if not (isinstance(c, ast.Call) and isinstance(c.func, ast.Attribute) and c.func.attr in ("reshape", "view") and len(c.args) == 2):
            continue
        a0, a1 = dump(c.args[0]), dump(c.args[1])
        if "N_APPROX_VOLUME" not in (a0, a1):
            continue
        n += 1
        # the reduction applied to this reshape
        red = None
        for s_ in ast.walk(fi.node):
            if isinstance(s_, ast.Call) and (attr_chain(s_.func) in ("torch.sum", "torch.mean") or (isinstance(s_.func, ast.Attribute) and s_.func.attr in ("sum", "mean"))):
                arg0 = s_.args[0] if attr_chain(s_.func) in ("torch.sum", "torch.mean") and s_.args else (s_.func.value if isinstance(s_.func, ast.Attribute) else None)
                if arg0 is not None and (arg0 is c or (isinstance(arg0, ast.Name) and any(isinstance(a, ast.Assign) and a.value is c and dump(a.targets[0]) == arg0.id for a in ast.walk(fi.node)))):
                    d = kwarg(s_, "dim", 1 if attr_chain(s_.func) in ("torch.sum", "torch.mean") else 0)
                    red = dump(d) if d is not None else None
        good = (a0 in ("-1",) and a1 == "N_APPROX_VOLUME" and red in ("1", "-1")) or (a1 == "N_APPROX_VOLUME" and a0 not in ("N_APPROX_VOLUME",) and red in ("1", "-1"))
        rep.check(R, good, fi.site(c), fi.fq, "reshape(-1, N_APPROX_VOLUME) reduced over axis 1 (one average per parameter row)", f"reshape({a0}, {a1}) reduced over dim={red}", f"{_anon(c.func.value)[:50]}.reshape({a0}, {a1}) dim={red}")
    if n == 0:
        rep.undecided(R, fi.site(), fi.fq, "the per-row average of the sampled measures", "no reshape with N_APPROX_VOLUME found")


def run(repo: Repo, rep):
    from .c18 import r16_layout_of_every_reader  # Boolean combinations remove the doubly covered part before a density is turned into rows: a box pre-filter in front of the membership test must read the interleaved layout
    r16_layout_of_every_reader(repo, rep)
    from .c02 import r11_topped_up_count  # with a density the number of rows IS the statement about the measure: ceil(d * volume) rows, not whatever the last top-up round left
    r11_topped_up_count(repo, rep)
    r8_dependent_product_average(repo, rep)
    r9_measures_broadcast(repo, rep)
    from .c01 import r1_facts  # density sampling of a Boolean combination delivers about d * measure rows only if candidates drawn in one operand are tested against the OTHER: rows outside the combination inflate the count
    r1_facts(repo, rep)
    from .generic import g_arg_constructor_parameters
    g_arg_constructor_parameters(repo, rep, lambda m: ".domains." in m, floor=25,
                                 why="a domain that ignores a shape argument or a flag (disjoint, contained) reports another measure")
    r1_r2_formulas(repo, rep)
    r3_composition(repo, rep)
    r4_override(repo, rep)
    r5_density(repo, rep)
    r7_no_param_cache(repo, rep)
    r5b_estimated_volumes(repo, rep)
    r5c_density_grids(repo, rep)
    r5d_exclusive_contributions(repo, rep)
    r5f_count_from_own_measure(repo, rep)
    r3b_flags_from_the_user(repo, rep)
    r5e_grid_counts_truncate(repo, rep)
    from .c06 import r4c_mesh_outward  # the mesh volume is signed: it is the measure only for outward-facing faces
    r4c_mesh_outward(repo, rep)
    try:
        from .c17 import r1_roundtrip, r2_setters  # flags and user volume must survive partial evaluation
        r1_roundtrip(repo, rep, rule_id="R-C17-1")
        r2_setters(repo, rep, rule_id="R-C17-2")
    except ImportError:
        pass
    from .c13 import r5_copy_on_partial  # "unchanged by partial evaluation": the fixed values live in a deep copy, not in defaults shared with other evaluations
    r5_copy_on_partial(repo, rep)


_CI = "src/torchphysics/problem/domains/domain2D/circle.py"
_SP = "src/torchphysics/problem/domains/domain3D/sphere.py"
_PA = "src/torchphysics/problem/domains/domain2D/parallelogram.py"
_TR = "src/torchphysics/problem/domains/domain2D/triangle.py"
_U = "src/torchphysics/problem/domains/domainoperations/union.py"
_CU = "src/torchphysics/problem/domains/domainoperations/cut.py"
_P = "src/torchphysics/problem/domains/domainoperations/product.py"
_D = "src/torchphysics/problem/domains/domain.py"
_SH = "src/torchphysics/problem/domains/domain2D/shapely_polygon.py"
MUTANTS = [
    dict(id="C10-M1", file=_CI, old="        volume = np.pi * radius**2", new="        volume = 2 * np.pi * radius**2", rule="R-C10-1", what="disc area doubled"),
    dict(id="C10-M2", file=_CI, old="        volume = 2 * np.pi * radius\n", new="        volume = 2 * np.pi * radius**2\n", rule="R-C10-1", what="circumference exponent"),
    dict(id="C10-M3", file=_SP, old="        volume = 4 * np.pi * radius**2", new="        volume = 4 / 3 * np.pi * radius**2", rule="R-C10-1", what="sphere surface factor"),
    dict(id="C10-M4", file=_PA, old="        return 2 * (side_length1 + side_length2).reshape(-1, 1)", new="        return (side_length1 + side_length2).reshape(-1, 1)", rule="R-C10-1", what="half the perimeter"),
    dict(id="C10-M5", file=_TR, old="        side_length = side_1 + side_2 + side_3", new="        side_length = side_1 + side_2", rule="R-C10-1", what="one side missing"),
    dict(id="C10-M6", file=_U, old="            return volume_a + volume_b, volume_a, volume_b\n        return volume_a + volume_b", new="            return volume_a + volume_b, volume_a, volume_b\n        return volume_a * volume_b", rule="R-C10-3", what="union multiplies"),
    dict(id="C10-M7", file=_D, old="        n = torch.ceil(d * volume)", new="        n = torch.floor(d * volume)", rule="R-C10-5", what="floor"),
    dict(id="C10-M8", file=_CU, old="        volume_a = self.domain_a.volume(params, device=device)\n        volume_b = self.domain_b.volume(params, device=device)\n        return volume_a - volume_b",
         new="        volume_a = self.domain_a._get_volume(params, device=device)\n        volume_b = self.domain_b._get_volume(params, device=device)\n        return volume_a - volume_b", rule="R-C10-3", what="bypasses the user volume of the operands"),
    dict(id="C10-M9", file=_D, old="        if self._user_volume is None:\n            return self._get_volume(params, device=device)", new="        if self._user_volume is not None:\n            return self._get_volume(params, device=device)", rule="R-C10-4", what="override inverted"),
    dict(id="C10-M10", file=_SH, old="        volume = self.domain.polygon.boundary.length", new="        volume = self.domain.polygon.exterior.length", rule="R-C10-1", what="holes dropped from the boundary length"),
    dict(id="C10-M11", file=_D, old="        n = torch.ceil(d * volume)\n        return int(n)", new="        volume *= d\n        return int(torch.ceil(volume))", rule="R-C10-5", what="volume tensor scaled in place"),
    dict(id="C10-M12", file=_P, old="            return self.domain_a.volume(params, device=device) * self.domain_b.volume(\n                params, device=device\n            )",
         new="            volume = self.domain_a.volume(params, device=device) * self.domain_b.volume(\n                params, device=device\n            )\n            self.set_volume(volume)\n            return volume", rule="R-C10-7", what="parameter-dependent product volume cached"),
]
TWINS = [
    dict(id="C10-T1", file=_CI, old="        volume = np.pi * radius**2", new="        area = radius * radius\n        volume = area * math.pi", what="reordered product, math.pi"),
    dict(id="C10-T2", file=_SP, old="        volume = 4 * np.pi * radius**2", new="        volume = np.pi * (2 * radius) ** 2", what="(2r)^2"),
    dict(id="C10-T3", file=_U, old="            return volume_a + volume_b, volume_a, volume_b\n        return volume_a + volume_b", new="            return volume_a + volume_b, volume_a, volume_b\n        total = volume_a + volume_b\n        return total", what="temporary"),
]

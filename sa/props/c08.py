"""C08 — models are row-wise functions of *named* variables.

Decided: every point-wise model routes its input through the name-based
re-ordering before any use (must-pass-through on every path); `Parallel` selects
by name; `Sequential` composes in order.  Not decided: row independence of
arbitrary tensor code, user sub-networks.
"""
from __future__ import annotations

import ast
from typing import Dict, List, Optional

from ..flow import RAISE, attr_chain, dump, kwarg, paths
from ..repo import AnalysisError, ClassInfo, Repo
from ..util import ends, norm_compare, parent_map, resolve_ctor, self_attr_assignments

EXPLANATION = (
    "Taint-style must-pass-through analysis of every Model.forward: the raw input parameter may reach a sink (sub-module "
    "call, tensor op, Points construction, .as_tensor) only through self._fix_points_order(.), a name-based column selection "
    "p[..., list(M.input_space.keys())], or delegation to an attribute that is itself a torchphysics Model; the sanitiser and "
    "the Parallel/Sequential compositions are checked structurally on expanded path expressions."
)
ASSUMPTIONS = [
    "Points.__getitem__ with a list of variable names selects those columns in the requested order (C12)",
    "branch networks are out of scope: their input is a discretised function, not a point set",
    "sub-models handed to Sequential/Parallel/DeepONet are torchphysics Models (documented contract, asserted for DeepONet)",
]

BENIGN_ATTRS = {"space", "device", "requires_grad", "shape", "dtype"}


def _model_attrs(repo: Repo, ci: ClassInfo, model: ClassInfo) -> Dict[str, str]:
    """attribute -> 'model' | 'modellist' | 'plain' from assignments in the class chain"""
    out = {}
    for attr, assigns in self_attr_assignments(repo, ci).items():
        kinds = set()
        for fi, v in assigns:
            got = resolve_ctor(repo, fi, v)
            if isinstance(got, ClassInfo):
                kinds.add("model" if repo.is_subclass(got, model) else "plain")
            elif isinstance(got, str):
                if got.endswith("ModuleList"):
                    kinds.add("modellist")
                else:
                    kinds.add("plain")
            elif isinstance(v, ast.Name) and v.id in fi.params:
                kinds.add("param:" + v.id)
            else:
                kinds.add("other")
        out[attr] = ",".join(sorted(kinds))
    return out


# attributes that hold torchphysics Models by documented contract; the reason is checked where possible
DECLARED_MODEL_ATTRS = {
    ("DeepONet", "trunk"): "asserted isinstance(trunk_net, TrunkNet) (after unwrapping Sequential) in _check_trunk_and_branch_correct",
}


def _is_name_selection(sub: ast.Subscript) -> Optional[str]:
    """p[..., list(X.input_space.keys())] / p[..., list(X.input_space)] -> 'X'"""
    sl = sub.slice
    elts = sl.elts if isinstance(sl, ast.Tuple) else [sl]
    if not elts:
        return None
    last = elts[-1]
    for e in elts[:-1]:
        if not (isinstance(e, ast.Constant) and e.value is Ellipsis) and not (isinstance(e, ast.Slice) and e.lower is None and e.upper is None and e.step is None):
            return None
    if isinstance(last, ast.Call) and attr_chain(last.func) == "list" and len(last.args) == 1:
        a = last.args[0]
        if isinstance(a, ast.Call) and isinstance(a.func, ast.Attribute) and a.func.attr == "keys" and not a.args:
            a = a.func.value
        if isinstance(a, ast.Attribute) and a.attr == "input_space":
            return dump(a.value)
    return None


def r1_sanitiser(repo: Repo, rep):
    R = rep.rule("R-C08-1", "forward: the raw input reaches no sink except through _fix_points_order / name-based selection / "
                 "delegation to a torchphysics Model attribute", floor=10,
                 why="a raw Points handed to a tensor layer is consumed in the caller's column order: same data, different variable "
                     "order gives a different output, and a wrong variable set is accepted")
    model = repo.cls("models.model.Model")
    branch = repo.cls("models.deeponet.branchnets.BranchNet")
    for ci in repo.subclasses(model, strict=True):
        if repo.is_subclass(ci, branch):
            continue
        fi = ci.methods.get("forward")
        if fi is None:
            continue
        rep.saw(fi)
        if len(fi.params) < 2:
            rep.undecided(R, fi.site(), fi.fq, "forward has an input parameter", "none")
            continue
        pname = fi.params[1]
        attrs = _model_attrs(repo, ci, model)
        bad: List[str] = []
        sanitised = 0
        for p in paths(fi.node):
            if p.ret is RAISE:
                continue
            exprs = [e.value for e in p.events if e.value is not None] + [e.target for e in p.events if e.target is not None]
            for ex in exprs:
                pm = parent_map(ex)
                for n in ast.walk(ex):
                    if not (isinstance(n, ast.Name) and n.id == pname):
                        continue
                    par = pm.get(id(n))
                    verdict = _classify(repo, ci, n, par, pm, attrs)
                    if verdict == "san":
                        sanitised += 1
                    elif verdict == "ok":
                        pass
                    else:
                        ctx = dump(par) if par is not None else dump(n)
                        if ctx not in bad:
                            bad.append(ctx)
        if bad:
            rep.violation(R, fi.site(), fi.fq, f"raw `{pname}` only reaches sinks through the name-based re-ordering",
                          f"raw use(s): {bad[:3]}", bad[0])
        elif sanitised == 0:
            rep.violation(R, fi.site(), fi.fq, f"`{pname}` passes through the name-based re-ordering", "input never sanitised nor delegated", "unsanitised")
        else:
            rep.ok(R, fi.site(), fi.fq, f"raw `{pname}` only reaches sinks through the name-based re-ordering", f"{sanitised} sanitised use(s)")


def _classify(repo, ci, n, par, pm, attrs) -> str:
    if par is None:
        return "bad"
    if isinstance(par, ast.Call):
        ch = attr_chain(par.func)
        if n in par.args or any(k.value is n for k in par.keywords):
            if ch == "self._fix_points_order":
                return "san"
            if ch in ("len", "isinstance", "type"):
                return "ok"
            if ch and ch.startswith("self.") and ch.count(".") == 1:
                attr = ch.split(".")[1]
                kind = attrs.get(attr, "")
                if kind == "model":
                    return "san"
                if (ci.name, attr) in DECLARED_MODEL_ATTRS:
                    return "san"
            return "bad"
        return "bad"
    if isinstance(par, ast.Subscript) and par.value is n:
        if _is_name_selection(par) is not None:
            return "san"
        return "bad"
    if isinstance(par, ast.Attribute) and par.value is n:
        if par.attr in BENIGN_ATTRS:
            return "ok"
        return "bad"
    if isinstance(par, ast.Compare):
        return "ok" if all(isinstance(o, (ast.Is, ast.IsNot)) for o in par.ops) else "bad"
    return "bad"


POINTWISE = ("FCN", "Harmonic_FCN", "Polynomial_FCN", "QRES", "DeepRitzNet", "NormalizationLayer", "Sequential", "Parallel", "FNO", "DeepONet", "FCTrunkNet")
MIXING = ("transpose", "permute", "reshape", "view", "flatten", "movedim", "swapaxes", "swapdims", "T", "mT", "roll", "flip", "unflatten", "ravel")
ROWWISE_SCOPE = ("FCN", "Harmonic_FCN", "Polynomial_FCN", "QRES", "DeepRitzNet", "NormalizationLayer")


def _depends_on(expr, pname) -> bool:
    return any(isinstance(n, ast.Name) and n.id == pname for n in ast.walk(expr))


def r4_purity_and_label(repo: Repo, rep):
    R4 = rep.rule("R-C08-4", "forward/_fix_points_order of a point-wise model stores nothing derived from its input on self",
                  floor=10, why="state derived from one call's input and reused by a later call makes the output depend on the call history, "
                  "not only on the named values")
    R5 = rep.rule("R-C08-5", "the Points a forward returns are labelled with self.output_space", floor=7,
                  why="labelling the output with the caller's space binds output columns to the wrong names")
    R6 = rep.rule("R-C08-6", "row-wise models use no batch-axis re-arranging tensor operation", floor=6,
                  why="reshape/transpose/permute can mix rows; outside the decidable idiom table they are reported UNDECIDED, never as violation")
    R7 = rep.rule("R-C08-7", "row-wise models remove size-1 axes of input-derived tensors only by naming the axis (no dimensionless squeeze)", floor=6,
                  why="squeeze() without an axis also removes the feature axis of a width-1 layer (or the batch axis of a single row); the next "
                      "broadcast then pairs every row with every other row")
    model = repo.cls("models.model.Model")
    branch = repo.cls("models.deeponet.branchnets.BranchNet")
    funcs = []
    fpo = model.methods.get("_fix_points_order")
    if fpo is not None:
        funcs.append((model, fpo))
    for ci in repo.subclasses(model, strict=True):
        if repo.is_subclass(ci, branch):
            continue
        fi = ci.methods.get("forward")
        if fi is not None:
            funcs.append((ci, fi))
    for ci, fi in funcs:
        rep.saw(fi)
        pname = fi.params[1] if len(fi.params) > 1 else None
        stores = []
        for p in paths(fi.node):
            for e in p.events:
                if e.kind in ("attr", "aug", "store") and e.target is not None and dump(e.target).startswith("self."):
                    if pname and e.value is not None and _depends_on(e.value, pname):
                        stores.append(f"{dump(e.target)} = {dump(e.value)[:80]}")
        stores = sorted(set(stores))
        rep.check(R4, not stores, fi.site(), fi.fq, "no attribute of self receives a value computed from the input", f"stores {stores[:2]}", str(stores[:2]))
        if fi.name != "forward":
            continue
        for p in paths(fi.node):
            if p.ret is RAISE or p.ret is None:
                continue
            r = p.ret
            if isinstance(r, ast.Call) and ends(attr_chain(r.func), "Points") and attr_chain(r.func) in ("Points",):
                sp = r.args[1] if len(r.args) > 1 else next((k.value for k in r.keywords if k.arg == "space"), None)
                rep.check(R5, sp is not None and dump(sp) == "self.output_space", fi.site(p.ret_node), fi.fq,
                          "returned Points(..., self.output_space)", f"space argument `{dump(sp)}`", dump(sp))
        if ci.name in ROWWISE_SCOPE:
            _sized_squeeze(rep, R7, fi, pname)
            mix = sorted({n.attr for n in ast.walk(fi.node) if isinstance(n, ast.Attribute) and n.attr in MIXING})
            if mix:
                _axes_decide(rep, R6, ci, fi, mix)
            else:
                rep.ok(R6, fi.site(), fi.fq, "only row-preserving tensor operations", "no reshape/transpose/permute/view/flatten/roll/flip")


def _sized_squeeze(rep, R7, fi, pname):
    """squeeze calls without an axis on values computed from the input (flow-insensitive taint over the local names)"""
    tainted = {pname}
    changed = True
    while changed:
        changed = False
        for n in ast.walk(fi.node):
            tgt = val = None
            if isinstance(n, ast.Assign):
                tgt, val = n.targets, n.value
            elif isinstance(n, ast.AugAssign):
                tgt, val = [n.target], n.value
            elif isinstance(n, (ast.For, ast.comprehension)):
                tgt, val = [n.target], n.iter
            if val is None or not any(isinstance(x, ast.Name) and x.id in tainted for x in ast.walk(val)):
                continue
            for t in tgt:
                for x in ast.walk(t):
                    if isinstance(x, ast.Name) and x.id not in tainted:
                        tainted.add(x.id)
                        changed = True
    bad, named = [], 0
    for n in ast.walk(fi.node):
        if not (isinstance(n, ast.Call) and isinstance(n.func, ast.Attribute) and n.func.attr == "squeeze"):
            continue
        is_mod = attr_chain(n.func.value) == "torch"
        subject = (n.args[0] if n.args else None) if is_mod else n.func.value
        axis = kwarg(n, "dim", 1 if is_mod else 0)
        if subject is None or not any(isinstance(x, ast.Name) and x.id in tainted for x in ast.walk(subject)):
            continue
        if axis is None:
            bad.append(n)
        else:
            named += 1
    for n in bad:
        rep.violation(R7, fi.site(n), fi.fq, "squeeze names the axis it removes", f"`{dump(n)[:80]}` removes every axis of length 1 of an input-derived tensor", f"dimensionless squeeze of {dump(n.func.value)[:40]}")
    if not bad:
        rep.ok(R7, fi.site(), fi.fq, "no dimensionless squeeze of input-derived tensors", f"{named} squeeze call(s), all with an axis")


AXIS_POS = {"unsqueeze": 0, "squeeze": 0, "flatten": 0, "chunk": 1, "split": 1, "narrow": 0, "sum": 0, "mean": 0, "prod": 0, "softmax": 0, "log_softmax": 0, "cumsum": 0,
            "select": 0, "index_select": 0, "gather": 0, "unbind": 0, "amax": 0, "amin": 0, "norm": 1, "roll": 1, "flip": 0, "movedim": 0, "repeat_interleave": 1}


RANK_BOUND = {"mm": "2-D operands", "addmm": "2-D operands", "mv": "a matrix and a vector", "addmv": "a matrix and a vector", "bmm": "3-D operands", "baddbmm": "3-D operands", "addbmm": "3-D operands"}


def r11_value_free_control(repo: Repo, rep):
    R = rep.rule("R-C08-11", "the control flow of a model's forward depends on shapes, spaces and configuration only - never on tensor VALUES (any / all / item / max .. of input-derived data)", floor=8,
                 why="a block skipped when `not x.any()` holds for the WHOLE batch makes the output of a row depend on the other rows it is evaluated with (and drops the bias path of the skipped block)")
    from .c03 import control_tests, value_tests_in
    for mname, m in sorted(repo.modules.items()):
        if not mname.startswith("torchphysics.models.") or ".deeponet" in mname:
            continue
        for ci in m.classes.values():
            fi = ci.methods.get("forward")
            if fi is None:
                continue
            rep.saw(fi)
            bad = value_tests_in(control_tests(fi.node))
            rep.check(R, not bad, fi.site(), fi.fq, "conditions of forward read no tensor values", f"value-dependent tests: {sorted(set(bad))[:3]}", f"value tests {sorted(set(bad))[:3]}")


def r12_rows_in_the_given_order(repo: Repo, rep):
    R = rep.rule("R-C08-12", "no method of a model selects rows of a tensor with a stride or a permutation (x[k::m], x[::-1], x[randperm(..)]) along the FIRST axis: output row i is the image of input row i", floor=8,
                 why="blocks cut with points[k::n_blocks] and glued with cat come back in another order: row i of the output belongs to another input row (only for batches larger than the block size)")
    for mname, m in sorted(repo.modules.items()):
        if not mname.startswith("torchphysics.models.") or ".deeponet" in mname:
            continue
        for ci in m.classes.values():
            for fi in ci.methods.values():
                if fi.name.startswith("__") and fi.name != "__call__":
                    continue
                rep.saw(fi)
                bad = []
                for n in ast.walk(fi.node):
                    if not isinstance(n, ast.Subscript) or isinstance(n.ctx, ast.Store):
                        continue
                    first = n.slice.elts[0] if isinstance(n.slice, ast.Tuple) and n.slice.elts else n.slice
                    if isinstance(first, ast.Slice) and first.step is not None and not (isinstance(first.step, ast.Constant) and first.step.value == 1):
                        bad.append(dump(n)[:50])
                    if isinstance(first, ast.Call) and (attr_chain(first.func) or "").split(".")[-1] in ("randperm", "argsort"):
                        bad.append(dump(n)[:50])
                rep.check(R, not bad, fi.site(), fi.fq, "rows are addressed contiguously and in order", str(bad[:2]), str(bad[:2]))


def r8_feature_axis_from_the_end(repo: Repo, rep):
    R = rep.rule("R-C08-8", "models that accept several batch axes (and their building-block layers) address tensor axes of input-derived values from the end only "
                 "(dim=-1 for the features), never by a non-negative position", floor=8,
                 why="axis 1 is the feature axis only for a single batch axis: with two batch axes a split / reduction along it cuts through the rows")
    mods = [m for name, m in repo.modules.items() if name.startswith("torchphysics.models.") and name.split(".")[-1] in ("qres", "deepritz", "activation_fn", "model", "fcn")]
    for m in mods:
        for ci in m.classes.values():
            if ci.name in ("Polynomial_FCN",):
                continue  # documented for one batch axis: its contraction runs over an axis it creates itself
            fi = ci.methods.get("forward")
            if fi is None or len(fi.params) < 2:
                continue
            rep.saw(fi)
            tainted = set(fi.params[1:])
            changed = True
            while changed:
                changed = False
                for n in ast.walk(fi.node):
                    tg = n.targets if isinstance(n, ast.Assign) else [n.target] if isinstance(n, (ast.AugAssign, ast.For)) else None
                    val = n.value if isinstance(n, (ast.Assign, ast.AugAssign)) else n.iter if isinstance(n, ast.For) else None
                    if tg is None or not any(isinstance(x, ast.Name) and x.id in tainted for x in ast.walk(val)):
                        continue
                    for t in tg:
                        for x in ast.walk(t):
                            if isinstance(x, ast.Name) and x.id not in tainted:
                                tainted.add(x.id)
                                changed = True
            bad = []
            for c in ast.walk(fi.node):
                if not (isinstance(c, ast.Call) and isinstance(c.func, ast.Attribute)):
                    continue
                name = c.func.attr
                is_mod = (attr_chain(c.func.value) or "") in ("torch", "torch.nn.functional", "torch.linalg")
                subject = (c.args[0] if c.args else None) if is_mod else c.func.value
                if name in RANK_BOUND and any(isinstance(x, ast.Name) and x.id in tainted for a in list(c.args) + [c.func.value] for x in ast.walk(a)):
                    # products defined for matrices / batched matrices only: nn.Linear, F.linear and matmul take any number of leading axes
                    bad.append(f"{dump(c)[:60]} ({name} accepts {RANK_BOUND[name]} only)")
                    continue
                if subject is None or not any(isinstance(x, ast.Name) and x.id in tainted for x in ast.walk(subject)):
                    continue
                axes = [k.value for k in c.keywords if k.arg in ("dim", "axis", "dims", "start_dim", "end_dim")]
                if name in AXIS_POS:
                    pos = AXIS_POS[name] + (1 if is_mod else 0)
                    if len(c.args) > pos:
                        axes.append(c.args[pos])
                if name in ("transpose", "permute", "swapaxes"):
                    axes += list(c.args[1:] if is_mod else c.args)
                if name in ("cat", "stack", "concat") and is_mod and len(c.args) > 1:
                    axes.append(c.args[1])
                for a in axes:
                    for x in ([a] if not isinstance(a, (ast.Tuple, ast.List)) else a.elts):
                        if isinstance(x, ast.Constant) and isinstance(x.value, int) and not isinstance(x.value, bool) and x.value >= 0:
                            bad.append(f"{dump(c)[:60]} (axis {x.value})")
            rep.check(R, not bad, fi.site(), fi.fq, "axes of input-derived tensors are addressed from the end", str(sorted(set(bad))[:2]), str(sorted(set(bad))[:2]))


def _axes_decide(rep, R6, ci, fi, mix):
    """re-arranging operations in a row-wise model: decide by axis roles for inputs with one and with two batch axes"""
    from ..absdom.axes import AxesEval, NotAxes, Scrambled
    pname = fi.params[1]
    for rank_axes in ([("B1",), ("C",)], [("B1",), ("B2",), ("C",)]):
        batch = rank_axes[:-1]

        def atom(n, rank_axes=rank_axes):
            t = dump(n)
            if t in (f"self._fix_points_order({pname})", f"self._fix_points_order({pname}).as_tensor", f"self._fix_points_order({pname})._t"):
                return rank_axes
            if isinstance(n, ast.Call) and isinstance(n.func, ast.Attribute) and dump(n.func.value) == "self" and n.args and n.func.attr not in ("_fix_points_order",):
                inner = ev.ev(n.args[0])  # sub-module acting on the last axis
                return inner[:-1] + [("O",)]
            if isinstance(n, ast.Call) and attr_chain(n.func) in ("torch.arange", "torch.linspace"):
                return [("F",)]
            if isinstance(n, ast.BinOp) and isinstance(n.op, ast.Mult) and isinstance(n.left, (ast.Constant, ast.Attribute)) and not isinstance(n.left, ast.Call):
                try:
                    return ev.ev(n.right)
                except NotAxes:
                    return None
            return None

        def size_role(n, e):
            t = dump(n)
            if t in ("self.input_space.dim", f"{pname}.space.dim", "len(self.input_space)"):
                return "C"  # the feature axis of the sanitised input
            if t in ("self.output_space.dim",):
                return "O"
            return None
        ev = AxesEval(atom, size_role)
        for p in paths(fi.node):
            if p.ret is RAISE or p.ret is None:
                continue
            r = p.ret
            val = r.args[0] if isinstance(r, ast.Call) and attr_chain(r.func) == "Points" and r.args else r
            try:
                axes = ev.ev(val)
                ok = axes[: len(batch)] == batch and len(axes) == len(batch) + 1
                rep.check(R6, ok, fi.site(p.ret_node), fi.fq, f"output keeps the batch axes {batch} in place (input rank {len(rank_axes)})", f"output axes {axes}", f"rank {len(rank_axes)}: {axes}")
            except Scrambled as err:
                rep.violation(R6, fi.site(p.ret_node), fi.fq, f"rows stay separate for inputs with {len(batch)} batch axis/axes", str(err)[:300], f"rank {len(rank_axes)}: scrambled")
            except NotAxes as err:
                rep.undecided(R6, fi.site(p.ret_node), fi.fq, "only row-preserving tensor operations", f"uses {mix}: {err}")
            break


def r2_fix_points_order(repo: Repo, rep):
    R = rep.rule("R-C08-2", "_fix_points_order returns the input only when its space equals input_space, else the columns "
                 "selected by list(self.input_space.keys()); a differing key set raises", floor=2,
                 why="this is the single sanitiser every model relies on")
    model = repo.cls("models.model.Model")
    fi = model.methods.get("_fix_points_order")
    if fi is None:
        raise AnalysisError("Model._fix_points_order vanished")
    rep.saw(fi)
    pname = fi.params[1]
    raises = 0
    for p in paths(fi.node):
        guards = [norm_compare(g, pol) for g, pol, kind in p.guards]
        if p.ret is RAISE:
            keyne = any(op == "==" and "keys()" in l and "keys()" in r and not pol for op, l, r, pol in guards)
            if keyne:
                raises += 1
            continue
        ret = p.ret
        if ret is None:
            rep.violation(R, fi.site(), fi.fq, "returns points", "returns None", "None")
            continue
        if any(op == "==" and "keys()" in l and "keys()" in r and not pol for op, l, r, pol in guards):
            rep.violation(R, fi.site(p.ret_node), fi.fq, "points whose variable names differ from the model's are rejected on every path", f"returns {dump(ret)[:80]} although the key sets differ",
                          "return under differing key sets")
            continue
        if isinstance(ret, ast.Name) and ret.id == pname:
            sides = sorted([f"{pname}.space", "self.input_space"])
            eq = any(op == "==" and [l, r] == sides and pol for op, l, r, pol in guards)
            rep.check(R, eq, fi.site(p.ret_node), fi.fq, "raw points returned only under points.space == self.input_space",
                      f"guards: {[(g[0], g[1], g[2], g[3]) for g in guards]}", "raw return")
        elif isinstance(ret, ast.Subscript) and isinstance(ret.value, ast.Name) and ret.value.id == pname:
            rep.check(R, _is_name_selection(ret) == "self", fi.site(p.ret_node), fi.fq,
                      "selection by list(self.input_space.keys())", dump(ret), dump(ret))
        else:
            _fix_order_table(rep, R, fi, p)
    rep.check(R, raises >= 1, fi.site(), fi.fq, "a differing key set raises", f"{raises} raising path(s) guarded by a key-set comparison", "no raise")


class _PointsV:
    """a Points value of the table model: column blocks (by variable name) and the labelling space"""

    def __init__(self, cols, space):
        self.cols, self.space = list(cols), space


def _fix_order_table(rep, R, fi, p):
    """Partial evaluation of the sanitiser on a table model: points whose three variables (of different widths) come in each of the
    six orders must leave as the columns of (a, b, c) — block k of the result is the variable k of input_space — labelled with input_space."""
    import itertools
    from collections import OrderedDict
    from ..absdom.listeval import Evaluator, Model, NotEval, Vec1, UNKNOWN
    from ..absdom.poly import RF
    pname = fi.params[1]
    dims = {"a": 1, "b": 2, "c": 3}
    target = OrderedDict((k, dims[k]) for k in ("a", "b", "c"))
    bad, undecided = [], None

    class TensorV(Model, Vec1):
        """the raw tensor of the points: column blocks on the LAST of `rank` axes (rank 2: rows x columns; rank 3: functions x rows x columns, the DeepONet / operator batches)"""

        def __init__(self, blocks, rank, order):
            Vec1.__init__(self, (RF.atom(c) for c in blocks))
            self.blocks, self.rank, self.order = list(blocks), rank, list(order)

        def le_getattr(self, name):
            if name in ("ndim",):
                return self.rank
            raise NotEval(f"attribute {name} of the raw tensor")

        def le_subscript(self, idx):
            idx = idx if isinstance(idx, tuple) else (idx,)
            axes, k = [], 0
            for j, x in enumerate(idx):
                if x is Ellipsis:
                    k = self.rank - (len(idx) - j - 1)
                    continue
                axes.append((k, x))
                k += 1
            out = self
            for ax, x in axes:
                if isinstance(x, slice) and (x.start, x.stop, x.step) == (None, None, None):
                    continue
                if isinstance(x, list) and all(isinstance(c, int) and not isinstance(c, bool) for c in x):
                    if ax != self.rank - 1:
                        return TensorV([f"axis {ax} of a rank-{self.rank} batch addressed with column numbers"], self.rank, self.order)
                    # column numbers of the stored layout -> whole blocks
                    layout, at = [], 0
                    for b in self.order:
                        layout += [(b, i) for i in range(dims[b])]
                    cols = [layout[c] for c in x if 0 <= c < len(layout)]
                    blocks, i = [], 0
                    while i < len(cols):
                        b = cols[i][0]
                        w = dims[b]
                        if cols[i:i + w] == [(b, j) for j in range(w)]:
                            blocks.append(b)
                            i += w
                        else:
                            blocks.append(f"columns {cols[i:i + w]}")
                            i += w
                    out = TensorV(blocks, self.rank, blocks)
                    continue
                raise NotEval("raw tensor index")
            return out
    for perm, rank in [(p, r) for p in itertools.permutations("abc") for r in (2, 3)]:
        if list(perm) == ["a", "b", "c"]:
            continue

        def resolve(e, ev, f):
            t = dump(e)
            if t == "self.input_space":
                return OrderedDict(target)
            if isinstance(e, ast.Attribute):
                try:
                    base = ev.ev(e.value, f)
                except NotEval:
                    return None
                if isinstance(base, _PointsV):
                    if e.attr == "space":
                        return base.space
                    if e.attr in ("as_tensor", "_t"):
                        return TensorV(base.cols, rank, base.cols)
                    if e.attr == "_variable_slices":
                        out, at = {}, 0
                        for c in base.cols:
                            out[c] = slice(at, at + dims[c], None)
                            at += dims[c]
                        return out
            if isinstance(e, ast.Subscript):
                try:
                    base = ev.ev(e.value, f)
                except NotEval:
                    return None
                if isinstance(base, _PointsV):
                    sl = e.slice.elts[-1] if isinstance(e.slice, ast.Tuple) else e.slice
                    names = ev.ev(sl, f)
                    if isinstance(names, (list, tuple)) and all(isinstance(n, str) and n in base.space for n in names):
                        return _PointsV(list(names), OrderedDict((n, base.space[n]) for n in names))
            return None

        def on_call(e, name, args, kws, ev, f):
            if name in ("Points", "Points.from_tensor") and args and len(args) == 2 and isinstance(args[0], TensorV) and isinstance(args[1], dict):
                return _PointsV(list(args[0].blocks), args[1])
            if name in ("Points", "Points.from_tensor") and args and len(args) == 2 and isinstance(args[0], list) and isinstance(args[1], dict):
                return _PointsV([repr(c) for c in args[0]], args[1])
            if name == "torch.split" and args and isinstance(args[0], Vec1) and len(args) >= 2 and isinstance(args[1], (list, tuple)):
                cols = [repr(c) for c in args[0]]
                if len(cols) == len(args[1]) and all(dims.get(c) == w for c, w in zip(cols, args[1])):
                    return [Vec1([RF.atom(c)]) for c in cols]
                raise NotEval("split sizes are not the block widths")
            return None
        src = _PointsV(list(perm), OrderedDict((k, dims[k]) for k in perm))
        fr = Evaluator(resolve, on_call).run(fi.node.body, {pname: src})
        got = fr.ret
        if not isinstance(got, _PointsV):
            undecided = f"order {perm}, rank {rank}: result {got!r}"[:100]
            break
        if got.cols != ["a", "b", "c"] or list(got.space.keys()) != ["a", "b", "c"]:
            bad.append(f"rank-{rank} points given as {''.join(perm)} leave with the columns of {' '.join(got.cols)} labelled {''.join(got.space.keys())}")
    if undecided:
        rep.undecided(R, fi.site(p.ret_node), fi.fq, "return is the input or a name-based selection of it", undecided)
    else:
        rep.check(R, not bad, fi.site(p.ret_node), fi.fq, "for every order of three variables the result holds the columns of input_space's variables in input_space's order",
                  "; ".join(bad[:2]), "; ".join(bad[:2]))


def r3_compositions(repo: Repo, rep):
    R = rep.rule("R-C08-3", "Parallel feeds each sub-model the columns named by its own input_space and joins outputs in model order; "
                 "Sequential folds the models in order; their spaces are built in the same order", floor=6,
                 why="Parallel==join of parts on their own variables, Sequential==composition")
    par = repo.cls("models.model.Parallel")
    fi = par.methods.get("forward")
    if fi is None:
        raise AnalysisError("Parallel.forward vanished")
    rep.saw(fi)
    pname = fi.params[1]
    for p in paths(fi.node):
        if p.ret is RAISE:
            continue
        ret = p.ret
        good = False
        detail = dump(ret)
        if isinstance(ret, ast.Call) and ends(attr_chain(ret.func), "Points.joined") and len(ret.args) == 1 and isinstance(ret.args[0], ast.Starred):
            lst = ret.args[0].value
            if isinstance(lst, ast.List) and len(lst.elts) == 1:
                c = lst.elts[0]
                if isinstance(c, ast.Call) and isinstance(c.func, ast.Name) and c.func.id in p.loopvars and len(c.args) == 1:
                    lv = c.func.id
                    it = dump(p.loopvars[lv])
                    arg = c.args[0]
                    sel = _is_name_selection(arg) if isinstance(arg, ast.Subscript) else None
                    base_ok = isinstance(arg, ast.Subscript) and isinstance(arg.value, ast.Name) and arg.value.id == pname
                    good = it == "self.models" and sel == lv and base_ok
                    detail = f"joined(*[{dump(c)} for {lv} in {it}])"
            elif isinstance(lst, ast.ListComp) and len(lst.generators) == 1:
                g = lst.generators[0]
                c = lst.elt
                if isinstance(g.target, ast.Name) and isinstance(c, ast.Call) and isinstance(c.func, ast.Name) and c.func.id == g.target.id and len(c.args) == 1:
                    arg = c.args[0]
                    sel = _is_name_selection(arg) if isinstance(arg, ast.Subscript) else None
                    base_ok = isinstance(arg, ast.Subscript) and isinstance(arg.value, ast.Name) and arg.value.id == pname
                    good = dump(g.iter) == "self.models" and sel == g.target.id and base_ok and not g.ifs
        rep.check(R, good, fi.site(p.ret_node), fi.fq,
                  "returns Points.joined(*[m(points[..., list(m.input_space.keys())]) for m in self.models])", detail, detail)
    init = par.methods.get("__init__")
    if init is not None:
        rep.saw(init)
        for p in paths(init.node):
            if p.ret is RAISE:
                continue
            v = p.env.get("self.models")
            good = isinstance(v, ast.Call) and ends(attr_chain(v.func), "ModuleList") and len(v.args) == 1 and dump(v.args[0]) in ("models", "list(models)")
            rep.check(R, good, init.site(), init.fq, "self.models = nn.ModuleList(models) (same order as the space product)", dump(v), dump(v))
            # output space product in model order: output_space = output_space * model.output_space
            sup = [c for e in p.events if e.value is not None for c in ast.walk(e.value) if isinstance(c, ast.Call) and dump(c.func) == "super().__init__"]
            if sup and kwarg(sup[0], "output_space", 1) is not None:
                o = kwarg(sup[0], "output_space", 1)
                lv = [k for k, it in p.loopvars.items() if dump(it) == "models"]
                good = bool(lv) and isinstance(o, ast.BinOp) and isinstance(o.op, ast.Mult) and dump(o.right) == f"{lv[0]}.output_space"
                rep.check(R, good, init.site(), init.fq, "output_space accumulated as output_space * model.output_space in model order", dump(o), dump(o))
            else:
                rep.undecided(R, init.site(), init.fq, "super().__init__(input_space, output_space)", "call not found")
    seq = repo.cls("models.model.Sequential")
    fi = seq.methods.get("forward")
    if fi is None:
        raise AnalysisError("Sequential.forward vanished")
    rep.saw(fi)
    pname = fi.params[1]
    # partial evaluation on three recording sub-models: the result is m2(m1(m0(<sanitised input>)))
    from ..absdom.listeval import Evaluator, Model, NotEval, Obj, Opaque, UNKNOWN

    class Rec(Model):
        """a recorded value: the term that produced it; raw tensors and spaces taken from it are terms too (a re-labelled intermediate result is visible)"""

        def __init__(self, term):
            self.term = term

        def le_getattr(self, name):
            if name in ("as_tensor", "_t", "space"):
                return Rec((name, self.term))
            raise NotEval(name)

    def term(v):
        return v.term if isinstance(v, Rec) else v

    def on_call(e, name, args, kws, ev, f):
        tgt = None
        if isinstance(e.func, ast.Name) and isinstance(f.env.get(e.func.id), Obj):
            tgt = f.env[e.func.id]
        elif not isinstance(e.func, ast.Name):
            try:
                v = ev.ev(e.func, f)
            except NotEval:
                v = None
            if isinstance(v, Obj):
                tgt = v
        if tgt is not None and args is not None and len(args) == 1 and not kws:
            return Rec((tgt.tag, term(args[0])))
        if name == "self._fix_points_order" and args is not None and len(args) == 1:
            return Rec(("fix", term(args[0])))
        if name in ("Points", "Points.from_tensor") and args is not None and len(args) == 2:
            return Rec(("relabelled", term(args[0]), term(args[1])))
        return None
    models = [Obj(f"m{i}", {"input_space": f"in{i}", "output_space": f"out{i}"}) for i in range(3)]
    fr = Evaluator(None, on_call).run(fi.node.body, {"self": Opaque("self"), pname: Rec("P")}, attrs={"self.models": list(models)})
    want_a, want_b = ("m2", ("m1", ("m0", ("fix", "P")))), ("m2", ("m1", ("m0", "P")))
    if fr.ret is UNKNOWN or not fr.returned or not isinstance(fr.ret, Rec):
        rep.undecided(R, fi.site(), fi.fq, "Sequential.forward evaluable on three recording sub-models", repr(fr.ret)[:80])
    else:
        rep.check(R, fr.ret.term in (want_a, want_b), fi.site(), fi.fq, "fold: points = model(points) for model in self.models (in order), every model receiving what its predecessor returned",
                  repr(fr.ret.term)[:160], repr(fr.ret.term)[:160])
    init = seq.methods.get("__init__")
    if init is not None:
        rep.saw(init)
        for p in paths(init.node):
            if p.ret is RAISE:
                continue
            sup = [c for e in p.events if e.value is not None for c in ast.walk(e.value) if isinstance(c, ast.Call) and dump(c.func) == "super().__init__"]
            good = bool(sup) and len(sup[0].args) >= 2 and dump(sup[0].args[0]) == "models[0].input_space" and dump(sup[0].args[1]) == "models[-1].output_space"
            rep.check(R, good, init.site(), init.fq, "Sequential spaces: input of the first model, output of the last",
                      dump(sup[0]) if sup else "no super().__init__", dump(sup[0]) if sup else "")
            v = p.env.get("self.models")
            good = isinstance(v, ast.Call) and ends(attr_chain(v.func), "ModuleList") and len(v.args) == 1 and dump(v.args[0]) in ("models", "list(models)")
            rep.check(R, good, init.site(), init.fq, "self.models = nn.ModuleList(models)", dump(v), dump(v))
        # composition is defined for every chain in which the next model finds its variables by name: a gate that compares whole spaces
        # with == / != (order-sensitive) rejects chains whose variable order merely differs
        for fn in (init, fi):
            gates = []
            for n in ast.walk(fn.node):
                tests = [n.test] if isinstance(n, (ast.Assert, ast.If)) else []
                for t in tests:
                    for c in ast.walk(t):
                        if isinstance(c, ast.Compare) and len(c.ops) == 1 and isinstance(c.ops[0], (ast.Eq, ast.NotEq)):
                            sides = [c.left, c.comparators[0]]
                            if all(isinstance(x, ast.Attribute) and x.attr in ("input_space", "output_space", "space") for x in sides):
                                gates.append(dump(c)[:80])
            rep.check(R, not gates, fn.site(), fn.fq, "no order-sensitive space equality gates the chain (variables are matched by name)", str(gates[:2]), f"order-sensitive gate {gates[:1]}")


VIEW_OPS = ("as_tensor", "_t", "T", "mT", "real")
VIEW_CALLS = ("unsqueeze", "squeeze", "view", "reshape", "transpose", "permute", "expand", "expand_as", "narrow", "flatten", "contiguous", "view_as", "detach", "to", "float", "double", "select", "t", "movedim", "swapaxes", "unflatten", "chunk", "split")


def _may_alias_input(fi, pname):
    """local names that may share storage with the caller's tensor: the parameter, Points / tensor views of it, the sanitiser's result (flow-insensitive)"""
    alias = {pname}

    def is_alias(v):
        while True:
            if isinstance(v, ast.Name):
                return v.id in alias
            if isinstance(v, ast.Attribute) and v.attr in VIEW_OPS:
                v = v.value
            elif isinstance(v, ast.Subscript):
                v = v.value
            elif isinstance(v, ast.Call) and isinstance(v.func, ast.Attribute) and v.func.attr in VIEW_CALLS:
                v = v.func.value
            elif isinstance(v, ast.Call) and dump(v.func) == "self._fix_points_order" and v.args:
                v = v.args[0]
            else:
                return False
    changed = True
    while changed:
        changed = False
        for n in ast.walk(fi.node):
            if isinstance(n, ast.Assign) and is_alias(n.value):
                for t in n.targets:
                    if isinstance(t, ast.Name) and t.id not in alias:
                        alias.add(t.id)
                        changed = True
    return alias, is_alias


def r9_input_untouched(repo: Repo, rep):
    R = rep.rule("R-C08-9", "a model's forward never writes into a tensor that may be the caller's: no x.op_(), `x += ..`, `x[..] = ..` on the input, the sanitised points or views of them", floor=10,
                 why="_fix_points_order returns the caller's own Points when the order already fits: an in-place unsqueeze_ / add_ changes the data a second evaluation (or another model) receives")
    model = repo.cls("models.model.Model")
    n = 0
    for ci in repo.subclasses(model, strict=True):
        fi = ci.methods.get("forward")
        if fi is None or len(fi.params) < 2:
            continue
        n += 1
        rep.saw(fi)
        alias, is_alias = _may_alias_input(fi, fi.params[1])
        bad = []
        for x in ast.walk(fi.node):
            if isinstance(x, ast.Call) and isinstance(x.func, ast.Attribute) and x.func.attr.endswith("_") and not x.func.attr.startswith("_") and is_alias(x.func.value):
                bad.append(dump(x)[:60])
            if isinstance(x, ast.AugAssign) and is_alias(x.target):
                bad.append(dump(x)[:60])
            if isinstance(x, ast.Assign):
                for t in x.targets:
                    if isinstance(t, ast.Subscript) and is_alias(t.value):
                        bad.append(dump(x)[:60])
        rep.check(R, not bad, fi.site(), fi.fq, "input-aliased tensors are only read", str(bad[:2]), f"{ci.name}.forward writes {bad[:2]}")
    if n == 0:
        rep.undecided(R, "src/torchphysics/models", "-", "forward methods", "none found")


def r10_parallel_spaces(repo: Repo, rep):
    R = rep.rule("R-C08-10", "Parallel's input space is the ordered union of its parts' input spaces (every variable of every part, each once) and its output space their product - "
                 "by partial evaluation of the constructor on parts with overlapping inputs", floor=3,
                 why="dropping a part's input space because it shares ONE variable with an earlier part loses its other variables: a valid input is rejected or a part never sees its variable")
    from collections import OrderedDict
    from ..absdom.listeval import Evaluator, NotEval, Obj, Opaque, UNKNOWN

    class SpaceV(OrderedDict):
        """model of Space: `*` appends the variables of the right operand that are new (equal names merge), `-` removes the variables of the right operand (Counter subtraction of equal dimensions)"""

        def le_binop(self, op, other, reflected):
            if not isinstance(other, dict):
                raise NotEval("space arithmetic with a non-space")
            a, b = (other, self) if reflected else (self, other)
            if isinstance(op, ast.Mult) or isinstance(op, ast.Add):
                out = SpaceV(a)
                for k, d in b.items():
                    out[k] = out.get(k, 0) + d if isinstance(op, ast.Add) and k in out else out.get(k, d)
                return out
            if isinstance(op, ast.Sub):
                return SpaceV((k, d - b.get(k, 0)) for k, d in a.items() if d - b.get(k, 0) > 0)
            raise NotEval("space operator")
    ci = repo.cls("models.model.Parallel")
    init = ci.methods.get("__init__")
    if init is None:
        raise AnalysisError("Parallel.__init__ vanished")
    rep.saw(init)
    va = init.node.args.vararg.arg if init.node.args.vararg else None
    if va is None:
        rep.undecided(R, init.site(), init.fq, "Parallel(*models)", "no *models parameter")
        return
    cases = [
        [({"x": 2, "t": 1}, {"u": 1}), ({"t": 1, "p": 1}, {"v": 2})],
        [({"x": 1}, {"u": 1}), ({"y": 1}, {"v": 1}), ({"x": 1, "y": 1, "z": 3}, {"w": 1})],
        [({"a": 1, "b": 1}, {"u": 1}), ({"b": 1, "a": 1}, {"v": 1})],
    ]
    for parts in cases:
        got = {}

        def on_call(e, name, args, kws, ev, f, got=got):
            if name == "Space" and args is not None and len(args) == 1 and isinstance(args[0], dict):
                return SpaceV(args[0])
            if name.endswith("__init__") and "super" in name and args is not None:
                got["in"], got["out"] = (list(args) + [kws.get("input_space"), kws.get("output_space")])[:2] if len(args) >= 2 else (kws.get("input_space", args[0] if args else None), kws.get("output_space"))
                return Opaque("none")
            if name.split(".")[-1] in ("ModuleList",):
                return Opaque("modules")
            return None
        models = tuple(Obj(f"m{i}", {"input_space": SpaceV(a), "output_space": SpaceV(b)}) for i, (a, b) in enumerate(parts))
        Evaluator(None, on_call).run(init.node.body, {"self": Opaque("self"), va: models})
        want_in, want_out = OrderedDict(), OrderedDict()
        for a, b in parts:
            for k, d in a.items():
                want_in.setdefault(k, d)
            for k, d in b.items():
                want_out.setdefault(k, d)
        label = f"parts with inputs {[list(a) for a, b in parts]}: input space {list(want_in)}, output space {list(want_out)}"
        gi, go = got.get("in"), got.get("out")
        if not isinstance(gi, dict) or not isinstance(go, dict):
            rep.undecided(R, init.site(), init.fq, label + " (evaluable)", f"{gi!r} / {go!r}"[:100])
            continue
        rep.check(R, list(gi.items()) == list(want_in.items()) and list(go.items()) == list(want_out.items()), init.site(), init.fq, label, f"input {list(gi.items())}, output {list(go.items())}",
                  f"Parallel spaces {list(gi)} / {list(go)}")


def run(repo: Repo, rep):
    r11_value_free_control(repo, rep)
    r12_rows_in_the_given_order(repo, rep)
    r9_input_untouched(repo, rep)
    r10_parallel_spaces(repo, rep)
    from .generic import g_arg_constructor_parameters
    g_arg_constructor_parameters(repo, rep, lambda m: ".models." in m and ".deeponet" not in m, floor=8,
                                 why="a model that ignores its declared spaces or hyper-parameters is not the function of named variables it was configured to be")
    r1_sanitiser(repo, rep)
    r2_fix_points_order(repo, rep)
    r3_compositions(repo, rep)
    r4_purity_and_label(repo, rep)
    r8_feature_axis_from_the_end(repo, rep)
    from .c12 import r1_pairing, r3_selection, r6_empty_and_slices  # the name-based selection and the join (Points.joined) this property's idioms rely on
    r3_selection(repo, rep)
    r1_pairing(repo, rep)
    r6_empty_and_slices(repo, rep)


_F = "src/torchphysics/models/fcn.py"
_M = "src/torchphysics/models/model.py"
_D = "src/torchphysics/models/deepritz.py"
_T = "src/torchphysics/models/deeponet/trunknets.py"
_N = "src/torchphysics/models/FNO.py"
MUTANTS = [
    dict(id="C08-M1", file=_F, old="        points = self._fix_points_order(points)\n        return Points(self.sequential(points), self.output_space)",
         new="        return Points(self.sequential(points), self.output_space)", rule="R-C08-1", what="FCN without sanitiser"),
    dict(id="C08-M2", file=_D, old="        x = self._fix_points_order(x)\n", new="", rule="R-C08-1", what="DeepRitz without sanitiser"),
    dict(id="C08-M3", file=_T, old="        points = self._fix_points_order(points)\n", new="", rule="R-C08-1", what="trunk without sanitiser"),
    dict(id="C08-M4", file=_N, old="        points = self._fix_points_order(points)\n        points_up_sampled", new="        points_up_sampled", rule="R-C08-1", what="FNO without sanitiser"),
    dict(id="C08-M5", file=_M, old="out.append(model(points[..., list(model.input_space.keys())]))", new="out.append(model(points))", rule="R-C08-3", what="Parallel passes all columns"),
    dict(id="C08-M6", file=_M, old="            points = points[..., list(self.input_space.keys())]\n", new="            pass\n", rule="R-C08-2", what="sanitiser no longer reorders"),
    dict(id="C08-M7", file=_F, old="points = self._fix_points_order(points).as_tensor\n        points_list", new="points = points.as_tensor\n        points_list", rule="R-C08-1", what="Harmonic_FCN raw"),
    dict(id="C08-M8", file=_M, old="        for model in self.models:\n            points = model(points)", new="        for model in reversed(self.models):\n            points = model(points)", rule="R-C08-3", what="Sequential reversed"),
    dict(id="C08-M9", file=_M, old="        points = self._fix_points_order(points)\n        return Points(self.normalize(points), self.output_space)",
         new="        return Points(self.normalize(points), self.output_space)", rule="R-C08-1", what="NormalizationLayer raw"),
    dict(id="C08-M10", file=_M, old="super().__init__(models[0].input_space, models[-1].output_space)", new="super().__init__(models[0].input_space, models[0].output_space)", rule="R-C08-3", what="Sequential output space of first model"),
]
TWINS = [
    dict(id="C08-T1", file=_F, old="        points = self._fix_points_order(points)\n        return Points(self.sequential(points), self.output_space)",
         new="        ordered = self._fix_points_order(points)\n        out = self.sequential(ordered)\n        return Points(out, self.output_space)", what="sanitised value bound to a new name"),
    dict(id="C08-T2", file=_M, old="        if points.space != self.input_space:\n            if points.space.keys() != self.input_space.keys():",
         new="        if not (self.input_space == points.space):\n            if not points.space.keys() == self.input_space.keys():", what="comparison rewritten"),
    dict(id="C08-T3", file=_M, old="        out = []\n        for model in self.models:\n            out.append(model(points[..., list(model.input_space.keys())]))\n        return Points.joined(*out)",
         new="        results = []\n        for m in self.models:\n            sub = points[..., list(m.input_space.keys())]\n            results.append(m(sub))\n        return Points.joined(*results)", what="renamed, temporary"),
]
